//! C29 — resource files are confined to the manifest directory.
//!
//! Every case builds a real directory tree `<case>/root` (the manifest root) + `<case>/outside` (sentinel
//! files, unique marker content) with symlinks of every kind, runs ONE resource / archive operation of the
//! SDK with an identifier taken from a traversal grammar, and judges the *file system*:
//!   * snapshot (type, size, sha256 / link target, mtime) of everything outside `root/` (and outside the
//!     declared output folder for `Reader::to_folder`) is identical before and after;
//!   * bytes returned / embedded by a read operation never contain the marker of an outside file;
//!   * `exists`/`get`/`write_stream` succeeding, or `path_for_id` returning a path, implies that the real
//!     location of `base/id` (resolved by the harness, symlinks followed, missing tail kept) is inside the
//!     real location of the root; `exists` must not change when outside files appear / disappear.
//! Errors are always acceptable. Symlinks that stay inside the root are legitimate.

use std::{
    collections::BTreeMap,
    io::{Cursor, Write},
    os::unix::fs::MetadataExt,
    path::{Component, Path, PathBuf},
    sync::atomic::{AtomicU64, Ordering},
};

use c2pa::{Builder, BuilderIntent, DigitalSourceType, Ingredient, ResourceRef, ResourceStore};
use serde::{Deserialize, Serialize};
use serde_json::json;
use sha2::{Digest, Sha256};
use vh::{rng::SplitMix64, CaseResult, Fail, Run};

const WORK: &str = "/verif/work/C29";
const OUT_MARK: &str = "<<OUTSIDE-SENTINEL:";
const IN_MARK: &str = "<<INSIDE-FILE:";
const PAYLOAD_MARK: &str = "<<HARNESS-PAYLOAD:";
const FIXED_LABEL: &str = "urn:c2pa:3fad1ead-8ed5-44d0-873b-ea5f58adea82";

#[derive(Clone, Debug, Serialize, Deserialize, PartialEq, Eq, Hash)]
enum Node {
    /// directory (path relative to the case directory)
    Dir(String),
    /// regular file with marker content
    File(String),
    /// symlink (path, target); `@CASE@` in the target is replaced by the absolute case directory
    Link(String, String),
}

#[derive(Clone, Debug, Serialize, Deserialize, PartialEq, Eq, Hash)]
struct Case {
    tree: Vec<Node>,
    /// base path given to the SDK, relative to the case directory (`root`, `root/nested`, `rootlink`)
    base: String,
    /// explicit resource root (relative to the case directory), None = not set (defaults to base)
    res_root: Option<String>,
    /// operation name
    op: String,
    /// identifier (`@CASE@` = absolute case directory, `@CASENAME@` = its last component, `@CWDREL@` = case
    /// directory relative to the process working directory)
    id: String,
    /// operation-specific second parameter (format string, zip entry prefix, output-folder layout …)
    aux: String,
    /// escape-vector class of the identifier (for the coverage histogram)
    class: String,
}

// ------------------------------------------------------------------------------------------------------
// file-system helpers (harness side of the oracle; no SDK code)
// ------------------------------------------------------------------------------------------------------

type Snap = BTreeMap<String, String>;

fn sha_hex(b: &[u8]) -> String {
    hex::encode(Sha256::digest(b))
}

/// path -> "type size sha256|target mtime" for everything below `dir` (symlinks not followed).
fn snapshot(dir: &Path, rel: &str, out: &mut Snap) {
    let Ok(rd) = std::fs::read_dir(dir) else { return };
    let mut names: Vec<_> = rd.filter_map(|e| e.ok()).map(|e| e.file_name()).collect();
    names.sort();
    for n in names {
        let p = dir.join(&n);
        let r = if rel.is_empty() { n.to_string_lossy().to_string() } else { format!("{rel}/{}", n.to_string_lossy()) };
        let Ok(md) = std::fs::symlink_metadata(&p) else { continue };
        let ft = md.file_type();
        if ft.is_symlink() {
            let t = std::fs::read_link(&p).map(|t| t.to_string_lossy().to_string()).unwrap_or_default();
            out.insert(r, format!("link -> {t}"));
        } else if ft.is_dir() {
            out.insert(r.clone(), format!("dir mtime={}.{}", md.mtime(), md.mtime_nsec()));
            snapshot(&p, &r, out);
        } else {
            let body = std::fs::read(&p).unwrap_or_default();
            out.insert(
                r,
                format!("file size={} sha256={} mtime={}.{}", md.len(), sha_hex(&body), md.mtime(), md.mtime_nsec()),
            );
        }
    }
}

fn snap_excluding(case_dir: &Path, exclude: &[&str]) -> Snap {
    let mut s = Snap::new();
    snapshot(case_dir, "", &mut s);
    s.retain(|k, _| !exclude.iter().any(|e| k == e || k.starts_with(&format!("{e}/"))));
    // the directory entries of the excluded roots live in the case directory itself: their own mtime is
    // already gone with the retain above; the case directory is not an entry.
    s
}

fn snap_diff(a: &Snap, b: &Snap) -> Vec<String> {
    let mut d = vec![];
    for (k, v) in a {
        match b.get(k) {
            None => d.push(format!("deleted {k}")),
            Some(w) if w != v => d.push(format!("changed {k}: [{v}] => [{w}]")),
            _ => {}
        }
    }
    for (k, v) in b {
        if !a.contains_key(k) {
            d.push(format!("created {k} [{v}]"));
        }
    }
    d
}

/// `realpath -m`: follow symlinks component by component, keep components that do not exist.
fn real_location(p: &Path) -> Option<PathBuf> {
    real_location2(p).and_then(|(l, clean)| clean.then_some(l))
}

/// Second value false = a `..` was applied after a missing component: the operating system cannot resolve
/// such a path at all (ENOENT), so it has no real location.
fn real_location2(p: &Path) -> Option<(PathBuf, bool)> {
    let mut todo: Vec<std::ffi::OsString> = vec![];
    let push_rev = |todo: &mut Vec<std::ffi::OsString>, q: &Path| {
        let comps: Vec<_> = q.components().collect();
        for c in comps.into_iter().rev() {
            match c {
                Component::RootDir => todo.push("/".into()),
                Component::CurDir => {}
                Component::ParentDir => todo.push("..".into()),
                Component::Normal(s) => todo.push(s.to_os_string()),
                Component::Prefix(_) => {}
            }
        }
    };
    let abs = if p.is_absolute() { p.to_path_buf() } else { std::env::current_dir().ok()?.join(p) };
    push_rev(&mut todo, &abs);
    let mut cur = PathBuf::from("/");
    let mut hops = 0;
    let mut missing = false;
    let mut clean = true;
    let ps = p.to_string_lossy();
    let trailing_slash = ps.ends_with('/') || ps.ends_with("/.");
    while let Some(c) = todo.pop() {
        if c == "/" {
            cur = PathBuf::from("/");
            continue;
        }
        if c == ".." {
            if missing {
                clean = false;
            }
            cur.pop();
            continue;
        }
        let next = cur.join(&c);
        match std::fs::symlink_metadata(&next) {
            Ok(md) if md.file_type().is_symlink() => {
                hops += 1;
                if hops > 64 {
                    return None;
                }
                let t = std::fs::read_link(&next).ok()?;
                // relative targets resolve against `cur`; absolute ones restart at "/"
                push_rev(&mut todo, &t);
            }
            Ok(md) => {
                // a regular file followed by further components (or a trailing slash) is ENOTDIR for the
                // operating system: such a path names nothing and nothing can be created under it
                if !md.is_dir() && (!todo.is_empty() || trailing_slash) {
                    clean = false;
                }
                cur = next
            }
            Err(_) => {
                missing = true;
                cur = next
            }
        }
    }
    Some((cur, clean))
}

fn inside(loc: &Path, root_real: &Path) -> bool {
    loc.starts_with(root_real)
}

// ------------------------------------------------------------------------------------------------------
// case materialisation
// ------------------------------------------------------------------------------------------------------

static CASE_NO: AtomicU64 = AtomicU64::new(0);

struct Live {
    dir: PathBuf,
    name: String,
}

impl Live {
    fn subst(&self, s: &str) -> String {
        let cwd = std::env::current_dir().unwrap_or_else(|_| PathBuf::from("/"));
        // relative spelling of the case directory from the working directory
        let mut ups = String::new();
        for _ in cwd.components().filter(|c| matches!(c, Component::Normal(_))) {
            ups.push_str("../");
        }
        let cwdrel = format!("{ups}{}", self.dir.to_string_lossy().trim_start_matches('/'));
        s.replace("@CASE@", &self.dir.to_string_lossy()).replace("@CASENAME@", &self.name).replace("@CWDREL@", &cwdrel)
    }
}

fn marker_for(path: &str) -> String {
    let tag = if path == "root" || path.starts_with("root/") { IN_MARK } else { OUT_MARK };
    format!("{tag}{path}:{:016x}>>\n", vh::digest(&path))
}

fn materialise(c: &Case, replay: bool) -> Result<Live, String> {
    let n = CASE_NO.fetch_add(1, Ordering::SeqCst);
    let name = if replay { format!("replay-{n}") } else { format!("case-{n}") };
    let dir = PathBuf::from(WORK).join(&name);
    let _ = std::fs::remove_dir_all(&dir);
    std::fs::create_dir_all(&dir).map_err(|e| format!("mkdir {dir:?}: {e}"))?;
    let live = Live { dir: dir.clone(), name };
    for nd in &c.tree {
        match nd {
            Node::Dir(p) => std::fs::create_dir_all(dir.join(p)).map_err(|e| format!("mkdir {p}: {e}"))?,
            Node::File(p) => {
                if let Some(par) = dir.join(p).parent() {
                    std::fs::create_dir_all(par).map_err(|e| format!("mkdir parent {p}: {e}"))?;
                }
                std::fs::write(dir.join(p), marker_for(p)).map_err(|e| format!("write {p}: {e}"))?
            }
            Node::Link(p, t) => {
                if let Some(par) = dir.join(p).parent() {
                    std::fs::create_dir_all(par).map_err(|e| format!("mkdir parent {p}: {e}"))?;
                }
                std::os::unix::fs::symlink(live.subst(t), dir.join(p)).map_err(|e| format!("symlink {p}: {e}"))?
            }
        }
    }
    Ok(live)
}

// ------------------------------------------------------------------------------------------------------
// generators (all randomness from SplitMix64 seeded by run.seed)
// ------------------------------------------------------------------------------------------------------

struct TreeInfo {
    nodes: Vec<Node>,
    /// names (relative to root) of symlinks that resolve to a directory outside
    dir_links_out: Vec<String>,
    /// names of symlinks to directories inside
    dir_links_in: Vec<String>,
    /// every symlink name relative to root
    links: Vec<String>,
    /// plain inside files (relative to root)
    in_files: Vec<String>,
}

fn odd_name(r: &mut SplitMix64, stem: &str) -> String {
    match r.below(8) {
        0 => format!("{stem} sp ace"),
        1 => format!("{stem}-ünï"),
        2 => format!("...{stem}"),
        3 => format!("{stem}.b.c"),
        4 => format!("%2e%2e{stem}"),
        _ => stem.to_string(),
    }
}

fn gen_tree(r: &mut SplitMix64) -> TreeInfo {
    let mut n = vec![
        Node::Dir("root".into()),
        Node::File("root/a.txt".into()),
        Node::Dir("root/d1".into()),
        Node::File("root/d1/b.txt".into()),
        Node::Dir("root/d1/d2".into()),
        Node::File("root/d1/d2/c.txt".into()),
        Node::Dir("root/nested".into()),
        Node::File("root/nested/n.txt".into()),
        Node::Dir("root_out".into()),
        Node::File("root_out/secret.txt".into()),
        Node::Dir("root_out/sub".into()),
        Node::File("root_out/sub/deep.txt".into()),
        Node::Link("rootlink".into(), "root".into()),
    ];
    let mut t = TreeInfo {
        nodes: vec![],
        dir_links_out: vec![],
        dir_links_in: vec![],
        links: vec![],
        in_files: vec!["a.txt".into(), "d1/b.txt".into(), "d1/d2/c.txt".into(), "nested/n.txt".into()],
    };
    let link = |n: &mut Vec<Node>, t: &mut TreeInfo, name: String, target: &str, kind: u8| {
        n.push(Node::Link(format!("root/{name}"), target.to_string()));
        t.links.push(name.clone());
        match kind {
            1 => t.dir_links_out.push(name),
            2 => t.dir_links_in.push(name),
            _ => {}
        }
    };
    let keep = |r: &mut SplitMix64| r.chance(3, 4);
    if keep(r) {
        link(&mut n, &mut t, odd_name(r, "lf_in"), "a.txt", 0);
    }
    if keep(r) {
        link(&mut n, &mut t, odd_name(r, "ld_in"), "d1", 2);
    }
    if keep(r) {
        link(&mut n, &mut t, "d1/lf_up".into(), "../a.txt", 0);
    }
    if keep(r) {
        link(&mut n, &mut t, odd_name(r, "lf_out"), "../root_out/secret.txt", 0);
    }
    if keep(r) {
        link(&mut n, &mut t, "lf_out_abs".into(), "@CASE@/root_out/secret.txt", 0);
    }
    if keep(r) {
        link(&mut n, &mut t, odd_name(r, "ld_out"), "../root_out", 1);
    }
    if keep(r) {
        link(&mut n, &mut t, "ld_out_abs".into(), "@CASE@/root_out", 1);
    }
    if keep(r) {
        link(&mut n, &mut t, "d1/ld_out_sub".into(), "../../root_out/sub", 1);
    }
    if keep(r) {
        link(&mut n, &mut t, odd_name(r, "dangling_out"), "../root_out/newfile.txt", 0);
    }
    if keep(r) {
        link(&mut n, &mut t, "dangling_out_abs".into(), "@CASE@/root_out/newfile_abs.txt", 0);
    }
    if keep(r) {
        link(&mut n, &mut t, "dangling_out_dir".into(), "../root_out/newdir", 0);
    }
    if keep(r) {
        link(&mut n, &mut t, "dangling_in".into(), "missing.txt", 0);
    }
    if keep(r) {
        link(&mut n, &mut t, "d1/up".into(), "..", 2);
    }
    if keep(r) {
        link(&mut n, &mut t, "d1/upup".into(), "../..", 0);
    }
    if keep(r) {
        link(&mut n, &mut t, "parent".into(), "..", 0);
    }
    if keep(r) {
        link(&mut n, &mut t, "selfloop".into(), "selfloop", 0);
    }
    if keep(r) {
        link(&mut n, &mut t, "nested/ln_out".into(), "../../root_out/secret.txt", 0);
    }
    // chains c<k>_1 -> c<k>_2 -> … -> final
    for (k, fin, kind) in [
        (0, "../root_out", 1u8),
        (1, "../root_out/secret.txt", 0),
        (2, "../root_out/chain_new.txt", 0),
        (3, "a.txt", 0),
        (4, "d1", 2),
    ] {
        if r.chance(1, 2) {
            let len = 2 + r.usize(3);
            for i in 1..=len {
                let name = format!("c{k}_{i}");
                let target = if i == len { fin.to_string() } else { format!("c{k}_{}", i + 1) };
                link(&mut n, &mut t, name, &target, if i == 1 { kind } else { 0 });
            }
        }
    }
    t.nodes = n;
    t
}

/// Identifier relative to the manifest root naming something interesting + class of escape vector.
fn gen_target(r: &mut SplitMix64, t: &TreeInfo) -> (String, &'static str) {
    let new = format!("new-{}.txt", r.below(1000));
    loop {
        let pick = r.below(20);
        let got: Option<(String, &'static str)> = match pick {
            0 | 1 => Some((r.pick(&t.in_files).clone(), "inside-file")),
            2 => Some((["d1", "d1/d2", "nested", "nope.txt", "d1/nope/x.txt"][r.usize(5)].to_string(), "inside-other")),
            3 | 4 | 5 => (!t.links.is_empty()).then(|| (r.pick(&t.links).clone(), "symlink-name")),
            6 | 7 | 8 => (!t.dir_links_out.is_empty()).then(|| {
                let l = r.pick(&t.dir_links_out).clone();
                let tail = ["secret.txt", "sub/deep.txt", "deep.txt", new.as_str(), "newdir/x.txt", "", "sub"][r.usize(7)];
                (if tail.is_empty() { l } else { format!("{l}/{tail}") }, "under-symlinked-dir")
            }),
            9 => (!t.dir_links_in.is_empty()).then(|| {
                let l = r.pick(&t.dir_links_in).clone();
                let tail = ["b.txt", "d2/c.txt", "a.txt", new.as_str()][r.usize(4)];
                (format!("{l}/{tail}"), "under-inside-symlinked-dir")
            }),
            10 | 11 => Some((
                [
                    "../root_out/secret.txt",
                    "../root_out/sub/deep.txt",
                    "../root_out/dotdot_new.txt",
                    "../root_out",
                    "..",
                    "../..",
                    "../../@CASENAME@/root_out/secret.txt",
                    "../rootlink/a.txt",
                ][r.usize(8)]
                .to_string(),
                "dotdot",
            )),
            12 => Some((
                [
                    "parent/root_out/secret.txt",
                    "d1/upup/root_out/secret.txt",
                    "d1/upup/root_out/via_upup.txt",
                    "parent/root_out/via_parent.txt",
                    "parent/root/a.txt",
                    "d1/up/a.txt",
                    "d1/up/d1/up/a.txt",
                ][r.usize(7)]
                .to_string(),
                "via-parent-symlink",
            )),
            13 => (!t.dir_links_out.is_empty() || !t.dir_links_in.is_empty()).then(|| {
                let l = if !t.dir_links_out.is_empty() && r.bool() || t.dir_links_in.is_empty() {
                    r.pick(&t.dir_links_out).clone()
                } else {
                    r.pick(&t.dir_links_in).clone()
                };
                let tail = ["..", "../root_out/secret.txt", "../../root_out/secret.txt", "../a.txt", "../secret.txt"][r.usize(5)];
                (format!("{l}/{tail}"), "symlink-then-dotdot")
            }),
            14 | 15 => Some((
                [
                    "@CASE@/root_out/secret.txt",
                    "@CASE@/root_out/abs_new.txt",
                    "@CASE@/root/a.txt",
                    "/@CASE@/root_out/secret.txt",
                    "//@CASE@/root_out/secret.txt",
                    "file://@CASE@/root_out/secret.txt",
                ][r.usize(6)]
                .to_string(),
                "absolute",
            )),
            16 => Some((
                ["", ".", "/", "~", " ", "./", "a.txt/", "a.txt/.", "a.txt/..", "self#jumbf=../root_out/secret.txt"][r.usize(10)]
                    .to_string(),
                "degenerate",
            )),
            17 => Some((
                ["nope/../../root_out/secret.txt", "d1/../../root_out/secret.txt", "d1/d2/../../../root_out/secret.txt", "d1/../a.txt"]
                    [r.usize(4)]
                .to_string(),
                "inner-dotdot",
            )),
            _ => Some((new.clone(), "new-inside")),
        };
        if let Some(g) = got {
            return g;
        }
    }
}

fn wrap_id(r: &mut SplitMix64, id: &str, class: &'static str) -> (String, String) {
    let w = r.below(24);
    let (s, wn): (String, &str) = match w {
        0..=8 => (id.to_string(), "plain"),
        9 => (format!("./{id}"), "dot-prefix"),
        10 => (id.replace('/', "//"), "double-slash"),
        11 => (format!("d1/../{id}"), "inside-dotdot-prefix"),
        12 => (format!("d1/d2/../..//./{id}"), "inside-dotdot-prefix"),
        13 => (id.replace('/', "\\"), "backslash"),
        14 => (id.replacen('/', "\\", 1), "backslash-mixed"),
        15 => (id.replace("..", "%2e%2e"), "pct-dots"),
        16 => (id.replace('/', "%2f"), "pct-slash"),
        17 => (id.replace("..", "%252e%252e").replace('/', "%2F"), "pct-double"),
        18 => (id.replace("..", "\u{2024}\u{2024}").replace('/', "\u{2215}"), "unicode-lookalike"),
        19 => (id.replace("..", "\u{ff0e}\u{ff0e}").replace('/', "\u{ff0f}"), "unicode-fullwidth"),
        20 => (format!("{}{id}", "d1/../".repeat(300 + r.usize(200))), "very-long-prefix"),
        21 => (format!("{id}/{}", "x".repeat(300 + r.usize(5000))), "very-long-name"),
        22 => (format!("{}{id}", "./".repeat(1500)), "very-long-dots"),
        _ => (format!("{id}/"), "trailing-slash"),
    };
    (s, format!("{class}+{wn}"))
}

const STORE_OPS: [&str; 7] = ["add", "add", "get", "exists", "write_stream", "path_for_id", "add_with"];
const BUILDER_OPS: [&str; 7] = [
    "builder_add_resource",
    "builder_add_resource",
    "builder_thumb",
    "builder_ingredient_thumb",
    "builder_ingredient_data",
    "builder_cgi_icon",
    "ingredient_thumb",
];

fn gen_case(r: &mut SplitMix64, family: &str) -> Case {
    let t = gen_tree(r);
    let (base, res_root) = match r.below(6) {
        0 => ("root".to_string(), Some("root".to_string())),
        1 => ("root/nested".to_string(), Some("root".to_string())),
        2 => ("rootlink".to_string(), None),
        _ => ("root".to_string(), None),
    };
    let (tid, class) = gen_target(r, &t);
    // in nested mode identifiers are relative to root/nested: climb one level to address the same things
    let tid = if base == "root/nested" && !tid.starts_with('@') && !tid.starts_with('/') && r.chance(3, 4) {
        format!("../{tid}")
    } else {
        tid
    };
    let (id, class) = wrap_id(r, &tid, class);
    let (op, aux) = match family {
        "store" => (r.pick(&STORE_OPS).to_string(), ["image/jpeg", "png", "application/octet-stream", "ocsp"][r.usize(4)].to_string()),
        "builder" => (r.pick(&BUILDER_OPS).to_string(), ["sign", "sign", "archive"][r.usize(3)].to_string()),
        "zip" => (
            "zip_import".to_string(),
            ["resources/", "manifests/", "ingredients/0/", "", "resources/x/", "@CASE@/root_out/", "@CWDREL@/root_out/", "../"][r.usize(8)]
                .to_string(),
        ),
        _ => unreachable!(),
    };
    let (base, res_root) = if family == "store" || op == "ingredient_thumb" { (base, res_root) } else { (if base == "root/nested" { "root".into() } else { base }, None) };
    Case { tree: t.nodes, base, res_root, op, id, aux, class }
}

/// to_folder cases: hostile strings flow into JUMBF labels (vendor, thumbnail formats) and the output
/// folder has one of several layouts.
fn gen_to_folder(r: &mut SplitMix64) -> Case {
    let mut tree = vec![
        Node::Dir("root".into()),
        Node::File("root/a.txt".into()),
        Node::Dir("root_out".into()),
        Node::File("root_out/secret.txt".into()),
        Node::File("root_out/manifest_store.json".into()),
        Node::Dir("root_out/sub".into()),
    ];
    let layout = ["absent", "empty", "nested-missing", "symlinked-out", "planted-file-link", "planted-dangling-link", "planted-dir-link", "planted-assertions-link"]
        [r.usize(8)];
    let label_dir = FIXED_LABEL.replace(':', "_");
    match layout {
        "empty" => tree.push(Node::Dir("out".into())),
        "symlinked-out" => {
            tree.push(Node::Dir("out_real".into()));
            tree.push(Node::Link("out".into(), "out_real".into()));
        }
        "planted-file-link" => {
            tree.push(Node::Dir("out".into()));
            tree.push(Node::Link("out/manifest_store.json".into(), "../root_out/secret.txt".into()));
        }
        "planted-dangling-link" => {
            tree.push(Node::Dir("out".into()));
            tree.push(Node::Link("out/manifest_data.c2pa".into(), "../root_out/planted_new.c2pa".into()));
        }
        "planted-dir-link" => {
            tree.push(Node::Dir("out".into()));
            tree.push(Node::Link(format!("out/{label_dir}"), "../root_out/sub".into()));
        }
        "planted-assertions-link" => {
            tree.push(Node::Dir(format!("out/{label_dir}")));
            tree.push(Node::Link(format!("out/{label_dir}/c2pa.assertions"), "@CASE@/root_out".into()));
        }
        _ => {}
    }
    let hostile = [
        "../../root_out/evil",
        "../../../root_out/evil",
        "image/../../../../root_out/evil",
        "image/../../../root_out/evil.jpg",
        "@CASE@/root_out/evil",
        "image/@CASE@/root_out/evil",
        "..\\..\\root_out\\evil",
        "%2e%2e/%2e%2e/root_out/evil",
        "..",
        "image/..",
        "a/b/c",
        "image/jpeg",
        "image/png",
        "jpeg/../../../../../root_out/evil",
        "image/./../../../../root_out/evil",
        "x:../../root_out/evil",
    ];
    let field = ["thumb_format", "thumb_format_v1", "ingredient_thumb_format", "ingredient_thumb_format_v1", "vendor", "vendor_v1", "cgi_icon_v1", "plain"]
        [r.usize(8)];
    let id = r.pick(&hostile).to_string();
    Case {
        tree,
        base: "root".into(),
        res_root: None,
        op: "to_folder".into(),
        id,
        aux: format!("{field}|{layout}"),
        class: format!("to_folder+{field}"),
    }
}

// ------------------------------------------------------------------------------------------------------
// the judge
// ------------------------------------------------------------------------------------------------------

/// What kind of path `base/id` is before the operation (for the failure signature).
fn anatomy(base: &Path, id: &str) -> &'static str {
    if id.contains('\\') || Path::new(id).is_absolute() || Path::new(id).components().any(|c| matches!(c, Component::ParentDir)) {
        return "by-identifier";
    }
    let comps: Vec<_> = Path::new(id).components().filter(|c| matches!(c, Component::Normal(_))).collect();
    let mut p = base.to_path_buf();
    for (i, c) in comps.iter().enumerate() {
        p.push(c.as_os_str());
        if let Ok(md) = std::fs::symlink_metadata(&p) {
            if md.file_type().is_symlink() {
                if i + 1 < comps.len() {
                    return "symlinked-dir";
                }
                return if std::fs::metadata(&p).is_ok() { "live-leaf-symlink" } else { "dangling-leaf-symlink" };
            }
        }
    }
    "plain"
}

fn write_sig(op: &str, anat: &str) -> String {
    match anat {
        "symlinked-dir" => format!("C29:{op}-writes-through-symlinked-dir"),
        "dangling-leaf-symlink" => format!("C29:{op}-follows-dangling-symlink"),
        "live-leaf-symlink" => format!("C29:{op}-overwrites-through-file-symlink"),
        _ => format!("C29:{op}-escapes-by-identifier"),
    }
}

/// Identifier shortened for messages.
fn short(id: &str) -> String {
    if id.chars().count() <= 160 {
        format!("{id:?}")
    } else {
        let head: String = id.chars().take(70).collect();
        let tail: String = id.chars().rev().take(70).collect::<Vec<_>>().into_iter().rev().collect();
        format!("\"{head}\" … ({} chars) … \"{tail}\"", id.chars().count())
    }
}

fn has_out_marker(b: &[u8]) -> bool {
    vh::sdk::find_sub(b, OUT_MARK.as_bytes()).is_some()
}

fn payload(id: &str) -> Vec<u8> {
    format!("{PAYLOAD_MARK}{:016x}>>", vh::digest(&id)).into_bytes()
}

fn new_store(base: &Path, res_root: Option<&Path>) -> ResourceStore {
    let mut s = ResourceStore::new();
    s.set_base_path(base);
    if let Some(r) = res_root {
        s.set_resource_root(r);
    }
    s
}

fn selftest() -> u32 {
    std::env::var("VERIF_SELFTEST").ok().and_then(|s| s.parse().ok()).unwrap_or(0)
}

fn toggle_outside(live: &Live, c: &Case) {
    // remove every outside sentinel file, create every dangling outside target
    for nd in &c.tree {
        match nd {
            Node::File(p) if p.starts_with("root_out") => {
                let _ = std::fs::remove_file(live.dir.join(p));
            }
            Node::Link(p, t) if p.starts_with("root") => {
                let t = live.subst(t);
                let abs = if Path::new(&t).is_absolute() { PathBuf::from(&t) } else { live.dir.join(p).parent().unwrap().join(&t) };
                if let Some(loc) = real_location(&abs) {
                    if loc.starts_with(live.dir.join("root_out")) && std::fs::symlink_metadata(&loc).is_err() {
                        let _ = std::fs::write(&loc, b"toggled");
                    }
                }
            }
            _ => {}
        }
    }
    let _ = std::fs::write(live.dir.join("root_out/toggle_new.txt"), b"toggled");
}

fn judge(run: &Run, c: &Case) -> CaseResult {
    let live = match materialise(c, run.replay.is_some()) {
        Ok(l) => l,
        Err(e) => {
            run.count("harness_tree_error");
            run.note(format!("tree not materialised: {e}"));
            return Ok(());
        }
    };
    let r = judge_live(run, c, &live);
    let _ = std::fs::remove_dir_all(&live.dir);
    r
}

fn judge_live(run: &Run, c: &Case, live: &Live) -> CaseResult {
    let base = live.dir.join(&c.base);
    let res_root = c.res_root.as_ref().map(|r| live.dir.join(r));
    let root_real = match std::fs::canonicalize(live.dir.join("root")) {
        Ok(r) => r,
        Err(e) => {
            run.inconclusive(format!("case root cannot be canonicalised: {e}"));
            return Ok(());
        }
    };
    let id = live.subst(&c.id);
    let op = c.op.as_str();
    run.count(&format!("op:{op}"));
    run.count(&format!("vector:{}", c.class.split('+').next().unwrap_or("")));
    run.count(&format!("wrap:{}", c.class.split('+').nth(1).unwrap_or("-")));

    if op == "to_folder" {
        return judge_to_folder(run, c, live);
    }

    let anat = anatomy(&base, &id);
    run.count(&format!("anatomy:{anat}"));
    // real location of base/id (None = absolute/backslash identifiers are never joined by a confined store)
    let loc = real_location(&base.join(&id));
    let loc_outside = loc.as_ref().map(|l| !inside(l, &root_real)).unwrap_or(false);
    if loc_outside || anat != "plain" || !c.class.starts_with("inside") && !c.class.starts_with("new-inside") {
        run.nontrivial(c);
    }
    if loc_outside {
        run.count("real_location_outside");
    }

    // add_with flattens separators and appends an extension: predict the identifier it will use (only for
    // naming the failure signature, never for the verdict)
    let anat_write = if op == "add_with" {
        let ext = match c.aux.as_str() {
            "image/jpeg" => ".jpg",
            "png" => ".png",
            "ocsp" => ".ocsp",
            _ => "",
        };
        anatomy(&base, &format!("{}{ext}", id.replace(['/', ':'], "-")))
    } else {
        anat
    };
    let before = snap_excluding(&live.dir, &["root"]);
    // ---- run the operation --------------------------------------------------------------------------
    let mut read_back: Option<Vec<u8>> = None; // bytes the SDK returned / embedded
    let mut positive: Option<bool> = None; // exists()==true / get Ok / path Some
    let mut returned_path: Option<PathBuf> = None;
    let outcome: Result<String, String> = vh::catch(|| -> String {
        match op {
            "add" => {
                let mut s = new_store(&base, res_root.as_deref());
                match s.add(id.clone(), payload(&id)) {
                    Ok(_) => "ok".into(),
                    Err(e) => format!("err:{e}"),
                }
            }
            "add_with" => {
                let mut s = new_store(&base, res_root.as_deref());
                match s.add_with(&id, &c.aux, payload(&id)) {
                    Ok(r) => format!("ok:{}", r.identifier),
                    Err(e) => format!("err:{e}"),
                }
            }
            "get" => {
                let s = new_store(&base, res_root.as_deref());
                match s.get(&id) {
                    Ok(b) => {
                        read_back = Some(b.to_vec());
                        positive = Some(true);
                        "ok".into()
                    }
                    Err(e) => format!("err:{e}"),
                }
            }
            "write_stream" => {
                let s = new_store(&base, res_root.as_deref());
                let mut buf = Cursor::new(Vec::new());
                let r = s.write_stream(&id, &mut buf);
                // whatever was copied before an error counts as revealed
                read_back = Some(buf.into_inner());
                match r {
                    Ok(_) => {
                        positive = Some(true);
                        "ok".into()
                    }
                    Err(e) => format!("err:{e}"),
                }
            }
            "exists" => {
                let s = new_store(&base, res_root.as_deref());
                let e = s.exists(&id);
                positive = Some(e);
                format!("ok:{e}")
            }
            "path_for_id" => {
                let s = new_store(&base, res_root.as_deref());
                let p = s.path_for_id(&id);
                positive = Some(p.is_some());
                returned_path = p;
                "ok".into()
            }
            "ingredient_thumb" => {
                let mut ing = Ingredient::new_v2("i", "image/jpeg");
                ing.resources_mut().set_base_path(&base);
                if let Some(r) = res_root.as_deref() {
                    ing.resources_mut().set_resource_root(r);
                }
                let _ = ing.set_thumbnail_ref(ResourceRef::new("image/jpeg", id.clone()));
                let dr = ing.set_data_ref(ResourceRef::new("text/plain", id.clone()));
                if dr.is_ok() {
                    positive = Some(true); // set_data_ref succeeds only if exists(id)
                }
                match ing.thumbnail_bytes() {
                    Ok(b) => {
                        read_back = Some(b.to_vec());
                        positive = Some(true);
                        "ok".into()
                    }
                    Err(e) => format!("err:{e}"),
                }
            }
            "builder_add_resource" => {
                let mut b = Builder::from_context(vh::sdk::context());
                b.set_base_path(&base);
                match b.add_resource(&id, Cursor::new(payload(&id))) {
                    Ok(_) => "ok".into(),
                    Err(e) => format!("err:{e}"),
                }
            }
            "builder_thumb" | "builder_ingredient_thumb" | "builder_ingredient_data" | "builder_cgi_icon" => {
                let mut def = json!({
                    "title": "t", "format": "image/jpeg",
                    "claim_generator_info": [{ "name": "verif-harness", "version": "0.1" }],
                });
                match op {
                    "builder_thumb" => def["thumbnail"] = json!({"format": "image/jpeg", "identifier": id}),
                    "builder_ingredient_thumb" => {
                        def["ingredients"] = json!([{"title": "i", "format": "image/jpeg", "relationship": "componentOf",
                            "thumbnail": {"format": "image/jpeg", "identifier": id}}])
                    }
                    "builder_ingredient_data" => {
                        def["ingredients"] = json!([{"title": "i", "format": "text/plain", "relationship": "inputTo",
                            "data": {"format": "text/plain", "identifier": id}}])
                    }
                    _ => def["claim_generator_info"][0]["icon"] = json!({"format": "image/png", "identifier": id}),
                }
                let mut b = match Builder::from_context(vh::sdk::context()).with_definition(def.to_string()) {
                    Ok(b) => b,
                    Err(e) => return format!("err:def:{e}"),
                };
                b.set_intent(BuilderIntent::Create(DigitalSourceType::Empty));
                b.set_base_path(&base);
                let mut out = Cursor::new(Vec::new());
                let r = if c.aux == "archive" {
                    b.to_archive(&mut out).map(|_| ())
                } else {
                    let src = vh::sdk::fixture("C.jpg");
                    b.sign(vh::sdk::signer("ed25519").as_ref(), "image/jpeg", &mut Cursor::new(src), &mut out).map(|_| ())
                };
                read_back = Some(out.into_inner());
                match r {
                    Ok(()) => "ok".into(),
                    Err(e) => format!("err:{e}"),
                }
            }
            "zip_import" => {
                let prefix = live.subst(&c.aux);
                let mut zw = zip::ZipWriter::new(Cursor::new(Vec::new()));
                let opt = zip::write::SimpleFileOptions::default().compression_method(zip::CompressionMethod::Stored);
                let def = json!({
                    "title": "t", "format": "image/jpeg",
                    "claim_generator_info": [{ "name": "verif-harness", "version": "0.1" }],
                    "thumbnail": {"format": "image/jpeg", "identifier": id},
                    "instance_id": "xmp:iid:verif", "no_embed": false, "timestamp_manifest_labels": [],
                    "base_path": live.dir.join("root_out").to_string_lossy(),
                    "resources": {"base_path": live.dir.join("root_out").to_string_lossy(), "resources": {}},
                    "ingredients": [{"title": "i", "format": "image/jpeg", "relationship": "componentOf",
                        "thumbnail": {"format": "image/jpeg", "identifier": id},
                        "resources": {"base_path": live.dir.join("root_out").to_string_lossy()}}],
                    "assertions": [{"label": "c2pa.actions", "data": {"actions": [{"action": "c2pa.created",
                        "digitalSourceType": "http://c2pa.org/digitalsourcetype/empty"}]}}]
                });
                let mut ok = zw.start_file("manifest.json", opt).is_ok() && zw.write_all(def.to_string().as_bytes()).is_ok();
                ok &= zw.start_file(format!("{prefix}{id}"), opt).is_ok() && zw.write_all(&payload(&id)).is_ok();
                if !ok {
                    return "err:harness-zip-writer-rejected-name".into();
                }
                let bytes = match zw.finish() {
                    Ok(c) => c.into_inner(),
                    Err(_) => return "err:harness-zip-finish".into(),
                };
                let b = Builder::from_context(vh::sdk::context()).with_archive(Cursor::new(bytes));
                match b {
                    Err(e) => format!("err:{e}"),
                    Ok(mut b) => {
                        // the imported builder is now used with the manifest root as base path
                        b.set_base_path(&base);
                        let mut out = Cursor::new(Vec::new());
                        let src = vh::sdk::fixture("C.jpg");
                        let r = b.sign(vh::sdk::signer("ed25519").as_ref(), "image/jpeg", &mut Cursor::new(src), &mut out);
                        read_back = Some(out.into_inner());
                        match r {
                            Ok(_) => "ok".into(),
                            Err(e) => format!("import-ok-sign-err:{e}"),
                        }
                    }
                }
            }
            other => format!("err:unknown-op-{other}"),
        }
    });
    let outcome = match outcome {
        Ok(o) => o,
        Err(p) => format!("panic:{}", vh::core::panic_site(&p)),
    };
    let oc = outcome.split(':').next().unwrap_or("");
    run.count(&format!("outcome:{op}:{oc}"));
    if std::env::var("VERIF_DEBUG").is_ok() {
        eprintln!("DEBUG {op}({}) aux={} -> {outcome}", short(&id), c.aux);
    }
    if oc != "ok" && (op.starts_with("builder") || op == "zip_import") {
        let kind: String = outcome.splitn(3, ':').take(2).collect::<Vec<_>>().join(":").chars().take(40).collect();
        run.count(&format!("errkind:{op}:{kind}"));
    }

    if selftest() == 2 && op == "add" && anat == "plain" && oc == "ok" {
        // deliberately wrong "SDK": simulate an escaped write
        let _ = std::fs::write(live.dir.join("root_out/selftest_escape.txt"), b"x");
    }

    // ---- oracle 1: nothing outside root changed ----------------------------------------------------------
    let after = snap_excluding(&live.dir, &["root"]);
    let diff = snap_diff(&before, &after);
    if !diff.is_empty() {
        let opn = match op {
            "builder_add_resource" => "add_resource",
            o => o,
        };
        let sig = if matches!(op, "add" | "add_with" | "builder_add_resource") {
            let a = anat_write;
            write_sig(opn, a)
        } else {
            format!("C29:{opn}-modifies-outside")
        };
        return Err(Fail::new(
            sig,
            format!("{op}({}) [{outcome}] with base {} changed the file system outside the root: {}", short(&id), c.base, diff.join("; ")),
        ));
    }
    if oc == "ok" && matches!(op, "add" | "builder_add_resource") {
        run.count("write_accepted");
        // positive control: an accepted plain write is readable under root
        if anat == "plain" && !loc_outside {
            run.count("write_accepted_inside_plain");
        }
    }

    // ---- oracle 2: no outside content in returned bytes ------------------------------------------------
    if let Some(b) = &read_back {
        if has_out_marker(b) {
            return Err(Fail::new(
                format!("C29:{op}-returns-outside-content"),
                format!("{op}({}) with base {} returned/embedded the content of an outside sentinel file (real location {loc:?})", short(&id), c.base),
            ));
        }
        if vh::sdk::find_sub(b, IN_MARK.as_bytes()).is_some() {
            run.count("read_inside_content_ok");
        }
    }

    // ---- oracle 3: positive answers only for locations inside the root ----------------------------------
    let mut positive = positive;
    if selftest() == 1 && op == "exists" {
        positive = Some(true); // corrupted SDK answer
    }
    if positive == Some(true) {
        run.count(&format!("positive:{op}"));
        // Only meaningful when the identifier is resolved against the base path at all.
        // the operating system's own resolution first; `realpath -m` style only for paths that do not exist
        let probe = returned_path.clone().unwrap_or_else(|| base.join(&id));
        let target_loc = std::fs::canonicalize(&probe).ok().or_else(|| if op == "path_for_id" { real_location(&probe) } else { loc.clone() });
        if target_loc.is_none() {
            run.count("positive_without_location");
        }
        if let Some(l) = target_loc {
            if !inside(&l, &root_real) {
                let sig = match op {
                    "path_for_id" => {
                        if std::fs::canonicalize(&probe).is_ok() {
                            "C29:path_for_id-returns-existing-outside-path".to_string()
                        } else {
                            "C29:path_for_id-returns-location-outside-root".to_string()
                        }
                    }
                    o => format!("C29:{o}-positive-for-outside-location"),
                };
                return Err(Fail::new(
                    sig,
                    format!("{op}({}) with base {} answered positively ({outcome}) although the real location is {l:?}, outside {root_real:?}", short(&id), c.base),
                ));
            }
        }
    }

    // ---- oracle 4: exists() does not depend on what exists outside ---------------------------------------
    if op == "exists" && selftest() == 0 {
        let first = positive;
        toggle_outside(live, c);
        let s = new_store(&base, res_root.as_deref());
        let second = vh::catch(|| s.exists(&id)).ok();
        run.eval();
        if second != first {
            return Err(Fail::new(
                "C29:exists-depends-on-outside-files",
                format!("exists({}) was {first:?}, and {second:?} after outside files were removed/created (base {})", short(&id), c.base),
            ));
        }
    }
    Ok(())
}

fn judge_to_folder(run: &Run, c: &Case, live: &Live) -> CaseResult {
    let (field, layout) = c.aux.split_once('|').unwrap_or(("plain", "absent"));
    let hostile = live.subst(&c.id);
    let v1 = field.ends_with("_v1");
    let mut def = json!({
        "title": "t", "format": "image/jpeg", "label": FIXED_LABEL,
        "claim_generator_info": [{ "name": "verif-harness", "version": "0.1" }],
        "thumbnail": {"format": "image/jpeg", "identifier": "thumb"},
        "ingredients": [{"title": "i", "format": "image/jpeg", "relationship": "componentOf",
            "thumbnail": {"format": "image/png", "identifier": "ithumb"}}],
    });
    if v1 {
        def["claim_version"] = json!(1);
        def["label"] = json!("urn:uuid:3fad1ead-8ed5-44d0-873b-ea5f58adea82");
    }
    match field.trim_end_matches("_v1") {
        "thumb_format" => def["thumbnail"]["format"] = json!(hostile),
        "ingredient_thumb_format" => def["ingredients"][0]["thumbnail"]["format"] = json!(hostile),
        "vendor" => {
            def["vendor"] = json!(hostile);
            def.as_object_mut().unwrap().remove("label");
        }
        "cgi_icon" => def["claim_generator_info"][0]["icon"] = json!({"format": hostile, "identifier": "icon"}),
        _ => {}
    }
    run.nontrivial(c);
    let before = snap_excluding(&live.dir, &["out", "out_real"]);
    let out_dir = if layout == "nested-missing" { live.dir.join("out/a/b") } else { live.dir.join("out") };
    let outcome = vh::catch(|| -> String {
        let mut b = match Builder::from_context(vh::sdk::context()).with_definition(def.to_string()) {
            Ok(b) => b,
            Err(e) => return format!("err:def:{e}"),
        };
        if !v1 {
            b.set_intent(BuilderIntent::Create(DigitalSourceType::Empty));
        }
        let body = format!("{PAYLOAD_MARK}resource>>").into_bytes();
        for rid in ["thumb", "ithumb", "icon"] {
            if b.add_resource(rid, Cursor::new(body.clone())).is_err() {
                return "err:add_resource".into();
            }
        }
        let src = vh::sdk::fixture("C.jpg");
        let mut out = Cursor::new(Vec::new());
        if let Err(e) = b.sign(vh::sdk::signer("ed25519").as_ref(), "image/jpeg", &mut Cursor::new(src), &mut out) {
            return format!("err:sign:{e}");
        }
        let reader = match vh::sdk::read("image/jpeg", out.get_ref()) {
            Ok(r) => r,
            Err(e) => return format!("err:read:{e}"),
        };
        match reader.to_folder(&out_dir) {
            Ok(()) => "ok".into(),
            Err(e) => format!("export-err:{e}"),
        }
    });
    let outcome = match outcome {
        Ok(o) => o,
        Err(p) => format!("panic:{}", vh::core::panic_site(&p)),
    };
    run.count(&format!("outcome:to_folder:{}", outcome.split(':').take(2).collect::<Vec<_>>().join(":").chars().take(40).collect::<String>()));
    if outcome == "ok" {
        // how many files were exported (non-vacuity)
        let mut s = Snap::new();
        snapshot(&std::fs::canonicalize(&out_dir).unwrap_or(out_dir.clone()), "", &mut s);
        let files = s.values().filter(|v| v.starts_with("file")).count();
        run.count(&format!("to_folder_exported_files:{}", files.min(6)));
    }
    let after = snap_excluding(&live.dir, &["out", "out_real"]);
    let diff = snap_diff(&before, &after);
    if !diff.is_empty() {
        let sig = if layout.starts_with("planted") {
            "C29:to_folder-writes-through-symlink-in-output-folder"
        } else {
            "C29:to_folder-escapes-output-folder"
        };
        return Err(Fail::new(
            sig,
            format!("to_folder(out) [{outcome}] with {field}={hostile:?}, output layout {layout}: changed outside the output folder: {}", diff.join("; ")),
        ));
    }
    Ok(())
}

fn main() {
    vh::quiet_panics();
    let run = Run::from_args("C29", "fault_enumeration");
    run.set_rule("case = generated tree (<case>/root with files, nested dirs and a random subset of 22 symlink kinds: file/dir, inside->inside, inside->outside relative/absolute, dangling, chained 2-4 hops, parent links, loops; <case>/outside with sentinel files) x base path {root, root + explicit resource root, root/nested with resource root, symlink to root} x identifier = target (inside file, symlink name, name under symlinked dir, ../ climbs, absolute, via parent links, symlink-then-dotdot, degenerate) wrapped by a traversal spelling (./, //, inner dotdot, backslashes, %2e/%2f, double encoding, unicode look-alikes, very long) x operation (ResourceStore add/add_with/get/exists/write_stream/path_for_id, Ingredient thumbnail/data refs, Builder add_resource, Builder sign/to_archive reading thumbnail / ingredient thumbnail / ingredient data / generator icon identifiers, with_archive of generated zips with zip-slip entry names + hostile manifest.json followed by sign, Reader::to_folder of manifests whose labels derive from hostile vendor/format strings into 8 output-folder layouts). Non-trivial = identifier or tree path contains an escape vector (real location outside root, a symlink on the path, or a non-plain identifier class).");
    run.assume("the harness' own walk of the real file system (lstat/readlink/sha256) is the oracle; TOCTOU races are out of scope (tree is static during the operation)");
    run.assume("hard links are not generated (their 'real location' is ambiguous)");
    run.assume("absolute identifiers only ever point into the case directory, so a broken SDK cannot damage the machine");

    let _ = std::fs::remove_dir_all(WORK);
    if let Err(e) = std::fs::create_dir_all(WORK) {
        run.inconclusive(format!("cannot create {WORK}: {e}"));
        run.finish();
    }
    let threads = run.scale(8, 16);
    let mut rng = SplitMix64::new(run.seed ^ 0xC29);

    let n_store = run.scale(8_000, 100_000);
    let cases: Vec<Case> = (0..n_store).map(|_| gen_case(&mut rng, "store")).collect();
    run.drive_enum_par("store_ops", cases, threads, |c| judge(&run, c));

    let n_builder = run.scale(1200, 16_000);
    let cases: Vec<Case> = (0..n_builder).map(|_| gen_case(&mut rng, "builder")).collect();
    run.drive_enum_par("builder_ops", cases, threads, |c| judge(&run, c));

    let n_zip = run.scale(300, 5_000);
    let cases: Vec<Case> = (0..n_zip).map(|_| gen_case(&mut rng, "zip")).collect();
    run.drive_enum_par("zip_import", cases, threads, |c| judge(&run, c));

    let n_tf = run.scale(300, 5_000);
    let cases: Vec<Case> = (0..n_tf).map(|_| gen_to_folder(&mut rng)).collect();
    run.drive_enum_par("to_folder", cases, threads, |c| judge(&run, c));

    let _ = std::fs::remove_dir_all(WORK);
    run.finish();
}
