//! C37 — revocation evidence is bound to the signing certificate.
//!
//! OCSP responses are produced by `openssl ocsp -index … -rsigner …` (CLI) — good / revoked (reasons, revocation
//! time before or after now) / unknown for the signing certificate, for another serial, for the same serial under
//! another issuer — signed by a delegated responder (OCSPSigning EKU), by delegated certificates with another EKU,
//! by a responder under an unconfigured root, or directly by the issuing CA; corrupted afterwards; plus responses
//! assembled here for what the CLI cannot make (back-dated thisUpdate/nextUpdate, several SingleResponses).
//! They reach the SDK stapled through `Signer::ocsp_val` or in a `c2pa.certificate-status` assertion.
//! `ocsp_fetch` is off throughout. Oracle: see `judge`.

use std::{
    cell::RefCell,
    path::{Path, PathBuf},
    process::Command,
    sync::atomic::{AtomicUsize, Ordering},
};

use base64::Engine;
use c2pa::{Builder, BuilderIntent, DigitalSourceType};
use openssl::pkey::{PKey, Private};
use serde::{Deserialize, Serialize};
use serde_json::json;
use sha2::Digest;
use vh::{
    pki::{self, der, oids, CertSpec, ChainSpec, Issuer, KeyKind, PkiSigner, SigDigest},
    rng::SplitMix64,
    sdk, CaseResult, Fail, Run,
};

const DAY: i64 = 86_400;
const WORK: &str = "/verif/work/C37";

#[derive(Clone, Debug, Serialize, Deserialize, PartialEq, Eq, Hash)]
struct Case {
    /// what the response says: good | revoked | unknown | multi_rev_this (revoked for this + good for another) |
    /// multi_others (good + revoked, both for other serials)
    status: String,
    /// whom it is about: this | other_serial | other_issuer (same serial, issued by a sibling CA)
    subject: String,
    /// who signed it: deleg (OCSPSigning) | deleg_email | deleg_ts | deleg_other | deleg_absent | unrelated | ca |
    /// self (the signing certificate vouches for itself; assembled here)
    responder: String,
    /// none | sig (flipped signature byte) | tbs (flipped producedAt digit)
    corrupt: String,
    /// cli (openssl ocsp) | native (assembled here) | native_expired | native_future | native_no_next
    source: String,
    /// staple (Signer::ocsp_val) | assertion (c2pa.certificate-status, ocspVals as the SDK encodes them) |
    /// assertion_bstr (ocspVals as CBOR byte strings, the encoding of the specification; recorded only)
    carrier: String,
    /// CRL reason for revoked ("" = none)
    reason: String,
    /// revocation time: past | recent | future (relative to now = signing moment)
    rev_when: String,
    /// verify.verify_trust
    verify_trust: bool,
    claim_v: u8,
    var: u64,
}

fn b64(d: &[u8]) -> String {
    base64::engine::general_purpose::STANDARD.encode(d)
}

// ---------------------------------------------------------------------------------------------- DER walking

fn tlv(buf: &[u8], off: usize) -> Result<(u8, usize, usize), String> {
    let rest = buf.get(off..).ok_or("offset out of range")?;
    let (tag, content, _) = der::read_tlv(rest).ok_or_else(|| format!("bad TLV at {off}"))?;
    let hdr = content.as_ptr() as usize - rest.as_ptr() as usize;
    Ok((tag, off + hdr, content.len()))
}

fn kids(buf: &[u8], off: usize) -> Result<Vec<usize>, String> {
    let (_, cs, cl) = tlv(buf, off)?;
    let mut v = vec![];
    let mut p = cs;
    while p < cs + cl {
        let (_, s, l) = tlv(buf, p)?;
        v.push(p);
        p = s + l;
    }
    Ok(v)
}

fn whole(buf: &[u8], off: usize) -> Result<Vec<u8>, String> {
    let (_, s, l) = tlv(buf, off)?;
    Ok(buf[off..s + l].to_vec())
}

/// (subject Name DER, subjectPublicKey bits, serial INTEGER TLV) of a certificate.
fn cert_parts(cert: &[u8]) -> Result<(Vec<u8>, Vec<u8>, Vec<u8>), String> {
    let tbs = kids(cert, 0)?[0];
    let k = kids(cert, tbs)?;
    if k.len() < 7 {
        return Err("short TBSCertificate".into());
    }
    let spki = kids(cert, k[6])?;
    let (_, bs, bl) = tlv(cert, spki[1])?;
    Ok((whole(cert, k[5])?, cert[bs + 1..bs + bl].to_vec(), whole(cert, k[1])?))
}

// ---------------------------------------------------------------------------------------------- world

struct Responder {
    name: &'static str,
    cert: Vec<u8>,
    key: PKey<Private>,
    kind: KeyKind,
}

struct Ca {
    cert: Vec<u8>,
    key: PKey<Private>,
    spec: CertSpec,
}

struct SignChain {
    kind: KeyKind,
    key: PKey<Private>,
    root: Vec<u8>,
}

struct World {
    now: i64,
    chains: Vec<SignChain>,
    inter: Ca,
    inter2: Ca,
    responders: Vec<Responder>,
    anchors_pem: String,
    src: Vec<u8>,
}

fn build_world(now: i64) -> Result<World, String> {
    // root <- inter (issues the signing certificates and the delegated responders), root <- inter2 (sibling CA)
    let cs = ChainSpec::simple(2, KeyKind::P256, KeyKind::P256, "c37");
    let mut cs = cs;
    cs.slot_base = 500;
    let ch = pki::make_chain(&cs, now)?;
    let root_key = ch.keys[2].clone();
    let root_spec = cs.cas[1].clone();
    let inter = Ca { cert: ch.all_der[1].clone(), key: ch.keys[1].clone(), spec: cs.cas[0].clone() };
    let mut spec2 = CertSpec::ca("Verif Intermediate sibling c37");
    spec2.serial_hex = "0a77".into();
    let key2 = pki::pool_key(KeyKind::P256, 510)?;
    let root_iss = Issuer {
        name_der: pki::name_der(&root_spec.cn, root_spec.org.as_deref()),
        key: &root_key,
        key_kind: KeyKind::P256,
        ski: pki::key_id(&root_key)?,
    };
    let inter2 = Ca { cert: pki::make_cert(&spec2, &key2, KeyKind::P256, Some(&root_iss), now)?, key: key2, spec: spec2 };
    // unrelated hierarchy for the "wrong responder"
    let ukey = pki::pool_key(KeyKind::P256, 511)?;
    let mut uspec = CertSpec::ca("Verif Unrelated OCSP Root");
    uspec.serial_hex = "0b99".into();
    let _uroot = pki::make_cert(&uspec, &ukey, KeyKind::P256, None, now)?;

    let issue = |ca_key: &PKey<Private>, ca_spec: &CertSpec, spec: &CertSpec, kind: KeyKind, slot: usize| -> Result<(Vec<u8>, PKey<Private>), String> {
        let k = pki::pool_key(kind, slot)?;
        let iss = Issuer {
            name_der: pki::name_der(&ca_spec.cn, ca_spec.org.as_deref()),
            key: ca_key,
            key_kind: KeyKind::P256,
            ski: pki::key_id(ca_key)?,
        };
        Ok((pki::make_cert(spec, &k, kind, Some(&iss), now)?, k))
    };
    let mut responders = vec![];
    let with_eku = |cn: &str, eku: Option<&str>, n: u8| {
        let mut s = CertSpec::ocsp_responder(cn);
        s.eku = eku.map(|e| vec![e.to_string()]);
        s.serial_hex = format!("6c{:02x}", n);
        s
    };
    let defs: [(&'static str, Option<&str>, KeyKind, u8); 8] = [
        ("deleg", Some(oids::EKU_OCSP_SIGNING), KeyKind::P256, 1),
        ("deleg_rsa", Some(oids::EKU_OCSP_SIGNING), KeyKind::Rsa2048, 2),
        ("deleg_p384", Some(oids::EKU_OCSP_SIGNING), KeyKind::P384, 3),
        ("deleg_ed", Some(oids::EKU_OCSP_SIGNING), KeyKind::Ed25519, 4),
        ("deleg_email", Some(oids::EKU_EMAIL_PROTECTION), KeyKind::P256, 5),
        ("deleg_ts", Some(oids::EKU_TIME_STAMPING), KeyKind::P256, 6),
        ("deleg_other", Some(oids::EKU_DOCUMENT_SIGNING), KeyKind::P256, 7),
        ("deleg_absent", None, KeyKind::P256, 8),
    ];
    for (i, (name, eku, kind, n)) in defs.into_iter().enumerate() {
        let (cert, key) = issue(&inter.key, &inter.spec, &with_eku(&format!("Verif responder {name}"), eku, n), kind, 520 + i)?;
        responders.push(Responder { name, cert, key, kind });
    }
    let (c, k) = issue(&inter2.key, &inter2.spec, &with_eku("Verif responder sibling", Some(oids::EKU_OCSP_SIGNING), 0x20), KeyKind::P256, 540)?;
    responders.push(Responder { name: "deleg2", cert: c, key: k, kind: KeyKind::P256 });
    let (c, k) = issue(&ukey, &uspec, &with_eku("Verif responder unrelated", Some(oids::EKU_OCSP_SIGNING), 0x21), KeyKind::P256, 541)?;
    responders.push(Responder { name: "unrelated", cert: c, key: k, kind: KeyKind::P256 });
    responders.push(Responder { name: "ca", cert: inter.cert.clone(), key: inter.key.clone(), kind: KeyKind::P256 });
    responders.push(Responder { name: "ca2", cert: inter2.cert.clone(), key: inter2.key.clone(), kind: KeyKind::P256 });

    let chains = vec![
        SignChain { kind: KeyKind::P256, key: pki::pool_key(KeyKind::P256, 550)?, root: ch.all_der[2].clone() },
        SignChain { kind: KeyKind::Ed25519, key: pki::pool_key(KeyKind::Ed25519, 551)?, root: ch.all_der[2].clone() },
    ];
    let anchors_pem = pki::pem_of(&ch.all_der[2]);
    Ok(World { now, chains, inter, inter2, responders, anchors_pem, src: sdk::fixture("no_manifest.jpg") })
}

impl World {
    fn responder(&self, name: &str) -> &Responder {
        self.responders.iter().find(|r| r.name == name).expect("responder")
    }
}

// ---------------------------------------------------------------------------------------------- CLI

static NEXT_DIR: AtomicUsize = AtomicUsize::new(0);
thread_local! {
    static TDIR: RefCell<Option<PathBuf>> = const { RefCell::new(None) };
}

fn thread_dir(w: &World) -> Result<PathBuf, String> {
    TDIR.with(|d| {
        if let Some(p) = d.borrow().as_ref() {
            return Ok(p.clone());
        }
        let p = PathBuf::from(format!("{WORK}/t{}", NEXT_DIR.fetch_add(1, Ordering::SeqCst)));
        std::fs::create_dir_all(&p).map_err(|e| e.to_string())?;
        let wr = |n: &str, d: &[u8]| std::fs::write(p.join(n), d).map_err(|e| e.to_string());
        wr("inter.pem", pki::pem_of(&w.inter.cert).as_bytes())?;
        wr("inter2.pem", pki::pem_of(&w.inter2.cert).as_bytes())?;
        for r in &w.responders {
            wr(&format!("{}.pem", r.name), pki::pem_of(&r.cert).as_bytes())?;
            wr(&format!("{}.key", r.name), &pki::key_pem(&r.key)?)?;
        }
        *d.borrow_mut() = Some(p.clone());
        Ok(p)
    })
}

fn cli(dir: &Path, args: &[&str]) -> Result<(), String> {
    let out = Command::new(pki::OPENSSL_CLI)
        .current_dir(dir)
        .args(args)
        .env_remove("OPENSSL_CONF")
        .output()
        .map_err(|e| format!("cannot run openssl: {e}"))?;
    if out.status.success() {
        Ok(())
    } else {
        Err(format!("openssl {} failed: {}", args.first().unwrap_or(&""), String::from_utf8_lossy(&out.stderr).trim()))
    }
}

fn index_time(epoch: i64) -> String {
    // YYMMDDHHMMSSZ
    der::time_text(epoch)[2..].to_string()
}

/// One `openssl ocsp` responder run: the response about `serial_hex` under the CA `ca` ("inter"/"inter2").
#[allow(clippy::too_many_arguments)]
fn cli_ocsp(w: &World, ca: &str, responder: &str, serial_hex: &str, status: &str, reason: &str, rev_at: i64, certid_sha256: bool, ndays: u32) -> Result<Vec<u8>, String> {
    let dir = thread_dir(w)?;
    let serial = serial_hex.to_uppercase();
    let exp = index_time(w.now + 300 * DAY);
    let mut index = String::new();
    // an unrelated entry so that the index is never empty
    index.push_str(&format!("V\t{exp}\t\t0EAD\tunknown\t/CN=someone else\n"));
    match status {
        "good" => index.push_str(&format!("V\t{exp}\t\t{serial}\tunknown\t/CN=subject\n")),
        "revoked" => {
            let r = if reason.is_empty() { String::new() } else { format!(",{reason}") };
            index.push_str(&format!("R\t{exp}\t{}{r}\t{serial}\tunknown\t/CN=subject\n", index_time(rev_at)));
        }
        _ => {} // unknown: not in the index
    }
    std::fs::write(dir.join("index.txt"), index).map_err(|e| e.to_string())?;
    let _ = std::fs::remove_file(dir.join("resp.der"));
    let ca_pem = format!("{ca}.pem");
    let rs = format!("{responder}.pem");
    let rk = format!("{responder}.key");
    let ser = format!("0x{serial}");
    let nd = ndays.to_string();
    let mut args = vec!["ocsp", "-index", "index.txt", "-CA", &ca_pem, "-rsigner", &rs, "-rkey", &rk];
    if certid_sha256 {
        args.push("-sha256");
    }
    if responder == "deleg_p384" {
        args.extend(["-rmd", "sha384"]);
    }
    if ca == "inter2" {
        // embed the sibling CA so that the responder's path can be built
        args.extend(["-rother", "inter2.pem"]);
    }
    args.extend(["-issuer", &ca_pem, "-serial", &ser, "-no_nonce", "-noverify", "-respout", "resp.der", "-ndays", &nd]);
    cli(&dir, &args)?;
    std::fs::read(dir.join("resp.der")).map_err(|e| e.to_string())
}

// ---------------------------------------------------------------------------------------------- native responses

struct Single {
    issuer: Vec<u8>,
    serial_tlv: Vec<u8>,
    /// 0 good, 1 revoked, 2 unknown
    status: u8,
    rev_at: i64,
    reason: Option<u8>,
    this_update: i64,
    next_update: Option<i64>,
}

fn reason_code(r: &str) -> Option<u8> {
    Some(match r {
        "unspecified" => 0,
        "keyCompromise" => 1,
        "CACompromise" => 2,
        "affiliationChanged" => 3,
        "superseded" => 4,
        "cessationOfOperation" => 5,
        "certificateHold" => 6,
        "removeFromCRL" => 8,
        _ => return None,
    })
}

fn native_ocsp(r: &Responder, extra_certs: &[Vec<u8>], singles: &[Single], produced_at: i64, sha256_id: bool) -> Result<Vec<u8>, String> {
    let mut resp = vec![];
    for s in singles {
        let (name, keybits, _) = cert_parts(&s.issuer)?;
        let (alg, nh, kh) = if sha256_id {
            ("2.16.840.1.101.3.4.2.1", sha2::Sha256::digest(&name).to_vec(), sha2::Sha256::digest(&keybits).to_vec())
        } else {
            let h = |d: &[u8]| openssl::hash::hash(openssl::hash::MessageDigest::sha1(), d).map(|x| x.to_vec()).map_err(|e| e.to_string());
            ("1.3.14.3.2.26", h(&name)?, h(&keybits)?)
        };
        let cert_id = der::seq(&[der::seq(&[der::oid(alg), der::null()]), der::octet(&nh), der::octet(&kh), s.serial_tlv.clone()]);
        let status = match s.status {
            0 => vec![0x80, 0x00],
            2 => vec![0x82, 0x00],
            _ => {
                let mut c = der::generalized_time(s.rev_at);
                if let Some(rc) = s.reason {
                    c.extend(der::ctx(0, true, &[0x0a, 0x01, rc]));
                }
                der::tlv(0xA1, &c)
            }
        };
        let mut parts = vec![cert_id, status, der::generalized_time(s.this_update)];
        if let Some(nu) = s.next_update {
            parts.push(der::ctx(0, true, &der::generalized_time(nu)));
        }
        resp.push(der::seq(&parts));
    }
    let (rname, _, _) = cert_parts(&r.cert)?;
    let tbs = der::seq(&[der::ctx(1, true, &rname), der::generalized_time(produced_at), der::seq(&resp)]);
    let dg = if r.kind == KeyKind::P384 { SigDigest::Sha384 } else { SigDigest::Sha256 };
    let alg = pki::sig_alg_id(r.kind, dg, false);
    let sig = pki::sign_x509(&r.key, r.kind, dg, false, &tbs)?;
    let mut certs = vec![r.cert.clone()];
    certs.extend(extra_certs.iter().cloned());
    let basic = der::seq(&[tbs, alg, der::bit_string(&sig, 0), der::ctx(0, true, &der::seq(&certs))]);
    let rb = der::seq(&[der::oid("1.3.6.1.5.5.7.48.1.1"), der::octet(&basic)]);
    Ok(der::seq(&[vec![0x0a, 0x01, 0x00], der::ctx(0, true, &rb)]))
}

/// Offsets inside an OCSPResponse: (signature BIT STRING content, producedAt content).
fn locate_ocsp(buf: &[u8]) -> Result<((usize, usize), (usize, usize)), String> {
    let k0 = kids(buf, 0)?;
    let rb = *kids(buf, *k0.get(1).ok_or("no responseBytes")?)?.first().ok_or("empty responseBytes")?;
    let krb = kids(buf, rb)?;
    let (_, os, _) = tlv(buf, krb[1])?;
    let kb = kids(buf, os)?; // BasicOCSPResponse children
    let (_, ss, sl) = tlv(buf, kb[2])?;
    let ktbs = kids(buf, kb[0])?;
    let mut prod = None;
    for k in ktbs {
        let (t, s, l) = tlv(buf, k)?;
        if t == 0x18 {
            prod = Some((s, l));
            break;
        }
    }
    Ok(((ss + 1, sl - 1), prod.ok_or("no producedAt")?))
}

// ---------------------------------------------------------------------------------------------- response per case

struct Built {
    ee: Vec<u8>,
    serial_hex: String,
    response: Option<Vec<u8>>,
}

const REASONS: [&str; 8] = ["", "unspecified", "keyCompromise", "CACompromise", "affiliationChanged", "superseded", "cessationOfOperation", "certificateHold"];

fn build(w: &World, c: &Case, ch: &SignChain, with_response: bool) -> Result<Built, String> {
    let mut r = SplitMix64::new(c.var ^ 0x0C59);
    // signing certificate (valid now), serial from the case
    let serial_hex = format!("53{:06x}", c.var & 0xff_ffff);
    let mut spec = CertSpec::ee(&format!("C37 signer {:x}", c.var & 0xffff));
    spec.serial_hex = serial_hex.clone();
    spec.not_before_off = -(30 + r.below(300) as i64) * DAY;
    spec.not_after_off = (60 + r.below(600) as i64) * DAY;
    if r.bool() {
        spec = spec.with_ocsp_url("http://127.0.0.1:9/ocsp");
    }
    let iss = Issuer {
        name_der: pki::name_der(&w.inter.spec.cn, w.inter.spec.org.as_deref()),
        key: &w.inter.key,
        key_kind: KeyKind::P256,
        ski: pki::key_id(&w.inter.key)?,
    };
    let ee = pki::make_cert(&spec, &ch.key, ch.kind, Some(&iss), w.now)?;
    if !with_response {
        return Ok(Built { ee, serial_hex, response: None });
    }
    let (_, _, ee_serial_tlv) = cert_parts(&ee)?;
    let other_hex = format!("54{:06x}", (c.var >> 24) & 0xff_ffff);
    let other_tlv = der::int_bytes(&hex::decode(&other_hex).map_err(|e| e.to_string())?);
    let rev_at = w.now
        + match c.rev_when.as_str() {
            "past" => -(20 + r.below(2000) as i64) * DAY,
            "recent" => -(60 + r.below(3000) as i64),
            _ => (2 + r.below(400) as i64) * DAY,
        };
    // who signs; the sibling CA's material when the response is about the sibling's certificate
    let other_issuer = c.subject == "other_issuer";
    let responder_name = match (c.responder.as_str(), other_issuer) {
        ("ca", true) => "ca2".to_string(),
        ("deleg", true) => "deleg2".to_string(),
        ("deleg", false) if c.source == "cli" => (*r.pick(&["deleg", "deleg", "deleg_rsa", "deleg_p384"])).to_string(),
        ("deleg", false) => (*r.pick(&["deleg", "deleg", "deleg_rsa", "deleg_p384", "deleg_ed"])).to_string(),
        (n, _) => n.to_string(),
    };
    let self_responder;
    let responder = if c.responder == "self" {
        self_responder = Responder { name: "self", cert: ee.clone(), key: ch.key.clone(), kind: ch.kind };
        &self_responder
    } else {
        w.responder(&responder_name)
    };
    let sha256_id = r.bool();
    let ca_name = if other_issuer { "inter2" } else { "inter" };
    let ca_cert = if other_issuer { &w.inter2.cert } else { &w.inter.cert };
    let subject_hex = if c.subject == "other_serial" { &other_hex } else { &serial_hex };
    let subject_tlv = if c.subject == "other_serial" { other_tlv.clone() } else { ee_serial_tlv.clone() };

    let mut resp = if c.source == "cli" && c.responder != "self" {
        cli_ocsp(w, ca_name, &responder_name, subject_hex, &c.status, &c.reason, rev_at, sha256_id, 1 + r.below(30) as u32)?
    } else {
        let (tu, nu, prod) = match c.source.as_str() {
            "native_expired" => (w.now - 40 * DAY, Some(w.now - 30 * DAY), w.now - 40 * DAY),
            "native_future" => (w.now + 10 * DAY, Some(w.now + 17 * DAY), w.now + 10 * DAY),
            "native_no_next" => (w.now - 3600, None, w.now - 3600),
            _ => (w.now - 3600, Some(w.now + 7 * DAY), w.now - 3600),
        };
        let one = |tlv: Vec<u8>, status: u8| Single {
            issuer: ca_cert.clone(),
            serial_tlv: tlv,
            status,
            rev_at,
            reason: reason_code(&c.reason),
            this_update: tu,
            next_update: nu,
        };
        let singles = match c.status.as_str() {
            "good" => vec![one(subject_tlv, 0)],
            "revoked" => vec![one(subject_tlv, 1)],
            "unknown" => vec![one(subject_tlv, 2)],
            "multi_rev_this" => {
                let mut v = vec![one(other_tlv.clone(), 0), one(ee_serial_tlv.clone(), 1)];
                if r.bool() {
                    v.reverse();
                }
                v
            }
            _ => vec![one(other_tlv.clone(), 0), one(der::int_u64(0x0EAD), 1)],
        };
        let extra = if other_issuer { vec![w.inter2.cert.clone()] } else { vec![] };
        native_ocsp(responder, &extra, &singles, prod, sha256_id)?
    };
    match c.corrupt.as_str() {
        "sig" => {
            let ((s, l), _) = locate_ocsp(&resp)?;
            let i = s + 6 + r.usize(l.saturating_sub(12).max(1));
            resp[i] ^= 1 << r.below(8);
        }
        "tbs" => {
            let (_, (s, l)) = locate_ocsp(&resp)?;
            // seconds digit of producedAt: stays a valid GeneralizedTime
            let i = s + l - 2;
            resp[i] = if resp[i] == b'0' { b'1' } else { b'0' };
        }
        _ => {}
    }
    Ok(Built { ee, serial_hex, response: Some(resp) })
}

// ---------------------------------------------------------------------------------------------- sign / read

#[derive(Clone, Debug, Default, Serialize, PartialEq, Eq)]
struct Obs {
    state: String,
    succ: Vec<String>,
    info: Vec<String>,
    fail: Vec<String>,
    read_err: Option<String>,
}

impl Obs {
    fn accepted(&self) -> bool {
        self.read_err.is_none() && (self.state == "Valid" || self.state == "Trusted")
    }
    fn anywhere(&self, code: &str) -> bool {
        self.succ.iter().chain(&self.info).chain(&self.fail).any(|c| c == code)
    }
    /// the verdict without the OCSP bookkeeping codes; codes as sets (a manifest that carries the response in an
    /// assertion has one more assertion.hashedURI.match than the control)
    fn stripped(&self) -> Obs {
        let f = |v: &Vec<String>| {
            let mut o: Vec<String> = v.iter().filter(|c| !c.starts_with("signingCredential.ocsp.")).cloned().collect();
            o.sort();
            o.dedup();
            o
        };
        Obs { state: self.state.clone(), succ: f(&self.succ), info: f(&self.info), fail: f(&self.fail), read_err: self.read_err.clone() }
    }
    fn ocsp_codes(&self) -> Vec<String> {
        let mut v = vec![];
        for (k, l) in [("S", &self.succ), ("I", &self.info), ("F", &self.fail)] {
            for c in l.iter().filter(|c| c.starts_with("signingCredential.ocsp.")) {
                v.push(format!("{k}:{c}"));
            }
        }
        v
    }
}

fn settings(w: &World, c: &Case) -> serde_json::Value {
    let mut s = sdk::base_settings(false);
    sdk::merge(
        &mut s,
        &json!({
            "trust": { "trust_anchors": w.anchors_pem },
            "verify": { "verify_after_sign": false, "verify_trust": c.verify_trust, "ocsp_fetch": false }
        }),
    );
    s
}

fn sign(w: &World, c: &Case, ch: &SignChain, b: &Built) -> Result<Result<Vec<u8>, String>, String> {
    let mut signer = PkiSigner::new(ch.key.clone(), ch.kind, vec![b.ee.clone(), w.inter.cert.clone()]);
    let mut def = sdk::simple_definition("c37");
    let intent = if c.claim_v == 1 {
        def["claim_version"] = json!(1);
        None
    } else {
        Some(BuilderIntent::Create(DigitalSourceType::Empty))
    };
    let staple = c.carrier == "staple";
    if let (Some(r), true) = (&b.response, staple) {
        signer = signer.with_ocsp(r.clone());
    }
    vh::catch(|| -> Result<Vec<u8>, String> {
        let mut bld = Builder::from_context(sdk::context_with(&settings(w, c))).with_definition(def.to_string()).map_err(|e| format!("{e:?}"))?;
        if let Some(i) = intent {
            bld.set_intent(i);
        }
        if let (Some(r), false) = (&b.response, staple) {
            if c.carrier == "assertion_bstr" {
                // the encoding of the C2PA specification (ocspVals: [bstr])
                let data = ciborium::Value::Map(vec![(
                    ciborium::Value::Text("ocspVals".into()),
                    ciborium::Value::Array(vec![ciborium::Value::Bytes(r.clone())]),
                )]);
                bld.add_assertion("c2pa.certificate-status", &data).map_err(|e| format!("{e:?}"))?;
            } else {
                // the encoding the SDK itself writes and reads: base64 text strings (its CBOR (de)serializer
                // reports is_human_readable() == true)
                bld.add_assertion("c2pa.certificate-status", &json!({ "ocspVals": [b64(r)] })).map_err(|e| format!("{e:?}"))?;
            }
        }
        let mut s = std::io::Cursor::new(w.src.clone());
        let mut d = std::io::Cursor::new(Vec::new());
        bld.sign(&signer, "image/jpeg", &mut s, &mut d).map_err(|e| format!("{e:?}"))?;
        Ok(d.into_inner())
    })
}

fn observe(w: &World, c: &Case, bytes: &[u8]) -> Result<Obs, String> {
    let read = vh::catch(|| sdk::read_with(sdk::context_with(&settings(w, c)), "image/jpeg", bytes))?;
    let mut o = Obs::default();
    match read {
        Err(e) => {
            o.state = "ReadError".into();
            o.read_err = Some(format!("{e:?}").chars().take(200).collect());
        }
        Ok(r) => {
            o.state = sdk::state_name(r.validation_state()).to_string();
            if let Some(a) = r.validation_results().and_then(|v| v.active_manifest()) {
                o.succ = a.success().iter().map(|s| s.code().to_string()).collect();
                o.info = a.informational().iter().map(|s| s.code().to_string()).collect();
                o.fail = a.failure().iter().map(|s| s.code().to_string()).collect();
                o.succ.sort();
                o.info.sort();
                o.fail.sort();
            }
        }
    }
    Ok(o)
}

/// the response left a content code or turned an accepted manifest into a rejected one
fn content_code_or_reject(o: &Obs, o0: &Obs) -> bool {
    o.anywhere("signingCredential.ocsp.revoked") || o.anywhere("signingCredential.ocsp.notRevoked") || (o0.accepted() && !o.accepted())
}

fn selftest() -> String {
    std::env::var("VERIF_SELFTEST").unwrap_or_default()
}

#[derive(PartialEq, Eq, Debug, Clone, Copy)]
enum Expect {
    /// revoked for this certificate, verifiably signed: never Valid / Trusted
    Rejected,
    /// does not concern this certificate / not validly signed: identical to the control
    Identical,
    /// good for this certificate, verifiably signed: notRevoked present, otherwise identical
    NotRevoked,
    /// outside the property's statement (or the SDK documents that it ignores the class): recorded
    Record,
}

fn expectation(c: &Case) -> Expect {
    let native_time = matches!(c.source.as_str(), "native_expired" | "native_future" | "native_no_next");
    let strict_responder = c.responder == "deleg";
    if c.carrier == "assertion_bstr" {
        return Expect::Record;
    }
    // badly signed / wrong responder: whatever it says, it must change nothing
    if c.corrupt != "none" || matches!(c.responder.as_str(), "unrelated" | "deleg_email" | "deleg_ts" | "deleg_other" | "deleg_absent" | "self") {
        return Expect::Identical;
    }
    // responses that do not concern the signing certificate
    if c.subject != "this" || c.status == "multi_others" {
        return Expect::Identical;
    }
    // CA-signed responses and disabled trust are ignored by the SDK by design (DESIGN §9): recorded
    if !strict_responder || !c.verify_trust {
        return Expect::Record;
    }
    if native_time {
        return Expect::Record;
    }
    match c.status.as_str() {
        "good" => Expect::NotRevoked,
        "revoked" | "multi_rev_this" => {
            if c.reason == "removeFromCRL" {
                Expect::Record
            } else {
                Expect::Rejected
            }
        }
        _ => Expect::Record, // unknown
    }
}

fn judge(run: &Run, w: &World, c: &Case) -> CaseResult {
    let trace = std::env::var("VERIF_C37_TRACE").is_ok();
    let ch = &w.chains[(c.var % w.chains.len() as u64) as usize];
    let gen_err = |e: String| {
        run.count("generator_error");
        run.inconclusive(format!("generator failed for {c:?}: {e}"));
        Ok(())
    };
    let (b0, b1) = match (build(w, c, ch, false), build(w, c, ch, true)) {
        (Ok(a), Ok(b)) => (a, b),
        (Err(e), _) | (_, Err(e)) => return gen_err(e),
    };
    let resp = b1.response.clone().unwrap_or_default();
    let art = |o: &Obs, o0: &Obs| {
        format!(
            "case={c:?}\nobserved={}\ncontrol={}\nsigning_serial={}\nocsp_response_b64={}\nsigning_cert_b64={}\nissuer_cert_b64={}\nanchor_b64={}",
            serde_json::to_string(o).unwrap_or_default(),
            serde_json::to_string(o0).unwrap_or_default(),
            b1.serial_hex,
            b64(&resp),
            b64(&b1.ee),
            b64(&w.inter.cert),
            b64(&ch.root)
        )
    };
    let mut obs = vec![];
    for (b, what) in [(&b0, "control"), (&b1, "case")] {
        let bytes = match sign(w, c, ch, b) {
            Ok(Ok(x)) => x,
            Ok(Err(e)) => return gen_err(format!("{what}: sign failed: {e}")),
            Err(p) => return Err(Fail::new(format!("C37:panic-{}", vh::core::panic_site(&p)), format!("sign panicked ({what}): {p}\nocsp_response_b64={}", b64(&resp)))),
        };
        match observe(w, c, &bytes) {
            Ok(o) => obs.push(o),
            Err(p) => return Err(Fail::new(format!("C37:panic-{}", vh::core::panic_site(&p)), format!("read panicked ({what}): {p}\nocsp_response_b64={}", b64(&resp)))),
        }
    }
    let (o0, mut o) = (obs[0].clone(), obs[1].clone());
    // the control: valid certificate, anchored => Trusted (Valid when trust is off), no OCSP content codes
    let control_ok = o0.accepted() && !o0.anywhere("signingCredential.ocsp.revoked") && !o0.anywhere("signingCredential.ocsp.notRevoked");
    if !control_ok {
        return Err(Fail::new("C37:control-unexpected", format!("no-OCSP control is not accepted: {o0:?}")));
    }
    let want = expectation(c);
    match selftest().as_str() {
        "miss_revoked" if want == Expect::Rejected => o = o0.clone(),
        "wrong_cert_counts" if want == Expect::Identical && c.subject == "other_serial" => {
            o.state = "Invalid".into();
            o.fail.push("signingCredential.ocsp.revoked".into());
        }
        _ => {}
    }
    let class = format!(
        "{}:{}:{}:{}:{}:{}{}",
        c.status,
        c.subject,
        c.responder,
        if c.corrupt == "none" { "intact".to_string() } else { format!("corrupt-{}", c.corrupt) },
        c.source,
        c.carrier,
        if c.verify_trust { "" } else { ":notrust" }
    );
    run.count(&format!("status:{}", c.status));
    run.count(&format!("subject:{}", c.subject));
    run.count(&format!("responder:{}", c.responder));
    run.count(&format!("corrupt:{}", c.corrupt));
    run.count(&format!("source:{}", c.source));
    run.count(&format!("carrier:{}", c.carrier));
    run.count(&format!("expect:{want:?}"));
    if c.status == "revoked" {
        run.count(&format!("reason:{}:{}", if c.reason.is_empty() { "none" } else { &c.reason }, c.rev_when));
    }
    run.count(&format!("answer:{class} -> {} [{}]{}", o.state, o.ocsp_codes().join(","), if o.stripped() == o0.stripped() { "" } else { " (verdict differs)" }));
    let nontrivial = !(c.status == "good" && c.subject == "this" && c.corrupt == "none" && c.responder == "deleg");
    if nontrivial {
        run.nontrivial(c);
    }
    if trace {
        eprintln!("{class} want={want:?}\n   control={o0:?}\n   obs={o:?}");
    }
    let detail = format!("{} / {} / responder {} / corrupt {} / {} / {}", c.status, c.subject, c.responder, c.corrupt, c.source, c.carrier);
    match want {
        Expect::Record => Ok(()),
        Expect::Rejected => {
            if o.accepted() {
                return Err(Fail::new(
                    format!("C37:revoked-accepted-{}-{}", c.carrier, c.source),
                    format!("the {} OCSP response reports the signing certificate revoked (reason {:?}, revocation {}), signed by a delegated responder under the configured anchor, yet the manifest is {} (codes {:?})\n{}", c.carrier, c.reason, c.rev_when, o.state, o.ocsp_codes(), art(&o, &o0)),
                ));
            }
            Ok(())
        }
        Expect::NotRevoked => {
            if !o.anywhere("signingCredential.ocsp.notRevoked") {
                return Err(Fail::new(
                    format!("C37:good-not-reported-{}-{}", c.carrier, c.source),
                    format!("good response for the signing certificate from a delegated responder, but no signingCredential.ocsp.notRevoked (codes {:?}, state {})\n{}", o.ocsp_codes(), o.state, art(&o, &o0)),
                ));
            }
            if o.stripped() != o0.stripped() || o.anywhere("signingCredential.ocsp.revoked") {
                return Err(Fail::new(
                    format!("C37:good-changes-verdict-{}", c.carrier),
                    format!("good response changes the verdict beyond ocsp.notRevoked: {:?} vs control {:?}\n{}", o, o0, art(&o, &o0)),
                ));
            }
            Ok(())
        }
        Expect::Identical => {
            let content_code = o.anywhere("signingCredential.ocsp.revoked") || o.anywhere("signingCredential.ocsp.notRevoked");
            if o.stripped() != o0.stripped() || content_code {
                let eku_less = matches!(c.responder.as_str(), "deleg_email" | "deleg_ts" | "self");
                let untrusted_in_assertion =
                    c.carrier == "assertion" && c.corrupt == "none" && matches!(c.responder.as_str(), "unrelated" | "deleg_other" | "deleg_absent");
                if c.corrupt == "none" && eku_less && content_code_or_reject(&o, &o0) {
                    // root cause: CertificateTrustPolicy::has_allowed_eku accepts emailProtection / timeStamping for any purpose
                    return Err(Fail::new(
                        format!("C37:responder-without-ocspsigning-eku-honoured-{}", c.responder),
                        format!("the response ({detail}) is signed by a delegated certificate without the OCSPSigning EKU, yet it is interpreted: state {} (control {}), OCSP codes {:?}, read error {:?}\n{}", o.state, o0.state, o.ocsp_codes(), o.read_err, art(&o, &o0)),
                    ));
                }
                if untrusted_in_assertion && content_code && o.read_err.is_none() {
                    // root cause: the certificate-status assertion is parsed into the main log before any responder check
                    return Err(Fail::new(
                        format!("C37:assertion-untrusted-responder-{}-logged", c.status),
                        format!("the response ({detail}) in a c2pa.certificate-status assertion comes from a responder that is not acceptable, yet its content is logged: state {} (control {}), OCSP codes {:?}\n{}", o.state, o0.state, o.ocsp_codes(), art(&o, &o0)),
                    ));
                }
                let why = if c.corrupt != "none" {
                    format!("corrupt-{}", c.corrupt)
                } else if c.responder != "deleg" && c.responder != "ca" {
                    format!("responder-{}", c.responder)
                } else {
                    format!("subject-{}", if c.status == "multi_others" { "multi_others" } else { &c.subject })
                };
                let effect = if o.accepted() != o0.accepted() {
                    "flips-state"
                } else if o.stripped() != o0.stripped() {
                    "changes-codes"
                } else {
                    "interpreted"
                };
                return Err(Fail::new(
                    format!("C37:{why}-{effect}-{}", c.carrier),
                    format!("a response that must be ignored ({detail}) changed the report: state {} (control {}), OCSP codes {:?}, failures {:?}\n{}", o.state, o0.state, o.ocsp_codes(), o.fail, art(&o, &o0)),
                ));
            }
            Ok(())
        }
    }
}

// ---------------------------------------------------------------------------------------------- enumeration

#[allow(clippy::too_many_arguments)]
fn mk(status: &str, subject: &str, responder: &str, corrupt: &str, source: &str, carrier: &str, reason: &str, rev_when: &str, verify_trust: bool, claim_v: u8, var: u64) -> Case {
    Case {
        status: status.into(),
        subject: subject.into(),
        responder: responder.into(),
        corrupt: corrupt.into(),
        source: source.into(),
        carrier: carrier.into(),
        reason: reason.into(),
        rev_when: rev_when.into(),
        verify_trust,
        claim_v,
        var,
    }
}

/// One round over every class; `s` supplies the seeded variation.
fn round(s: &mut SplitMix64, rep: u64) -> Vec<Case> {
    let mut v = vec![];
    let whens = ["past", "recent", "future"];
    let carriers = ["staple", "assertion"];
    let mut n = rep as usize;
    let mut next = |s: &mut SplitMix64| {
        n += 1;
        (carriers[n % 2], if n % 5 == 0 { 1u8 } else { 2u8 }, s.next_u64())
    };
    // strict class: delegated responder, anchors, trust on
    for src in ["cli", "native"] {
        let (car, cv, var) = next(&mut *s);
        v.push(mk("good", "this", "deleg", "none", src, car, "", "past", true, cv, var));
        for (i, reason) in REASONS.iter().enumerate() {
            let (car, cv, var) = next(&mut *s);
            v.push(mk("revoked", "this", "deleg", "none", src, car, reason, whens[(i + rep as usize) % 3], true, cv, var));
        }
        let (car, cv, var) = next(&mut *s);
        v.push(mk("unknown", "this", "deleg", "none", src, car, "", "past", true, cv, var));
    }
    let (car, cv, var) = next(&mut *s);
    v.push(mk("revoked", "this", "deleg", "none", "cli", car, "removeFromCRL", "past", true, cv, var));
    let (car, cv, var) = next(&mut *s);
    v.push(mk("multi_rev_this", "this", "deleg", "none", "native", car, "keyCompromise", "past", true, cv, var));
    let (car, cv, var) = next(&mut *s);
    v.push(mk("multi_others", "this", "deleg", "none", "native", car, "keyCompromise", "past", true, cv, var));
    // other certificates
    for subject in ["other_serial", "other_issuer"] {
        for status in ["good", "revoked"] {
            for src in ["cli", "native"] {
                let (car, cv, var) = next(&mut *s);
                v.push(mk(status, subject, "deleg", "none", src, car, "keyCompromise", whens[(rep as usize) % 3], true, cv, var));
            }
        }
    }
    // wrong / unqualified responders
    for responder in ["unrelated", "deleg_email", "deleg_ts", "deleg_other", "deleg_absent", "self"] {
        for status in ["good", "revoked"] {
            let (car, cv, var) = next(&mut *s);
            let src = if var & 1 == 0 && responder != "self" { "cli" } else { "native" };
            v.push(mk(status, "this", responder, "none", src, car, "superseded", "past", true, cv, var));
        }
    }
    // corrupted
    for corrupt in ["sig", "tbs"] {
        for status in ["good", "revoked"] {
            let (car, cv, var) = next(&mut *s);
            let src = if var & 1 == 0 { "cli" } else { "native" };
            v.push(mk(status, "this", "deleg", corrupt, src, car, "keyCompromise", "past", true, cv, var));
        }
    }
    // recorded classes: spec encoding of the assertion, CA-signed, trust off, time-shifted
    for status in ["good", "revoked"] {
        let (_, cv, var) = next(&mut *s);
        v.push(mk(status, "this", "deleg", "none", "cli", "assertion_bstr", "keyCompromise", "past", true, cv, var));
        let (car, cv, var) = next(&mut *s);
        v.push(mk(status, "this", "ca", "none", "cli", car, "keyCompromise", "past", true, cv, var));
        let (car, cv, var) = next(&mut *s);
        v.push(mk(status, "this", "deleg", "none", "cli", car, "keyCompromise", "past", false, cv, var));
        for src in ["native_expired", "native_future", "native_no_next"] {
            let (car, cv, var) = next(&mut *s);
            v.push(mk(status, "this", "deleg", "none", src, car, "keyCompromise", "past", true, cv, var));
        }
    }
    v
}

fn main() {
    vh::quiet_panics();
    let run = Run::from_args("C37", "exploration");
    run.set_rule("OCSP response = status (good / revoked with 8 reasons and revocation time past, seconds ago, future / unknown / several SingleResponses) x subject (signing certificate / other serial / same serial under a sibling CA) x responder (delegated with OCSPSigning on P-256, P-384, RSA, Ed25519 / delegated with emailProtection, timeStamping, documentSigning or no EKU / the signing certificate itself / under an unconfigured root / the issuing CA itself) x corruption (none / signature byte / producedAt digit) x source (openssl ocsp CLI / assembled here, also back-dated, post-dated, without nextUpdate) x carrier (Signer::ocsp_val staple / c2pa.certificate-status assertion) x certID digest (SHA-1 / SHA-256) x claim v1/v2; non-trivial = anything but a good response for the signing certificate from the delegated responder");
    run.assume("verdict comparison ignores codes starting with signingCredential.ocsp. other than .revoked / .notRevoked (bookkeeping about the response itself); a response that must be ignored may add neither of those two and must leave state, success, informational and failure codes as in the no-OCSP control signed with the same certificate");
    run.assume("no time-stamp is attached: the signing time is 'now', so a revocation time in the future still counts as revoked (the SDK documents that an attested signing time before the revocation would be accepted - not exercised)");
    run.assume("CA-signed responses, responses under verify_trust=false, removeFromCRL, 'unknown' status and back-/post-dated responses are recorded, not judged (DESIGN §9)");

    let _ = std::fs::remove_dir_all(WORK);
    if let Err(e) = std::fs::create_dir_all(WORK) {
        run.inconclusive(format!("cannot create {WORK}: {e}"));
        run.finish();
    }
    let now = pki::now_epoch();
    let world = match build_world(now) {
        Ok(w) => w,
        Err(e) => {
            run.inconclusive(format!("world generation failed: {e}"));
            run.finish();
        }
    };
    let mut s = SplitMix64::new(run.seed ^ 0xC37);
    let reps = run.scale(2u64, 18u64);
    let mut cases = vec![];
    for rep in 0..reps {
        cases.extend(round(&mut s, rep));
    }
    let threads = std::thread::available_parallelism().map(|n| n.get()).unwrap_or(4).min(run.scale(8, 16));
    run.drive_enum_par("ocsp", cases, threads, |c| judge(&run, &world, c));
    if run.replay.is_none() {
        for k in ["expect:Rejected", "expect:Identical", "expect:NotRevoked", "carrier:staple", "carrier:assertion", "source:cli"] {
            if run.hist_get(k) == 0 {
                run.inconclusive(format!("class {k} was never exercised"));
            }
        }
    }
    let _ = std::fs::remove_dir_all(WORK);
    run.finish();
}
