//! C05 — signer trust decisions follow the configured trust policy.
//!
//! Generator: `vh::pki` hierarchies (depth 0–3, RSA / RSA-PSS / EC / Ed25519 keys, EKU variants, structural
//! faults) × trust configuration (system anchors, user anchors, anchors-only mode, allow list by PEM / by
//! hash line, additional EKUs, signing time, verify_trust).
//! Oracle: truth **by construction** — the generator knows whether a valid path EE→…→configured anchor
//! exists through the supplied certificates, whether the EKU is accepted by the documented rules and
//! whether the EE is allow-listed. The path component is cross-checked with
//! `openssl verify -x509_strict -partial_chain` (CLI 3.0): disagreement ⇒ the case is `ambiguous`
//! (counted, not judged).
//! Levels: `CertificateTrustPolicy::check_certificate_trust` directly, and sign → read end to end.

use c2pa::{
    crypto::cose::{CertificateTrustPolicy, TrustAnchorType},
    BuilderIntent, DigitalSourceType,
};
use proptest::prelude::*;
use serde::{Deserialize, Serialize};
use serde_json::json;
use vh::{
    pki::{self, oids, CertSpec, Chain, ChainSpec, Fault, KeyKind},
    sdk, CaseResult, Fail, Run,
};

const KEYS: [KeyKind; 6] =
    [KeyKind::P256, KeyKind::Ed25519, KeyKind::P384, KeyKind::P521, KeyKind::Rsa2048, KeyKind::RsaPss2048];

/// All knobs are small integers; 0 is always the value of the trusted control.
#[derive(Clone, Debug, Serialize, Deserialize, PartialEq, Eq, Hash)]
struct Case {
    /// certificates above the EE: 1 = EE←root (control), 2, 3, and 0 = self-signed EE
    depth: u8,
    ee_key: u8,
    ca_key: u8,
    /// 0 emailProtection, 1 documentSigning, 2 C2PA signing OID, 3 custom OID, 4 timeStamping,
    /// 5 emailProtection+serverAuth, 6 serverAuth, 7 EKU absent, 8 anyEKU only
    eku: u8,
    /// 0 policy `default()` (default list), 1 `new()`, 2 `new()` + custom OID, 3 `default()` + custom OID
    policy: u8,
    /// 0 none, 1 wrong issuer key, 2 missing intermediate, 3 reordered, 4 duplicated, 5 intermediate CA:FALSE,
    /// 6 expired intermediate, 7 unrelated extra certificate
    fault: u8,
    /// level the fault applies to (reduced modulo the applicable levels)
    fault_level: u8,
    include_root: bool,
    /// 0 root, 1 none, 2 the CA that issued the EE (level 1), 3 unrelated root, 4 level-2 CA
    sys_anchor: u8,
    /// 0 none, 1 root, 2 level-1 CA, 3 unrelated root, 4 level-2 CA
    user_anchor: u8,
    anchors_only: bool,
    /// 0 none, 1 EE by PEM, 2 EE by hash line, 3 other certificate by PEM, 4 other certificate by hash,
    /// 5 the issuing CA by PEM (must not confer trust)
    allow: u8,
    /// 0 none (no validity check), 1 now, 2 now + 3 years (EE expired at that time)
    time: u8,
    /// e2e only: verify.verify_trust
    verify_trust: bool,
}

impl Case {
    fn control() -> Case {
        Case {
            depth: 1,
            ee_key: 0,
            ca_key: 0,
            eku: 0,
            policy: 0,
            fault: 0,
            fault_level: 0,
            include_root: false,
            sys_anchor: 0,
            user_anchor: 0,
            anchors_only: false,
            allow: 0,
            time: 0,
            verify_trust: true,
        }
    }
    /// number of trust-relevant knobs that differ from the control
    /// (the control family: any depth >= 1, root configured either as the system or as the user anchor)
    fn distance(&self) -> usize {
        let c = Case::control();
        let mut d = 0;
        d += (self.depth == 0) as usize;
        d += (self.eku != c.eku) as usize;
        d += (self.policy != c.policy) as usize;
        d += (self.fault != c.fault) as usize;
        let base_sys = (self.sys_anchor != 0) as usize + (self.user_anchor != 0) as usize;
        let base_user = (self.sys_anchor != 1) as usize + (self.user_anchor != 1) as usize;
        d += base_sys.min(base_user);
        d += (self.anchors_only != c.anchors_only) as usize;
        d += (self.allow != c.allow) as usize;
        d += (self.time != c.time) as usize;
        d += (self.verify_trust != c.verify_trust) as usize;
        d
    }
}

fn eku_list(e: u8) -> Option<Vec<String>> {
    let v = |xs: &[&str]| Some(xs.iter().map(|s| s.to_string()).collect());
    match e {
        0 => v(&[oids::EKU_EMAIL_PROTECTION]),
        1 => v(&[oids::EKU_DOCUMENT_SIGNING]),
        2 => v(&[oids::EKU_C2PA_SIGNING]),
        3 => v(&[oids::EKU_CUSTOM]),
        4 => v(&[oids::EKU_TIME_STAMPING]),
        5 => v(&[oids::EKU_EMAIL_PROTECTION, oids::EKU_SERVER_AUTH]),
        6 => v(&[oids::EKU_SERVER_AUTH]),
        7 => None,
        _ => v(&[oids::EKU_ANY]),
    }
}

/// Documented EKU acceptance: emailProtection / timeStamping / OCSPSigning always; any other OID only when it
/// is on the policy's list (`default()` = valid_eku_oids.cfg, extended by `add_valid_ekus` / trust_config).
fn eku_accepted(e: u8, policy: u8) -> bool {
    let default_list = policy == 0 || policy == 3;
    let custom = policy == 2 || policy == 3;
    match e {
        0 | 4 | 5 => true,
        1 | 2 => default_list,
        3 => custom,
        _ => false,
    }
}

struct World {
    chain: Chain,
    unrelated_root: Vec<u8>,
    other_cert: Vec<u8>,
    depth: usize,
    fault: Option<Fault>,
}

fn build(c: &Case, now: i64, tag: &str) -> Result<World, String> {
    let depth = c.depth as usize;
    let ee_key = KEYS[c.ee_key as usize % KEYS.len()];
    let ca_key = KEYS[c.ca_key as usize % KEYS.len()];
    let mut cs = ChainSpec::simple(depth, ee_key, ca_key, tag);
    cs.ee.eku = eku_list(c.eku);
    cs.include_root = c.include_root;
    // levels a fault can sensibly apply to
    let fault = match c.fault {
        1 => Some(Fault::WrongIssuerKey(c.fault_level as usize % (depth + 1))),
        2 if depth >= 2 => Some(Fault::MissingIntermediate(1 + c.fault_level as usize % (depth - 1))),
        3 if depth >= 3 => Some(Fault::ReorderedIntermediates),
        4 if depth >= 2 => Some(Fault::DuplicatedIntermediate(1 + c.fault_level as usize % (depth - 1))),
        5 if depth >= 1 => Some(Fault::IntermediateNotCa(1 + c.fault_level as usize % depth)),
        6 if depth >= 1 => Some(Fault::ExpiredIntermediate(1 + c.fault_level as usize % depth)),
        7 => Some(Fault::UnrelatedExtra),
        _ => None,
    };
    if let Some(f) = &fault {
        cs.faults.push(f.clone());
    }
    let chain = pki::make_chain(&cs, now)?;
    let uk = pki::pool_key(ca_key, 300)?;
    let unrelated_root = pki::make_cert(&CertSpec::ca(&format!("Unrelated Root {tag}")), &uk, ca_key, None, now)?;
    let ok = pki::pool_key(ee_key, 301)?;
    let iss = pki::Issuer {
        name_der: pki::name_der(&format!("Unrelated Root {tag}"), Some("Verif Harness CA")),
        key: &uk,
        key_kind: ca_key,
        ski: pki::key_id(&uk)?,
    };
    let other_cert = pki::make_cert(&CertSpec::ee(&format!("Other Signer {tag}")), &ok, ee_key, Some(&iss), now)?;
    Ok(World { chain, unrelated_root, other_cert, depth, fault })
}

/// Anchor selector → (level in the hierarchy or None for unrelated, DER)
fn anchor_of(w: &World, sel: u8, user: bool) -> Option<(Option<usize>, Vec<u8>)> {
    // system coding: 0 root, 1 none, 2 L1, 3 unrelated, 4 L2 ; user coding: 0 none, 1 root, 2 L1, 3 unrelated, 4 L2
    let sel = if user {
        match sel {
            0 => 1,
            1 => 0,
            x => x,
        }
    } else {
        sel
    };
    match sel {
        0 => Some((Some(w.depth), w.chain.root_der().to_vec())),
        1 => None,
        2 => {
            let l = 1.min(w.depth);
            Some((Some(l), w.chain.all_der[l].clone()))
        }
        3 => Some((None, w.unrelated_root.clone())),
        _ => {
            let l = 2.min(w.depth);
            Some((Some(l), w.chain.all_der[l].clone()))
        }
    }
}

#[derive(Debug, Clone, Copy, PartialEq, Eq)]
enum Path {
    Yes,
    No,
    /// construction cannot decide from documented rules (fault sits on the anchor itself, EE is its own anchor)
    Unclear,
}

/// Is there a valid path from the EE to an anchor at `anchor_level` through the supplied certificates?
fn path_to(w: &World, c: &Case, anchor_level: usize) -> Path {
    let depth = w.depth;
    if anchor_level == 0 {
        // the EE itself is configured as an anchor
        return Path::Unclear;
    }
    let supplied = |l: usize| -> bool {
        if l == 0 {
            return true;
        }
        if l == depth {
            return c.include_root;
        }
        !matches!(&w.fault, Some(Fault::MissingIntermediate(x)) if *x == l)
    };
    // validity of the EE at the given time
    if c.time == 2 {
        return Path::No;
    }
    let mut result = Path::Yes;
    for l in 0..anchor_level {
        // link l -> l+1 must verify
        if matches!(&w.fault, Some(Fault::WrongIssuerKey(x)) if *x == l) {
            return Path::No;
        }
        let up = l + 1;
        // the issuer must be available: either it is the anchor or it was supplied
        if up < anchor_level && !supplied(up) {
            return Path::No;
        }
        let not_ca = matches!(&w.fault, Some(Fault::IntermediateNotCa(x)) if *x == up);
        let expired = c.time != 0 && matches!(&w.fault, Some(Fault::ExpiredIntermediate(x)) if *x == up);
        if not_ca || expired {
            if up < anchor_level {
                return Path::No;
            }
            // the defect is on the anchor itself: RFC 5280 leaves anchor constraints to the relying party
            result = Path::Unclear;
        }
    }
    result
}

struct Truth {
    allow_listed: bool,
    eku_ok: bool,
    sys_path: Path,
    user_path: Path,
}

fn truth(w: &World, c: &Case) -> Truth {
    let sys = anchor_of(w, c.sys_anchor, false);
    let usr = anchor_of(w, c.user_anchor, true);
    let p = |a: &Option<(Option<usize>, Vec<u8>)>| match a {
        Some((Some(l), _)) => path_to(w, c, *l),
        _ => Path::No,
    };
    Truth { allow_listed: c.allow == 1 || c.allow == 2, eku_ok: eku_accepted(c.eku, c.policy), sys_path: p(&sys), user_path: p(&usr) }
}

fn allow_text(w: &World, c: &Case) -> Option<String> {
    match c.allow {
        1 => Some(pki::pem_of(w.chain.ee_der())),
        2 => Some(format!("{}\n", pki::hash_line(w.chain.ee_der()))),
        3 => Some(pki::pem_of(&w.other_cert)),
        4 => Some(format!("{}\n", pki::hash_line(&w.other_cert))),
        5 if w.depth >= 1 => Some(pki::pem_of(&w.chain.all_der[1])),
        _ => None,
    }
}

fn selftest() -> bool {
    std::env::var("VERIF_SELFTEST").map(|v| v == "1").unwrap_or(false)
}

static TAG: std::sync::atomic::AtomicU64 = std::sync::atomic::AtomicU64::new(0);

fn next_tag(prefix: &str) -> String {
    format!("{prefix}{}", TAG.fetch_add(1, std::sync::atomic::Ordering::SeqCst))
}

/// CLI cross-check of the path component. Returns Some(true/false) or None when it could not run.
fn cli_path(run: &Run, w: &World, anchors: &[Vec<u8>], at: Option<i64>, tag: &str) -> Option<bool> {
    if anchors.is_empty() {
        return Some(false);
    }
    match pki::openssl_cli_verify(
        std::path::Path::new("/verif/work/C05"),
        tag,
        w.chain.ee_der(),
        &w.chain.supplied_der[1..],
        anchors,
        at,
    ) {
        Ok((ok, _)) => Some(ok),
        Err(e) => {
            run.count("cli_unavailable");
            run.inconclusive(format!("openssl CLI cross-check could not run: {e}"));
            None
        }
    }
}

fn describe(w: &World, c: &Case) -> String {
    format!(
        "fault {:?}; supplied chain (EE first):\n{}anchors: system {:?} user {:?}\nroot:\n{}",
        w.fault,
        w.chain.certs_pem(),
        c.sys_anchor,
        c.user_anchor,
        w.chain.root_pem()
    )
}

fn judge_direct(run: &Run, now: i64, c: &Case) -> CaseResult {
    let tag = next_tag("d");
    let w = match build(c, now, &tag) {
        Ok(w) => w,
        Err(e) => {
            run.count("generator_error");
            run.inconclusive(format!("generator failed for {c:?}: {e}"));
            return Ok(());
        }
    };
    let t = truth(&w, c);
    let at = match c.time {
        0 => None,
        1 => Some(now),
        _ => Some(now + 3 * 365 * 86_400),
    };

    // ---- configure the policy through its public API
    let mut pol = if c.policy == 0 || c.policy == 3 { CertificateTrustPolicy::default() } else { CertificateTrustPolicy::new() };
    if c.policy >= 2 {
        pol.add_valid_ekus(format!("// custom\n{}\n", oids::EKU_CUSTOM).as_bytes());
    }
    let sys = anchor_of(&w, c.sys_anchor, false);
    let usr = anchor_of(&w, c.user_anchor, true);
    if let Some((_, der)) = &sys {
        pol.add_trust_anchors(pki::pem_of(der).as_bytes()).map_err(|e| Fail::new("C05:anchor-pem-rejected", e.to_string()))?;
    }
    if let Some((_, der)) = &usr {
        pol.add_user_trust_anchors(pki::pem_of(der).as_bytes()).map_err(|e| Fail::new("C05:anchor-pem-rejected", e.to_string()))?;
    }
    if let Some(txt) = allow_text(&w, c) {
        pol.add_end_entity_credentials(txt.as_bytes()).map_err(|e| Fail::new("C05:allow-list-rejected", e.to_string()))?;
    }
    pol.set_trust_anchors_only(c.anchors_only);

    let got = vh::catch(|| pol.check_certificate_trust(&w.chain.supplied_der[1..], w.chain.ee_der(), at));
    let mut got = match got {
        Ok(g) => g,
        Err(p) => return Err(Fail::new(format!("C05:panic-{}", vh::core::panic_site(&p)), format!("check_certificate_trust panicked: {p}"))),
    };
    if selftest() && c.fault == 1 && got.is_err() {
        got = Ok(TrustAnchorType::System);
    }

    run.count(&format!("direct_depth_{}", c.depth));
    run.count(&format!("direct_fault_{}", c.fault));
    run.count(&format!("direct_eku_{}", c.eku));
    run.count(&format!("direct_allow_{}", c.allow));
    run.count(&format!("direct_sdk_{}", match &got { Ok(t) => format!("{t:?}"), Err(_) => "Err".into() }));
    let dist = c.distance();
    if dist <= 1 {
        run.nontrivial(c);
        run.count("direct_distance_le1");
    }

    // ---- allow list decides first (documented: regardless of chains)
    if t.allow_listed {
        return match got {
            Ok(TrustAnchorType::EndEntity) => Ok(()),
            Ok(other) => Err(Fail::new("C05:allow-listed-wrong-anchor-type", format!("allow-listed EE reported as {other:?}"))),
            Err(e) => Err(Fail::new("C05:allow-listed-not-trusted", format!("EE is on the allow list (mode {}) but check_certificate_trust says {e}\n{}", c.allow, describe(&w, c)))),
        };
    }
    if matches!(got, Ok(TrustAnchorType::EndEntity)) {
        return Err(Fail::new("C05:not-allow-listed-reported-endentity", format!("EE is not on the allow list (mode {}) but EndEntity trust was reported\n{}", c.allow, describe(&w, c))));
    }
    if c.anchors_only && matches!(got, Ok(TrustAnchorType::User)) {
        return Err(Fail::new("C05:anchors-only-accepted-user-anchor", format!("trust_anchors_only is set but the user anchor was accepted\n{}", describe(&w, c))));
    }

    // ---- path component with CLI cross-check
    let user_counts = !c.anchors_only;
    let constr = match (t.sys_path, if user_counts { t.user_path } else { Path::No }) {
        (Path::Yes, _) | (_, Path::Yes) => Path::Yes,
        (Path::Unclear, _) | (_, Path::Unclear) => Path::Unclear,
        _ => Path::No,
    };
    let mut anchors: Vec<Vec<u8>> = vec![];
    if let Some((_, d)) = &sys {
        anchors.push(d.clone());
    }
    if user_counts {
        if let Some((_, d)) = &usr {
            anchors.push(d.clone());
        }
    }
    let cli = match cli_path(run, &w, &anchors, at, &tag) {
        Some(b) => b,
        None => return Ok(()),
    };
    let path_ok = match (constr, cli) {
        (Path::Yes, true) => true,
        (Path::No, false) => false,
        (Path::Unclear, _) => {
            run.count("direct_unclear_by_construction");
            run.count(&format!("record_unclear_fault{}_sdk_{}", c.fault, got.is_ok()));
            return Ok(());
        }
        (p, b) => {
            run.count("direct_ambiguous_cli_disagrees");
            run.count(&format!("ambiguous_fault{}_depth{}_constr{:?}_cli{}", c.fault, c.depth, p, b));
            return Ok(());
        }
    };
    run.count(if path_ok { "direct_truth_path_yes" } else { "direct_truth_path_no" });
    let expect_trusted = path_ok && t.eku_ok;
    match (&got, expect_trusted) {
        (Ok(tat), true) => {
            // which store? system wins when it has a path
            let want_sys = t.sys_path == Path::Yes;
            match (tat, want_sys) {
                (TrustAnchorType::System, true) | (TrustAnchorType::User, false) => Ok(()),
                _ => Err(Fail::new("C05:wrong-anchor-type", format!("trusted through {tat:?}, expected {}\n{}", if want_sys { "System" } else { "User" }, describe(&w, c)))),
            }
        }
        (Err(_), false) => Ok(()),
        (Ok(tat), false) => {
            if path_ok {
                Err(Fail::new(
                    "C05:direct-trusted-despite-unaccepted-eku",
                    format!("check_certificate_trust returned Ok({tat:?}) for an EE whose EKU (variant {}: {:?}) is not accepted by the policy (variant {})\n{}", c.eku, eku_list(c.eku), c.policy, describe(&w, c)),
                ))
            } else {
                Err(Fail::new(
                    format!("C05:direct-trusted-without-path-fault{}", c.fault),
                    format!("check_certificate_trust returned Ok({tat:?}) but no valid path to a configured anchor exists (openssl CLI agrees)\n{}", describe(&w, c)),
                ))
            }
        }
        (Err(e), true) => Err(Fail::new(
            format!("C05:direct-untrusted-despite-path-fault{}", c.fault),
            format!("check_certificate_trust returned {e} although a valid path exists (openssl CLI agrees) and the EKU is accepted\n{}", describe(&w, c)),
        )),
    }
}

fn judge_e2e(run: &Run, src: &[u8], now: i64, c: &Case) -> CaseResult {
    let tag = next_tag("e");
    let w = match build(c, now, &tag) {
        Ok(w) => w,
        Err(e) => {
            run.count("generator_error");
            run.inconclusive(format!("generator failed for {c:?}: {e}"));
            return Ok(());
        }
    };
    let t = truth(&w, c);
    // ---- sign: the signing side accepts the custom EKU so that the pre-sign self-check passes
    let mut sign_settings = sdk::base_settings(false);
    sdk::merge(
        &mut sign_settings,
        &json!({ "verify": { "verify_after_sign": false }, "trust": { "trust_config": format!("{}\n", oids::EKU_CUSTOM) } }),
    );
    let signer = match w.chain.sdk_signer() {
        Ok(s) => s,
        Err(e) => {
            run.count("e2e_signer_error");
            run.inconclusive(format!("create_signer::from_keys refused the generated credential: {e}"));
            return Ok(());
        }
    };
    let signed = vh::catch(|| {
        sdk::sign_with(
            sdk::context_with(&sign_settings),
            &sdk::simple_definition("c05"),
            Some(BuilderIntent::Create(DigitalSourceType::Empty)),
            signer.as_ref(),
            "image/jpeg",
            src,
        )
    });
    let bytes = match signed {
        Ok(Ok(b)) => b,
        Ok(Err(e)) => {
            run.count("e2e_sign_error");
            run.inconclusive(format!("signing failed for {c:?}: {e}"));
            return Ok(());
        }
        Err(p) => return Err(Fail::new(format!("C05:panic-{}", vh::core::panic_site(&p)), format!("sign panicked: {p}"))),
    };
    // ---- read with the generated trust settings
    let mut trust = serde_json::Map::new();
    let sys = anchor_of(&w, c.sys_anchor, false);
    let usr = anchor_of(&w, c.user_anchor, true);
    if let Some((_, d)) = &sys {
        trust.insert("trust_anchors".into(), json!(pki::pem_of(d)));
    }
    if let Some((_, d)) = &usr {
        trust.insert("user_anchors".into(), json!(pki::pem_of(d)));
    }
    if let Some(txt) = allow_text(&w, c) {
        trust.insert("allowed_list".into(), json!(txt));
    }
    if c.policy >= 2 {
        trust.insert("trust_config".into(), json!(format!("{}\n", oids::EKU_CUSTOM)));
    }
    let mut settings = sdk::base_settings(false);
    sdk::merge(&mut settings, &json!({ "trust": trust, "verify": { "verify_trust": c.verify_trust } }));
    let reader = match vh::catch(|| sdk::read_with(sdk::context_with(&settings), "image/jpeg", &bytes)) {
        Ok(Ok(r)) => r,
        Ok(Err(e)) => return Err(Fail::new("C05:e2e-reader-error", format!("reader failed: {e}\n{}", describe(&w, c)))),
        Err(p) => return Err(Fail::new(format!("C05:panic-{}", vh::core::panic_site(&p)), format!("read panicked: {p}"))),
    };
    let v = sdk::verdict(&reader);
    let has = |kind: &str, code: &str| v.codes.iter().any(|x| x.starts_with(&format!("{kind}:{code}:")));
    let trusted_code = has("S", "signingCredential.trusted") || has("I", "signingCredential.trusted");
    let untrusted_code = has("F", "signingCredential.untrusted") || has("I", "signingCredential.untrusted") || has("S", "signingCredential.untrusted");
    let mut state = v.state.clone();
    if selftest() && !c.verify_trust {
        state = "Trusted".into();
    }
    run.count(&format!("e2e_depth_{}", c.depth));
    run.count(&format!("e2e_fault_{}", c.fault));
    run.count(&format!("e2e_eku_{}", c.eku));
    run.count(&format!("e2e_allow_{}", c.allow));
    run.count(&format!("e2e_sdk_{}{}{}", state, if trusted_code { "+trusted" } else { "" }, if untrusted_code { "+untrusted" } else { "" }));
    if c.distance() <= 1 {
        run.nontrivial(c);
        run.count("e2e_distance_le1");
    }
    let fails = sdk::failure_codes(&reader);

    if !c.verify_trust {
        run.count("e2e_verify_trust_off");
        if trusted_code || untrusted_code || state == "Trusted" {
            return Err(Fail::new(
                "C05:trust-verdict-with-verify-trust-off",
                format!("verify_trust=false but state {state}, trusted code {trusted_code}, untrusted code {untrusted_code}"),
            ));
        }
        return Ok(());
    }
    // Store::from_context always starts from the default EKU list: policy variants 1/2 behave as 0/3 here.
    let eku_ok = eku_accepted(c.eku, if c.policy >= 2 { 3 } else { 0 });
    let constr = if t.sys_path == Path::Yes || t.user_path == Path::Yes {
        Path::Yes
    } else if t.sys_path == Path::Unclear || t.user_path == Path::Unclear {
        Path::Unclear
    } else {
        Path::No
    };
    let mut anchors: Vec<Vec<u8>> = vec![];
    if let Some((_, d)) = &sys {
        anchors.push(d.clone());
    }
    if let Some((_, d)) = &usr {
        anchors.push(d.clone());
    }
    let expect_trusted = if t.allow_listed {
        true
    } else {
        let cli = match cli_path(run, &w, &anchors, None, &tag) {
            Some(b) => b,
            None => return Ok(()),
        };
        match (constr, cli) {
            (Path::Yes, true) => eku_ok,
            (Path::No, false) => false,
            (Path::Unclear, _) => {
                run.count("e2e_unclear_by_construction");
                return Ok(());
            }
            _ => {
                run.count("e2e_ambiguous_cli_disagrees");
                return Ok(());
            }
        }
    };
    run.count(if expect_trusted { "e2e_truth_trusted" } else { "e2e_truth_untrusted" });
    if expect_trusted {
        if !trusted_code || untrusted_code {
            return Err(Fail::new(
                "C05:e2e-trusted-credential-not-reported-trusted",
                format!("expected signingCredential.trusted (allow-listed {}, path {:?}); got state {state}, failures {:?}\n{}", t.allow_listed, constr, fails, describe(&w, c)),
            ));
        }
        // the EE conforms to the profile whenever its EKU is accepted ⇒ nothing else can fail
        if eku_ok && c.depth >= 1 && state != "Trusted" {
            return Err(Fail::new(
                "C05:e2e-trusted-credential-state-not-trusted",
                format!("signingCredential.trusted reported but state is {state}, failures {:?}", fails),
            ));
        }
        Ok(())
    } else {
        if state == "Trusted" {
            return Err(Fail::new(
                "C05:e2e-state-trusted-for-untrusted-credential",
                format!("state Trusted although no trust path / accepted EKU / allow-list entry exists (path {:?}, eku_ok {eku_ok})\n{}", constr, describe(&w, c)),
            ));
        }
        if trusted_code {
            let sig = if constr == Path::Yes && !eku_ok {
                "C05:e2e-trusted-code-despite-unaccepted-eku"
            } else {
                "C05:e2e-trusted-code-without-path"
            };
            return Err(Fail::new(
                sig,
                format!("signingCredential.trusted is reported (state {state}, failures {:?}) although the credential must be untrusted (path {:?}, eku variant {} accepted: {eku_ok})\n{}", fails, constr, c.eku, describe(&w, c)),
            ));
        }
        if !untrusted_code {
            return Err(Fail::new(
                "C05:e2e-untrusted-credential-not-reported-untrusted",
                format!("expected signingCredential.untrusted; got state {state}, failures {:?}\n{}", fails, describe(&w, c)),
            ));
        }
        Ok(())
    }
}

// =====================================================================================================
// Stateful stream: ONE policy object, a history of operations, every check judged for the CURRENT
// configuration (history independence of check_certificate_trust).
// =====================================================================================================

#[derive(Clone, Debug, Serialize, Deserialize, PartialEq, Eq, Hash)]
struct Step {
    /// 0 check, 1 clone the policy and check on the clone, 2 set_trust_anchors_only(flag),
    /// 3 add_user_trust_anchors(sel), 4 add_trust_anchors(sel)
    op: u8,
    /// check: 0 = the chain's EE, 1 = a second EE issued by the same CA
    ee: u8,
    /// check: supplied chain 0 full, 1 one intermediate missing, 2 intermediates reversed, 3 full + unrelated
    /// certificate, 4 empty
    chain: u8,
    /// check: 0 no signing time, 1 now
    time: u8,
    /// add anchors: 0 root, 1 unrelated root, 2 the CA that issued the EEs
    sel: u8,
    flag: bool,
}

#[derive(Clone, Debug, Serialize, Deserialize, PartialEq, Eq, Hash)]
struct History {
    /// 2 = EE<-int<-root, 3 = EE<-int<-int<-root
    depth: u8,
    ee_key: u8,
    ca_key: u8,
    /// initial system anchor: 0 root, 1 none, 2 unrelated root
    sys0: u8,
    /// initial user anchor: 0 none, 1 root, 2 unrelated root
    user0: u8,
    only0: bool,
    steps: Vec<Step>,
}

/// Anchor levels of the model: Some(level) inside the hierarchy, None = unrelated.
fn sel_level(sel: u8, depth: usize) -> Option<usize> {
    match sel % 3 {
        0 => Some(depth),
        1 => None,
        _ => Some(1),
    }
}

fn selftest_cache() -> bool {
    std::env::var("VERIF_SELFTEST").map(|v| v == "cache").unwrap_or(false)
}

fn judge_history(run: &Run, now: i64, h: &History) -> CaseResult {
    let tag = next_tag("h");
    let depth = (h.depth as usize).clamp(2, 3);
    let ee_key = KEYS[h.ee_key as usize % KEYS.len()];
    let ca_key = KEYS[h.ca_key as usize % KEYS.len()];
    let built = (|| -> Result<(Chain, Vec<u8>, Vec<u8>), String> {
        let cs = ChainSpec::simple(depth, ee_key, ca_key, &tag);
        let chain = pki::make_chain(&cs, now)?;
        let iss = chain.issuer_at(1, &cs.cas[0])?;
        let kb = pki::pool_key(ee_key, 310)?;
        let mut sb = CertSpec::ee(&format!("Second Signer {tag}"));
        sb.serial_hex = "2002".into();
        let ee_b = pki::make_cert(&sb, &kb, ee_key, Some(&iss), now)?;
        let uk = pki::pool_key(ca_key, 300)?;
        let unrelated = pki::make_cert(&CertSpec::ca(&format!("Unrelated Root {tag}")), &uk, ca_key, None, now)?;
        Ok((chain, ee_b, unrelated))
    })();
    let (chain, ee_b, unrelated) = match built {
        Ok(x) => x,
        Err(e) => {
            run.count("generator_error");
            run.inconclusive(format!("generator failed for {h:?}: {e}"));
            return Ok(());
        }
    };
    let anchor_der = |lvl: Option<usize>| -> Vec<u8> {
        match lvl {
            Some(l) => chain.all_der[l].clone(),
            None => unrelated.clone(),
        }
    };
    // ---- model of the configuration
    let mut sys: Vec<Option<usize>> = vec![];
    let mut usr: Vec<Option<usize>> = vec![];
    let mut only = h.only0;
    let mut pol = CertificateTrustPolicy::default();
    let add = |pol: &mut CertificateTrustPolicy, user: bool, der: &[u8]| -> CaseResult {
        let pem = pki::pem_of(der);
        let r = if user { pol.add_user_trust_anchors(pem.as_bytes()) } else { pol.add_trust_anchors(pem.as_bytes()) };
        r.map_err(|e| Fail::new("C05:anchor-pem-rejected", e.to_string()))
    };
    match h.sys0 % 3 {
        0 => {
            sys.push(Some(depth));
            add(&mut pol, false, &anchor_der(Some(depth)))?;
        }
        2 => {
            sys.push(None);
            add(&mut pol, false, &anchor_der(None))?;
        }
        _ => {}
    }
    match h.user0 % 3 {
        1 => {
            usr.push(Some(depth));
            add(&mut pol, true, &anchor_der(Some(depth)))?;
        }
        2 => {
            usr.push(None);
            add(&mut pol, true, &anchor_der(None))?;
        }
        _ => {}
    }
    pol.set_trust_anchors_only(only);

    // emulated defect for the self-test: successful validations cached by (EE, time), reset by add_*anchors
    let mut fake_cache: std::collections::HashSet<(u8, u8)> = std::collections::HashSet::new();
    let mut earlier_success = false;
    let mut success_then_fail = false;
    let mut checks = 0;
    run.count(&format!("history_len_{}", h.steps.len()));
    for (i, st) in h.steps.iter().enumerate() {
        match st.op {
            2 => {
                only = st.flag;
                pol.set_trust_anchors_only(only);
                run.count("step_set_anchors_only");
            }
            3 => {
                let l = sel_level(st.sel, depth);
                usr.push(l);
                add(&mut pol, true, &anchor_der(l))?;
                fake_cache.clear();
                run.count("step_add_user_anchor");
            }
            4 => {
                let l = sel_level(st.sel, depth);
                sys.push(l);
                add(&mut pol, false, &anchor_der(l))?;
                fake_cache.clear();
                run.count("step_add_system_anchor");
            }
            _ => {
                checks += 1;
                // supplied intermediates: levels 1..depth-1
                let mut levels: Vec<usize> = (1..depth).collect();
                let mut extra = false;
                match st.chain % 5 {
                    1 => {
                        let drop = 1 + (st.sel as usize) % (depth - 1);
                        levels.retain(|l| *l != drop);
                    }
                    2 => levels.reverse(),
                    3 => extra = true,
                    4 => levels.clear(),
                    _ => {}
                }
                let mut supplied: Vec<Vec<u8>> = levels.iter().map(|l| chain.all_der[*l].clone()).collect();
                if extra {
                    supplied.push(unrelated.clone());
                }
                let ee_sel = st.ee % 2;
                let ee_der: &[u8] = if ee_sel == 1 { &ee_b } else { chain.ee_der() };
                let at = if st.time % 2 == 1 { Some(now) } else { None };
                // ---- truth for the current configuration
                let path = |anchors: &[Option<usize>]| anchors.iter().any(|a| match a {
                    Some(l) => (1..*l).all(|x| levels.contains(&x)),
                    None => false,
                });
                let want: Option<TrustAnchorType> = if path(&sys) {
                    Some(TrustAnchorType::System)
                } else if !only && path(&usr) {
                    Some(TrustAnchorType::User)
                } else {
                    None
                };
                // ---- SDK: the long-lived policy (or a clone of it), and a fresh policy with the same configuration
                let got = vh::catch(|| {
                    if st.op == 1 {
                        let c = pol.clone();
                        c.check_certificate_trust(&supplied, ee_der, at)
                    } else {
                        pol.check_certificate_trust(&supplied, ee_der, at)
                    }
                });
                let mut got = match got {
                    Ok(g) => g.ok(),
                    Err(p) => return Err(Fail::new(format!("C05:panic-{}", vh::core::panic_site(&p)), format!("check_certificate_trust panicked at step {i}: {p}"))),
                };
                if selftest_cache() {
                    let key = (ee_sel, st.time % 2);
                    if fake_cache.contains(&key) {
                        got = Some(got.unwrap_or(TrustAnchorType::System));
                    } else if got.is_some() {
                        fake_cache.insert(key);
                    }
                }
                let mut fresh = CertificateTrustPolicy::default();
                for a in &sys {
                    add(&mut fresh, false, &anchor_der(*a))?;
                }
                for a in &usr {
                    add(&mut fresh, true, &anchor_der(*a))?;
                }
                fresh.set_trust_anchors_only(only);
                let fresh_got = fresh.check_certificate_trust(&supplied, ee_der, at).ok();
                run.count(if st.op == 1 { "step_clone_check" } else { "step_check" });
                run.count(&format!("stateful_chain_variant_{}", st.chain % 5));
                run.count(if want.is_some() { "stateful_truth_trusted" } else { "stateful_truth_untrusted" });
                if fresh_got.is_some() != want.is_some() {
                    // the construction and a fresh policy disagree: not a history effect, do not judge here
                    run.count("stateful_ambiguous_fresh_policy_disagrees");
                    continue;
                }
                if want.is_none() && earlier_success {
                    success_then_fail = true;
                }
                let ctx = || {
                    format!(
                        "step {i} of {:?} (system anchors {:?}, user anchors {:?}, anchors_only {only}; levels supplied {:?}); a fresh policy with the same configuration answers {:?}\nEE:\n{}root:\n{}",
                        h.steps, sys, usr, levels, fresh_got, pki::pem_of(ee_der), chain.root_pem()
                    )
                };
                match (&got, &want) {
                    (Some(g), None) => {
                        let sig = if only && *g == TrustAnchorType::User {
                            "C05:stateful-anchors-only-accepted-user-anchor"
                        } else if earlier_success {
                            "C05:stateful-trusted-after-earlier-success"
                        } else {
                            "C05:stateful-trusted-without-path"
                        };
                        return Err(Fail::new(sig, format!("long-lived policy answers Ok({g:?}) where the current configuration gives no trust path: {}", ctx())));
                    }
                    (None, Some(w)) => {
                        return Err(Fail::new("C05:stateful-untrusted-despite-path", format!("long-lived policy answers Err where {w:?} trust is expected: {}", ctx())));
                    }
                    (Some(g), Some(w)) if g != w => {
                        let sig = if only && *g == TrustAnchorType::User { "C05:stateful-anchors-only-accepted-user-anchor" } else { "C05:stateful-wrong-anchor-type" };
                        return Err(Fail::new(sig, format!("long-lived policy answers {g:?}, expected {w:?}: {}", ctx())));
                    }
                    _ => {}
                }
                if want.is_some() {
                    earlier_success = true;
                }
            }
        }
    }
    if checks >= 2 {
        run.count("history_with_two_checks");
    }
    if success_then_fail {
        run.count("history_success_then_should_fail");
        run.nontrivial(h);
    }
    Ok(())
}

fn history_strategy() -> impl Strategy<Value = History> + Sync {
    let step = (0u8..12, 0u8..4, 0u8..5, 0u8..2, 0u8..3, any::<bool>()).prop_map(|(o, ee, chain, time, sel, flag)| Step {
        // weights: 6 check, 1 clone-check, 2 set_trust_anchors_only, 2 add user anchors, 1 add system anchors
        op: match o {
            0..=5 => 0,
            6 => 1,
            7 | 8 => 2,
            9 | 10 => 3,
            _ => 4,
        },
        ee: (ee == 3) as u8,
        chain,
        time,
        sel,
        flag,
    });
    ((0u8..2, 0u8..6, 0u8..6, 0u8..4, 0u8..4, any::<bool>()), proptest::collection::vec(step, 2..=5)).prop_map(
        |((depth, ee_key, ca_key, sys0, user0, only0), steps)| History {
            depth: 2 + depth,
            ee_key,
            ca_key,
            // root as system anchor half of the time, root as user anchor otherwise most of the time
            sys0: [0u8, 1, 0, 2][sys0 as usize],
            user0: [0u8, 1, 1, 2][user0 as usize],
            only0: only0 && sys0 % 2 == 0,
            steps,
        },
    )
}

/// Strategy: `mode` 0..=5 → one-knob deviation from the control (knob = sel % 10), otherwise all knobs free.
fn strategy(e2e: bool) -> impl Strategy<Value = Case> + Sync {
    (
        (0u8..10, 0u8..40, 0u8..9, 0u8..6, 0u8..6),
        (0u8..4, 0u8..9, 0u8..4, 0u8..8, 0u8..4),
        (any::<bool>(), 0u8..5, 0u8..5, any::<bool>(), 0u8..6, 0u8..3, 0u8..8),
    )
        .prop_map(move |((mode, sel, val, ee_key, ca_key), (depth, eku, policy, fault, fault_level), (include_root, sys_anchor, user_anchor, anchors_only, allow, time, vt))| {
            let mut c = Case::control();
            c.ee_key = ee_key;
            c.ca_key = ca_key;
            c.fault_level = fault_level;
            c.include_root = include_root;
            let depth_v = [1u8, 2, 3, 0][depth as usize % 4];
            if mode < 6 {
                // exactly one trust-relevant knob away from the control (or the control itself when the value is 0)
                match sel % 10 {
                    0 => c.depth = depth_v,
                    1 => c.eku = eku,
                    2 => c.policy = policy,
                    3 => {
                        // faults need depth to be meaningful: depth does not count as a trust knob when the fault is absent
                        c.depth = [2u8, 3, 1][val as usize % 3];
                        c.fault = fault;
                    }
                    4 => c.sys_anchor = sys_anchor,
                    5 => {
                        c.user_anchor = user_anchor;
                        c.sys_anchor = 1;
                    }
                    6 => {
                        c.anchors_only = true;
                        c.user_anchor = 1;
                        c.sys_anchor = if val % 2 == 0 { 1 } else { 3 };
                    }
                    7 => {
                        c.allow = allow;
                        c.sys_anchor = if val % 2 == 0 { 1 } else { 0 };
                    }
                    8 => c.time = time,
                    _ => c.verify_trust = !e2e,
                }
            } else {
                c.depth = depth_v;
                c.eku = eku;
                c.policy = policy;
                c.fault = fault;
                c.sys_anchor = sys_anchor;
                c.user_anchor = user_anchor;
                c.anchors_only = anchors_only;
                c.allow = allow;
                c.time = time;
                c.verify_trust = !e2e || vt != 0;
            }
            if e2e {
                // no anchors-only switch and no signing time without a TSA at this level; the EE must pass the
                // signer-side profile check, so only EKUs a signer can have
                c.anchors_only = false;
                c.time = 0;
                c.eku = [0u8, 1, 2, 3, 0, 5][c.eku as usize % 6];
                if c.policy == 1 {
                    c.policy = 0;
                }
            } else {
                c.verify_trust = true;
            }
            c
        })
}

fn main() {
    vh::quiet_panics();
    let run = Run::from_args("C05", "exploration");
    run.set_rule("cases = knob vectors over (hierarchy depth 0-3, EE/CA key type out of 6, EE EKU variant out of 9, policy EKU list out of 4, structural fault out of 8 + level, root supplied or not, system anchor out of 5, user anchor out of 5, anchors-only, allow list out of 6, signing time out of 3, verify_trust); 60% of the draws differ from the trusted control (EE<-root, emailProtection, root as system anchor) in exactly one trust-relevant knob. Non-trivial = distance <= 1 from the control");
    run.assume("truth is by construction; the path component is judged only when `openssl verify -x509_strict -partial_chain` (CLI 3.0.x) agrees with the construction, otherwise the case is counted ambiguous");
    run.assume("EKU acceptance rule as documented: emailProtection/timeStamping/OCSPSigning always, other OIDs only when on the policy list (default list or add_valid_ekus / trust.trust_config); an allow-listed EE is trusted regardless of chain and EKU");
    run.assume("stateful stream: one CertificateTrustPolicy::default() object per history, configured through add_trust_anchors / add_user_trust_anchors / set_trust_anchors_only, conforming hierarchies of depth 2-3 only (no faulty certificates), every check also compared with a fresh policy carrying the same configuration; a disagreement between construction and the fresh policy is counted ambiguous, not judged");
    run.assume("validity periods are evaluated only when a signing time is supplied (documented on check_certificate_trust); faults sitting on the configured anchor itself are recorded, not judged");
    let _ = std::fs::create_dir_all("/verif/work/C05");
    if let Ok(rd) = std::fs::read_dir("/verif/work/C05") {
        for e in rd.flatten() {
            let _ = std::fs::remove_file(e.path());
        }
    }
    let now = pki::now_epoch();
    let src = sdk::fixture("no_manifest.jpg");
    let threads = std::thread::available_parallelism().map(|n| n.get()).unwrap_or(4).min(16);

    // control first: if the trusted control is not trusted the harness is broken, not the SDK
    {
        let c = Case::control();
        if let Err(f) = judge_direct(&run, now, &c) {
            run.inconclusive(format!("trusted control failed at the direct level: {} — {}", f.signature, f.what));
        }
        if let Err(f) = judge_e2e(&run, &src, now, &c) {
            run.inconclusive(format!("trusted control failed end to end: {} — {}", f.signature, f.what));
        }
    }

    run.drive_par("direct", run.scale(1_500, 20_000), threads, strategy(false), |c| judge_direct(&run, now, c));
    run.drive_par("e2e", run.scale(200, 2_000), threads, strategy(true), |c| judge_e2e(&run, &src, now, c));
    run.drive_par("stateful", run.scale(300, 10_000), threads, history_strategy(), |h| judge_history(&run, now, h));
    run.finish();
}
