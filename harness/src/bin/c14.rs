//! C14 — reserved-size padding is exact and signing succeeds for any ample reserve.
//!
//! Four layers, one oracle ("Ok ⇒ exactly the reserved size, same COSE, zero padding; a reserve that is
//! at least the unpadded size never fails; never panics"):
//!   (a)  `pad_sweep`     the private `pad_cose_sig` (hook) on real unpadded COSE_Sign1 structures, every
//!                        end size U-8 ..= U+70000;
//!   (a') `sign_claim`    the public COSE signing entry `c2pa::cose_sign::sign_claim(claim, signer, box_size)`;
//!   (b)  `builder_sign`  `Builder::sign` with a wrapper `Signer` whose `reserve_size()` is chosen;
//!   (c)  `datahash_pad`  `DataHash::pad_to_size`.
//!
//! Failure signatures are computed from the slack (reserve − unpadded size) only, in classes that follow the
//! CBOR byte-string header width a single `"pad"` entry needs (see `slack_class`).

use std::io::Cursor;

use c2pa::{
    assertions::DataHash, create_signer, Builder, BuilderIntent, Context, DigitalSourceType, HashRange, Reader, Signer,
    SigningAlg, ValidationState,
};
use coset::{cbor::value::Value, CoseSign1, Label, TaggedCborSerializable};
use serde::{Deserialize, Serialize};
use vh::{rng::SplitMix64, CaseResult, Fail, Run};

const CERT_DIR: &str = "/repo/sdk/tests/fixtures/certs";
const SOURCE_JPEG: &str = "/repo/sdk/tests/fixtures/earth_apollo17.jpg";
const MAX_SLACK: i64 = 70_000;
const SETTINGS: &str = r#"{"builder": {"thumbnail": {"enabled": false}}}"#;

// ------------------------------------------------------------------------------------------------
// slack classes
// ------------------------------------------------------------------------------------------------

/// Class of a slack value `s = reserve − U` (U = length of the unpadded tagged COSE_Sign1).
/// A single `"pad": h'00…'` map entry costs 4 bytes of label plus a byte string of n zeros with a 1-, 2-,
/// 3- or 5-byte header, so one entry can absorb 5..=28, 30..=261, 263..=65542 or ≥65545 bytes; 29, 262,
/// 65543 and 65544 need the second `"pad2"` entry; 1..=4 cannot be expressed at all.
fn slack_class(s: i64) -> &'static str {
    match s {
        i64::MIN..=-1 => "undersize",
        0 => "slack-0",
        1..=4 => "slack-1..4",
        5..=262 => "slack-5..262",
        263..=65_542 => "slack-263..65542",
        _ => "slack-ge-65543",
    }
}

/// Within ±8 bytes of the unpadded size or of a point where the pad byte string changes header width.
fn near_boundary(s: i64) -> bool {
    (-8..=13).contains(&s) || (20..=40).contains(&s) || (245..=275).contains(&s) || (65_525..=65_560).contains(&s)
}

// ------------------------------------------------------------------------------------------------
// fixtures: real COSE_Sign1 structures produced by the SDK
// ------------------------------------------------------------------------------------------------

#[derive(Clone)]
struct Fixture {
    name: String,
    /// None for synthetic variants (hook level only).
    alg: Option<SigningAlg>,
    cert_pem: Vec<u8>,
    key_pem: Vec<u8>,
    /// Tagged COSE_Sign1 without any pad entry, as `pad_cose_sig` receives it from sign_v1/sign_v2.
    unpadded: Vec<u8>,
    /// Claim CBOR that was signed (input for `sign_claim`).
    claim: Vec<u8>,
    /// smallest slack > 0 for which the hook succeeds (None: none up to MAX_SLACK)
    first_padded_ok: Option<i64>,
}

impl Fixture {
    fn u(&self) -> usize {
        self.unpadded.len()
    }
}

fn alg_of(name: &str) -> Option<SigningAlg> {
    Some(match name {
        "es256" => SigningAlg::Es256,
        "es384" => SigningAlg::Es384,
        "es512" => SigningAlg::Es512,
        "ps256" => SigningAlg::Ps256,
        "ps384" => SigningAlg::Ps384,
        "ps512" => SigningAlg::Ps512,
        "ed25519" => SigningAlg::Ed25519,
        _ => return None,
    })
}

/// Signer that reports a chosen reserve size and delegates everything else.
struct ReserveSigner {
    inner: c2pa::BoxedSigner,
    reserve: usize,
}

impl Signer for ReserveSigner {
    fn sign(&self, data: &[u8]) -> c2pa::Result<Vec<u8>> {
        self.inner.sign(data)
    }
    fn alg(&self) -> SigningAlg {
        self.inner.alg()
    }
    fn certs(&self) -> c2pa::Result<Vec<Vec<u8>>> {
        self.inner.certs()
    }
    fn reserve_size(&self) -> usize {
        self.reserve
    }
    fn time_authority_url(&self) -> Option<String> {
        self.inner.time_authority_url()
    }
    fn ocsp_val(&self) -> Option<Vec<u8>> {
        self.inner.ocsp_val()
    }
    fn direct_cose_handling(&self) -> bool {
        self.inner.direct_cose_handling()
    }
}

fn make_signer(fx: &Fixture) -> Result<c2pa::BoxedSigner, String> {
    let alg = fx.alg.ok_or("synthetic fixture has no signer")?;
    create_signer::from_keys(&fx.cert_pem, &fx.key_pem, alg, None).map_err(|e| format!("from_keys: {e}"))
}

fn new_builder() -> Result<Builder, String> {
    let ctx = Context::new().with_settings(SETTINGS).map_err(|e| format!("settings: {e}"))?;
    let def = serde_json::json!({
        "claim_generator_info": [{"name": "verif-c14", "version": "1"}],
        "title": "c14",
        "assertions": []
    });
    let mut b = Builder::from_context(ctx).with_definition(def.to_string()).map_err(|e| format!("definition: {e}"))?;
    b.set_intent(BuilderIntent::Create(DigitalSourceType::Empty));
    Ok(b)
}

/// Content of the first content box of the JUMBF superbox whose description label satisfies `want`.
fn jumbf_find(buf: &[u8], want: &dyn Fn(&str) -> bool) -> Option<Vec<u8>> {
    fn boxes(buf: &[u8]) -> Vec<(&[u8], &[u8])> {
        // (type, payload)
        let mut out = vec![];
        let mut p = 0usize;
        while p + 8 <= buf.len() {
            let size = u32::from_be_bytes([buf[p], buf[p + 1], buf[p + 2], buf[p + 3]]) as usize;
            let size = if size == 0 { buf.len() - p } else { size };
            if size < 8 || p + size > buf.len() {
                break;
            }
            out.push((&buf[p + 4..p + 8], &buf[p + 8..p + size]));
            p += size;
        }
        out
    }
    for (t, payload) in boxes(buf) {
        if t != b"jumb" {
            continue;
        }
        let kids = boxes(payload);
        if let Some((b"jumd", d)) = kids.first().map(|(t, d)| (<&[u8; 4]>::try_from(*t).unwrap(), *d)) {
            if d.len() > 17 {
                let rest = &d[17..];
                let end = rest.iter().position(|b| *b == 0).unwrap_or(rest.len());
                let label = String::from_utf8_lossy(&rest[..end]).to_string();
                if want(&label) {
                    return kids.get(1).map(|(_, c)| c.to_vec());
                }
            }
        }
        if let Some(v) = jumbf_find(payload, want) {
            return Some(v);
        }
    }
    None
}

fn is_pad_label(l: &Label) -> bool {
    matches!(l, Label::Text(t) if t == "pad" || t == "pad2")
}

fn strip_pads(s: &CoseSign1) -> CoseSign1 {
    let mut c = s.clone();
    c.unprotected.rest.retain(|(l, _)| !is_pad_label(l));
    c
}

fn load_fixture(name: &str) -> Result<Fixture, String> {
    let alg = alg_of(name).ok_or("unknown alg")?;
    let cert_pem = std::fs::read(format!("{CERT_DIR}/{name}.pub")).map_err(|e| format!("{name}.pub: {e}"))?;
    let key_pem = std::fs::read(format!("{CERT_DIR}/{name}.pem")).map_err(|e| format!("{name}.pem: {e}"))?;
    let mut fx = Fixture {
        name: name.to_string(),
        alg: Some(alg),
        cert_pem,
        key_pem,
        unpadded: vec![],
        claim: vec![],
        first_padded_ok: None,
    };
    let signer = make_signer(&fx)?;
    let default_reserve = signer.reserve_size();
    let src = std::fs::read(SOURCE_JPEG).map_err(|e| format!("{SOURCE_JPEG}: {e}"))?;
    let mut dst = Cursor::new(Vec::new());
    let manifest = new_builder()?
        .sign(&signer, "image/jpeg", &mut Cursor::new(src), &mut dst)
        .map_err(|e| format!("{name}: signing with the default reserve failed: {e}"))?;
    let sig = jumbf_find(&manifest, &|l| l == "c2pa.signature").ok_or("no c2pa.signature box")?;
    let claim = jumbf_find(&manifest, &|l| l == "c2pa.claim.v2" || l == "c2pa.claim").ok_or("no claim box")?;
    if sig.len() != default_reserve {
        return Err(format!("{name}: signature box holds {} bytes, default reserve is {default_reserve}", sig.len()));
    }
    let parsed = CoseSign1::from_tagged_slice(&sig).map_err(|e| format!("{name}: SDK signature does not parse: {e}"))?;
    let unpadded = strip_pads(&parsed).to_tagged_vec().map_err(|e| format!("{e}"))?;
    // cross-check the reconstruction: padding the stripped structure to the default reserve through the
    // hook must reproduce the SDK's own signature box byte for byte.
    match c2pa::verif_hooks::pad_cose_sig(&unpadded, default_reserve) {
        Ok(v) if v == sig => {}
        Ok(_) => return Err(format!("{name}: re-padding the stripped COSE does not reproduce the SDK bytes")),
        Err(e) => return Err(format!("{name}: re-padding the stripped COSE to the default reserve fails: {e}")),
    }
    fx.unpadded = unpadded;
    fx.claim = claim;
    Ok(fx)
}

/// Hook-level variants with the other unprotected-header entries the SDK can emit (time stamp, OCSP):
/// same protected header / signature, extra `sigTst2` / `rVals` entries of realistic size placed where
/// `build_unprotected_header` puts them (before the pad entry).
fn synthetic(base: &Fixture, tst: Option<usize>, ocsp: Option<usize>) -> Result<Fixture, String> {
    let mut s = CoseSign1::from_tagged_slice(&base.unpadded).map_err(|e| format!("{e}"))?;
    let mut name = base.name.clone();
    if let Some(n) = tst {
        let tok = Value::Map(vec![(Value::Text("val".into()), Value::Bytes(vec![0x30; n]))]);
        let v = Value::Map(vec![(Value::Text("tstTokens".into()), Value::Array(vec![tok]))]);
        s.unprotected.rest.push((Label::Text("sigTst2".into()), v));
        name.push_str(&format!("+sigTst2_{n}"));
    }
    if let Some(n) = ocsp {
        let v = Value::Map(vec![(Value::Text("ocspVals".into()), Value::Array(vec![Value::Bytes(vec![0x30; n])]))]);
        s.unprotected.rest.push((Label::Text("rVals".into()), v));
        name.push_str(&format!("+rVals_{n}"));
    }
    Ok(Fixture {
        name,
        alg: None,
        cert_pem: vec![],
        key_pem: vec![],
        unpadded: s.to_tagged_vec().map_err(|e| format!("{e}"))?,
        claim: vec![],
        first_padded_ok: None,
    })
}

// ------------------------------------------------------------------------------------------------
// oracle for a padded COSE
// ------------------------------------------------------------------------------------------------

/// `out` must be `reference` plus zero-filled pad entries, exactly `want_len` bytes long.
/// `same_signature`: compare the signature bytes too (hook level); otherwise only their length (a fresh
/// ECDSA/PSS signature differs each time).
fn judge_padded(reference: &[u8], out: &[u8], want_len: usize, same_signature: bool) -> CaseResult {
    if out.len() != want_len {
        return Err(Fail::new(
            "C14:pad-wrong-length",
            format!("reserved {want_len} bytes, result has {} (unpadded {})", out.len(), reference.len()),
        ));
    }
    let r = CoseSign1::from_tagged_slice(reference).map_err(|e| Fail::new("C14:harness-reference-unparsable", format!("{e}")))?;
    let o = match CoseSign1::from_tagged_slice(out) {
        Ok(o) => o,
        Err(e) => return Err(Fail::new("C14:pad-result-unparsable", format!("padded result is not a tagged COSE_Sign1: {e}"))),
    };
    let mut pads = 0;
    let mut pad2s = 0;
    for (l, v) in &o.unprotected.rest {
        if !is_pad_label(l) {
            continue;
        }
        match l {
            Label::Text(t) if t == "pad" => pads += 1,
            _ => pad2s += 1,
        }
        match v {
            Value::Bytes(b) => {
                if b.iter().any(|x| *x != 0) {
                    return Err(Fail::new("C14:pad-nonzero", format!("{l:?} holds non-zero bytes")));
                }
            }
            other => {
                return Err(Fail::new("C14:pad-malformed", format!("{l:?} is not a byte string: {other:?}")));
            }
        }
    }
    if pads > 1 || pad2s > 1 {
        return Err(Fail::new("C14:pad-malformed", format!("{pads} pad and {pad2s} pad2 entries")));
    }
    let stripped = strip_pads(&o);
    let rp = r.protected.clone().cbor_bstr().map_err(|e| Fail::new("C14:harness-reference-unparsable", format!("{e}")))?;
    let op = match stripped.protected.clone().cbor_bstr() {
        Ok(v) => v,
        Err(e) => return Err(Fail::new("C14:pad-result-unparsable", format!("{e}"))),
    };
    if rp != op || r.protected.header != stripped.protected.header {
        return Err(Fail::new("C14:pad-changed-cose", "protected header (alg / x5chain) changed by padding"));
    }
    if r.payload != stripped.payload {
        return Err(Fail::new("C14:pad-changed-cose", "payload changed by padding"));
    }
    if r.unprotected != stripped.unprotected {
        return Err(Fail::new("C14:pad-changed-cose", "unprotected header entries other than pad/pad2 changed"));
    }
    if same_signature {
        if r.signature != stripped.signature {
            return Err(Fail::new("C14:pad-changed-cose", "signature bytes changed by padding"));
        }
        match stripped.to_tagged_vec() {
            Ok(v) if v == reference => {}
            _ => return Err(Fail::new("C14:pad-changed-cose", "result minus pad entries does not re-serialise to the input")),
        }
        if want_len == reference.len() && out != reference {
            return Err(Fail::new("C14:pad-changed-cose", "reserve equals the unpadded size but the bytes differ"));
        }
    } else if r.signature.len() != stripped.signature.len() {
        return Err(Fail::new("C14:pad-changed-cose", "signature length differs from the reference signature"));
    }
    Ok(())
}

// ------------------------------------------------------------------------------------------------
// candidate repair of pad_cose_sig (used only with VERIF_SELFTEST=patched: shows that the oracle accepts a
// correct padding routine for every slack >= 5 and documents the suggested fix; never used for a verdict
// about the SDK)
// ------------------------------------------------------------------------------------------------

/// Encoded size of a CBOR byte string holding `n` bytes.
fn bstr_size(n: usize) -> usize {
    n + match n {
        0..=23 => 1,
        24..=255 => 2,
        256..=65_535 => 3,
        65_536..=0xffff_ffff => 5,
        _ => 9,
    }
}

/// Length n of the byte string whose encoding occupies exactly `room` bytes, if there is one.
fn exact_bstr(room: usize) -> Option<usize> {
    [1usize, 2, 3, 5, 9].iter().filter_map(|h| room.checked_sub(*h)).find(|n| bstr_size(*n) == room)
}

fn candidate_pad_cose_sig(tagged: &[u8], end_size: usize) -> Result<Vec<u8>, String> {
    const PAD_ENTRY: usize = 1 + 3; // text header + "pad"
    const PAD2_ENTRY: usize = 1 + 4; // text header + "pad2"
    let sign1 = CoseSign1::from_tagged_slice(tagged).map_err(|e| format!("{e}"))?;
    let cur = sign1.clone().to_tagged_vec().map_err(|e| format!("{e}"))?;
    if cur.len() == end_size {
        return Ok(cur);
    }
    if cur.len() > end_size {
        return Err("BoxSizeTooSmall".into());
    }
    let slack = end_size - cur.len();
    // one entry when a byte string of exactly the right size exists, else an empty "pad" plus a "pad2"
    let pads: Vec<(&str, usize)> = if let Some(n) = slack.checked_sub(PAD_ENTRY).and_then(exact_bstr) {
        vec![("pad", n)]
    } else if let Some(n) = slack.checked_sub(PAD_ENTRY + 1 + PAD2_ENTRY).and_then(exact_bstr) {
        vec![("pad", 0), ("pad2", n)]
    } else {
        return Err("BoxSizeTooSmall".into()); // 1..4 spare bytes cannot be expressed
    };
    let mut padded = sign1;
    for (label, n) in pads {
        padded.unprotected.rest.push((Label::Text(label.to_string()), Value::Bytes(vec![0u8; n])));
    }
    let out = padded.to_tagged_vec().map_err(|e| format!("{e}"))?;
    if out.len() != end_size {
        return Err("BoxSizeTooSmall".into());
    }
    Ok(out)
}

fn pad_under_test(selftest: &str, tagged: &[u8], end_size: usize) -> Result<Vec<u8>, String> {
    if selftest == "patched" {
        candidate_pad_cose_sig(tagged, end_size)
    } else {
        c2pa::verif_hooks::pad_cose_sig(tagged, end_size)
    }
}

/// Optional self-test corruption of an SDK answer (sensitivity check of the oracle, VERIF_SELFTEST).
fn selftest_corrupt(mode: &str, v: &mut Vec<u8>, slack: i64) {
    match mode {
        // lose one byte of padding for large pads
        "len" if slack > 300 => {
            v.pop();
            // keep it parseable is not required: wrong length is detected first
        }
        // flip a pad byte
        "nonzero" if slack > 40 => {
            let n = v.len();
            // the pad entry is the last map entry before [payload, signature]; search backwards for a long zero run
            let mut i = n;
            let mut run = 0;
            while i > 0 {
                i -= 1;
                if v[i] == 0 {
                    run += 1;
                    if run >= 8 {
                        v[i + 3] = 1;
                        break;
                    }
                } else {
                    run = 0;
                }
            }
        }
        // flip the last signature byte
        "sig" if slack >= 0 => {
            if let Some(b) = v.last_mut() {
                *b ^= 0x55;
            }
        }
        _ => {}
    }
}

// ------------------------------------------------------------------------------------------------
// cases
// ------------------------------------------------------------------------------------------------

#[derive(Clone, Debug, Serialize, Deserialize, PartialEq, Eq, Hash)]
struct SizeCase {
    /// fixture name (signing alg, optionally "+sigTst2_n" / "+rVals_n" for synthetic hook-level variants)
    fx: String,
    /// reserve − unpadded size
    slack: i64,
}

#[derive(Clone, Debug, Serialize, Deserialize, PartialEq, Eq, Hash)]
struct DhCase {
    /// 0: sha256 no exclusions, 1: sha256 one small exclusion, 2: sha384 one 5-byte-offset exclusion,
    /// 3: sha512 three exclusions, 4: sha256 typical JPEG exclusion (the placeholder shape of the SDK)
    shape: u8,
    /// target − unpadded serialised size
    delta: i64,
}

struct World {
    fixtures: Vec<Fixture>,
    selftest: String,
}

impl World {
    fn fx(&self, name: &str) -> Result<&Fixture, Fail> {
        self.fixtures
            .iter()
            .find(|f| f.name == name)
            .ok_or_else(|| Fail::new("C14:harness-unknown-fixture", format!("fixture {name} is not loaded in this tier")))
    }
}

fn size_failure(layer: &str, fx: &Fixture, slack: i64, err: &str) -> Fail {
    let mono = match fx.first_padded_ok {
        Some(r0) if slack > r0 => format!("although slack 0 and the smaller padded slack {r0} succeed (non-monotone)"),
        Some(r0) => format!("although slack 0 succeeds (first padded slack that works: {r0})"),
        None => "although slack 0 succeeds (no padded slack works at all)".to_string(),
    };
    Fail::new(
        format!("C14:pad-fails-{}", slack_class(slack)),
        format!(
            "{layer} [{}]: reserve = unpadded {} + {slack} fails with {err} {mono}",
            fx.name,
            fx.u()
        ),
    )
}

fn count_case(run: &Run, layer: &str, c: &SizeCase) {
    run.count(&format!("{layer}:{}", slack_class(c.slack)));
    if near_boundary(c.slack) {
        run.nontrivial(&(layer, c));
    }
}

fn is_size_error_text(e: &str) -> bool {
    e.contains("BoxSizeTooSmall") || e.contains("CoseSigboxTooSmall") || e.contains("too big")
}

/// (a) the private padding routine through the hook.
fn judge_hook(run: &Run, w: &World, c: &SizeCase) -> CaseResult {
    let fx = w.fx(&c.fx)?;
    count_case(run, "hook", c);
    let end = fx.u() as i64 + c.slack;
    if end < 0 {
        return Ok(());
    }
    let end = end as usize;
    let res = match vh::catch(|| pad_under_test(&w.selftest, &fx.unpadded, end)) {
        Ok(r) => r,
        Err(p) => {
            return Err(Fail::new(
                format!("C14:pad-panic@{}", vh::core::panic_site(&p)),
                format!("pad_cose_sig [{}] unpadded {} slack {} panics: {p}", fx.name, fx.u(), c.slack),
            ))
        }
    };
    // self-test: pretend the SDK reports a size error inside the interval that works on the pinned tree
    let res = if w.selftest == "midfail" && c.slack == 1_000 { Err("BoxSizeTooSmall (self-test)".to_string()) } else { res };
    match res {
        Ok(mut v) => {
            run.count("hook:ok");
            if c.slack < 0 {
                return Err(Fail::new(
                    "C14:undersize-accepted",
                    format!("pad_cose_sig [{}] returned Ok for end_size {end} < unpadded {}", fx.name, fx.u()),
                ));
            }
            selftest_corrupt(&w.selftest, &mut v, c.slack);
            judge_padded(&fx.unpadded, &v, end, true)
        }
        Err(e) => {
            if c.slack < 0 {
                run.count("hook:undersize-rejected");
                return Ok(());
            }
            run.count("hook:err");
            if let Some(r0) = fx.first_padded_ok {
                if c.slack > r0 {
                    run.count("hook:err-above-a-padded-success");
                }
            }
            if is_size_error_text(&e) {
                Err(size_failure("pad_cose_sig", fx, c.slack, &e))
            } else {
                Err(Fail::new(
                    format!("C14:pad-other-error-{}", slack_class(c.slack)),
                    format!("pad_cose_sig [{}] slack {} fails with a non-size error: {e}", fx.name, c.slack),
                ))
            }
        }
    }
}

/// (a') the public COSE signing entry with an explicit box size.
fn judge_sign_claim(run: &Run, w: &World, c: &SizeCase) -> CaseResult {
    let fx = w.fx(&c.fx)?;
    count_case(run, "sign_claim", c);
    let signer = make_signer(fx).map_err(|e| Fail::new("C14:harness-signer", e))?;
    let end = fx.u() as i64 + c.slack;
    if end < 0 {
        return Ok(());
    }
    let end = end as usize;
    let ctx = Context::new();
    let res = match vh::catch(|| c2pa::cose_sign::sign_claim(&fx.claim, &signer, end, ctx.settings())) {
        Ok(r) => r,
        Err(p) => {
            return Err(Fail::new(
                format!("C14:pad-panic@{}", vh::core::panic_site(&p)),
                format!("sign_claim [{}] box_size = unpadded {} + {} panics: {p}", fx.name, fx.u(), c.slack),
            ))
        }
    };
    match res {
        Ok(mut v) => {
            run.count("sign_claim:ok");
            if c.slack < 0 {
                return Err(Fail::new(
                    "C14:undersize-accepted",
                    format!("sign_claim [{}] returned Ok for box_size {end} < unpadded {}", fx.name, fx.u()),
                ));
            }
            selftest_corrupt(&w.selftest, &mut v, c.slack);
            judge_padded(&fx.unpadded, &v, end, false)
        }
        Err(c2pa::Error::CoseSigboxTooSmall) => {
            if c.slack < 0 {
                run.count("sign_claim:undersize-rejected");
                return Ok(());
            }
            run.count("sign_claim:err");
            Err(size_failure("sign_claim", fx, c.slack, "CoseSigboxTooSmall"))
        }
        Err(e) => {
            if c.slack < 0 {
                run.count("sign_claim:undersize-rejected-other");
                return Ok(());
            }
            Err(Fail::new(
                format!("C14:sign-other-error-{}", slack_class(c.slack)),
                format!("sign_claim [{}] slack {} fails with {e:?}", fx.name, c.slack),
            ))
        }
    }
}

/// (b) end to end.
fn judge_builder(run: &Run, w: &World, src: &[u8], c: &SizeCase) -> CaseResult {
    let fx = w.fx(&c.fx)?;
    count_case(run, "builder", c);
    let inner = make_signer(fx).map_err(|e| Fail::new("C14:harness-signer", e))?;
    let reserve = fx.u() as i64 + c.slack;
    if reserve < 0 {
        return Ok(());
    }
    let reserve = reserve as usize;
    let signer = ReserveSigner { inner, reserve };
    let mut builder = new_builder().map_err(|e| Fail::new("C14:harness-builder", e))?;
    let mut dst = Cursor::new(Vec::new());
    let res = match vh::catch(|| builder.sign(&signer, "image/jpeg", &mut Cursor::new(src), &mut dst)) {
        Ok(r) => r,
        Err(p) => {
            return Err(Fail::new(
                format!("C14:pad-panic@{}", vh::core::panic_site(&p)),
                format!("Builder::sign [{}] reserve = unpadded {} + {} panics: {p}", fx.name, fx.u(), c.slack),
            ))
        }
    };
    match res {
        Ok(manifest) => {
            run.count("builder:ok");
            if c.slack < 0 {
                return Err(Fail::new(
                    "C14:undersize-accepted",
                    format!("Builder::sign [{}] succeeded with reserve {reserve} < unpadded {}", fx.name, fx.u()),
                ));
            }
            let Some(mut sig) = jumbf_find(&manifest, &|l| l == "c2pa.signature") else {
                return Err(Fail::new("C14:e2e-no-signature-box", "signed manifest has no c2pa.signature box"));
            };
            selftest_corrupt(&w.selftest, &mut sig, c.slack);
            judge_padded(&fx.unpadded, &sig, reserve, false)?;
            dst.set_position(0);
            let reader = match vh::catch(|| Reader::from_context(Context::new()).with_stream("image/jpeg", &mut dst)) {
                Ok(Ok(r)) => r,
                Ok(Err(e)) => {
                    return Err(Fail::new("C14:e2e-unreadable", format!("[{}] slack {}: signed asset does not read back: {e:?}", fx.name, c.slack)))
                }
                Err(p) => return Err(Fail::new(format!("C14:pad-panic@{}", vh::core::panic_site(&p)), format!("Reader panics: {p}"))),
            };
            match reader.validation_state() {
                ValidationState::Valid | ValidationState::Trusted => Ok(()),
                ValidationState::Invalid => Err(Fail::new(
                    "C14:e2e-not-valid",
                    format!(
                        "[{}] slack {}: signed asset reads back Invalid: {:?}",
                        fx.name,
                        c.slack,
                        reader.validation_status().map(|l| l.iter().map(|s| s.code().to_string()).collect::<Vec<_>>())
                    ),
                )),
            }
        }
        Err(c2pa::Error::CoseSigboxTooSmall) => {
            if c.slack < 0 {
                run.count("builder:undersize-rejected");
                return Ok(());
            }
            run.count("builder:err");
            Err(size_failure("Builder::sign", fx, c.slack, "CoseSigboxTooSmall"))
        }
        Err(c2pa::Error::JumbfCreationError) if c.slack >= 0 => Err(Fail::new(
            format!("C14:e2e-jumbf-size-{}", slack_class(c.slack)),
            format!("Builder::sign [{}] slack {} fails with JumbfCreationError (re-serialised size mismatch)", fx.name, c.slack),
        )),
        Err(e) => {
            if c.slack < 0 {
                run.count("builder:undersize-rejected-other");
                return Ok(());
            }
            Err(Fail::new(
                format!("C14:sign-other-error-{}", slack_class(c.slack)),
                format!("Builder::sign [{}] slack {} fails with {e:?}", fx.name, c.slack),
            ))
        }
    }
}

// ---- (c) DataHash ----------------------------------------------------------------------------------

fn dh_shape(shape: u8) -> DataHash {
    let (alg, hl) = match shape {
        2 => ("sha384", 48),
        3 => ("sha512", 64),
        _ => ("sha256", 32),
    };
    let mut dh = DataHash::new("jumbf manifest", alg);
    dh.set_hash((0..hl).map(|i| (i * 7 + 1) as u8).collect());
    match shape {
        1 => dh.add_exclusion(HashRange::new(2, 20)),
        2 => dh.add_exclusion(HashRange::new(0x1_2345_6789, 0x10_0000)),
        3 => {
            dh.add_exclusion(HashRange::new(20, 300));
            dh.add_exclusion(HashRange::new(70_000, 65_536));
            dh.add_exclusion(HashRange::new(5_000_000_000, 23));
        }
        4 => dh.add_exclusion(HashRange::new(20, 14_170)),
        _ => {}
    }
    dh
}

fn dh_len(dh: &DataHash) -> Result<usize, Fail> {
    c2pa_cbor::to_vec(dh).map(|v| v.len()).map_err(|e| Fail::new("C14:harness-datahash-cbor", format!("{e}")))
}

fn dh_class(d: i64) -> &'static str {
    match d {
        i64::MIN..=-1 => "undersize",
        0 => "d0",
        1..=23 => "d1..23",
        24 => "d24(gap)",
        25..=256 => "d25..256",
        257 => "d257(gap)",
        258..=65_537 => "d258..65537",
        65_538..=65_539 => "d65538..65539(gap)",
        _ => "d>=65540",
    }
}

fn judge_datahash(run: &Run, selftest: &str, c: &DhCase) -> CaseResult {
    let mut dh = dh_shape(c.shape);
    let t = dh_len(&dh)? as i64;
    let target = t + c.delta;
    run.count(&format!("datahash:{}", dh_class(c.delta)));
    if (-2..=2).contains(&c.delta) || (20..=30).contains(&c.delta) || (250..=262).contains(&c.delta) || (65_530..=65_545).contains(&c.delta) {
        run.nontrivial(&("dh", c));
    }
    if target < 0 {
        return Ok(());
    }
    let target = target as usize;
    let res = match vh::catch(|| dh.pad_to_size(target)) {
        Ok(r) => r,
        Err(p) => {
            return Err(Fail::new(
                format!("C14:datahash-pad-panic@{}", vh::core::panic_site(&p)),
                format!("DataHash::pad_to_size shape {} target = unpadded {t} + {} panics: {p}", c.shape, c.delta),
            ))
        }
    };
    match res {
        Ok(()) => {
            if c.delta < 0 {
                return Err(Fail::new(
                    "C14:datahash-undersize-accepted",
                    format!("pad_to_size({target}) returned Ok although the unpadded assertion has {t} bytes"),
                ));
            }
            if selftest == "dh" && c.delta > 100 {
                dh.pad.pop();
            }
            let bytes = c2pa_cbor::to_vec(&dh).map_err(|e| Fail::new("C14:harness-datahash-cbor", format!("{e}")))?;
            if bytes.len() != target {
                return Err(Fail::new(
                    "C14:datahash-wrong-length",
                    format!("shape {} target {target} (unpadded {t} + {}): serialised assertion has {} bytes", c.shape, c.delta, bytes.len()),
                ));
            }
            if dh.pad.iter().any(|b| *b != 0) || dh.pad2.as_ref().is_some_and(|p| p.iter().any(|b| *b != 0)) {
                return Err(Fail::new("C14:datahash-pad-nonzero", "padding holds non-zero bytes"));
            }
            let fresh = dh_shape(c.shape);
            if dh.hash != fresh.hash || dh.exclusions != fresh.exclusions || dh.name != fresh.name || dh.alg != fresh.alg {
                return Err(Fail::new("C14:datahash-changed", "pad_to_size changed hash / exclusions / name / alg"));
            }
            match c2pa_cbor::from_slice::<DataHash>(&bytes) {
                Ok(back) => {
                    if back.hash != fresh.hash || back.exclusions != fresh.exclusions || back.pad != dh.pad || back.pad2 != dh.pad2 {
                        return Err(Fail::new("C14:datahash-changed", "padded assertion does not decode to the same DataHash"));
                    }
                }
                Err(e) => return Err(Fail::new("C14:datahash-changed", format!("padded assertion does not decode: {e}"))),
            }
            if dh.pad2.is_some() {
                run.count("datahash:used-pad2");
            }
            Ok(())
        }
        Err(e) => {
            if c.delta < 0 {
                return Ok(());
            }
            Err(Fail::new(
                "C14:datahash-pad-fails",
                format!("DataHash::pad_to_size shape {} target = unpadded {t} + {} fails: {e:?}", c.shape, c.delta),
            ))
        }
    }
}

// ------------------------------------------------------------------------------------------------
// case lists
// ------------------------------------------------------------------------------------------------

/// Dense strata around the unpadded size and the three header-width boundaries, a few plain values, and
/// `randoms` seeded random slacks (a third each: small, medium, beyond 64 KiB).
fn strat_slacks(rng: &mut SplitMix64, randoms: usize) -> Vec<i64> {
    let mut v: Vec<i64> = vec![];
    v.extend(-8..=40);
    v.extend(250..=270);
    v.extend(65_530..=65_560);
    v.extend([100, 1_000, 10_000, 65_000, 66_000, MAX_SLACK]);
    for i in 0..randoms {
        // a third each: small, medium, beyond the 64 KiB boundary
        let s = match i % 3 {
            0 => rng.range(1, 300) as i64,
            1 => rng.range(301, 65_500) as i64,
            _ => rng.range(65_500, MAX_SLACK as u64) as i64,
        };
        v.push(s);
    }
    let mut seen = std::collections::BTreeSet::new();
    v.retain(|s| seen.insert(*s));
    v
}

fn main() {
    vh::quiet_panics();
    let run = Run::from_args("C14", "exploration");
    run.set_rule("fixtures = the tagged COSE_Sign1 the SDK produced when signing a JPEG with each fixture credential (es256/384/512, ps256/384/512, ed25519), pad entries removed (re-padding through the hook reproduces the SDK bytes), plus hook-level variants carrying sigTst2 / rVals entries; (a) every end size U-8..=U+70000 through the private pad_cose_sig; (a') cose_sign::sign_claim and (b) Builder::sign with a Signer reporting reserve_size = U+slack for slacks stratified around 0, 5, 29, 262/263, 65543 plus random ones; (c) DataHash::pad_to_size for every target T-2..=T+300 and around T+65536 over 5 assertion shapes. Non-trivial = slack within 8 bytes of U or of a point where the pad byte-string header changes width (24/256/65536).");
    run.assume("U is recovered by deleting the pad/pad2 entries from an SDK-produced signature and re-serialising with coset 0.4.2 (the crate the SDK uses); checked per fixture by re-padding to the SDK's default reserve and comparing bytes");
    run.assume("the COSE_Sign1 size does not depend on the claim (detached payload), so U of the fixture claim is U of every Builder::sign with the same credential");
    run.assume("DataHash serialised size = c2pa_cbor::to_vec(&DataHash).len(), which is what DataHash::to_assertion() stores");
    let selftest = std::env::var("VERIF_SELFTEST").unwrap_or_default();
    let threads = std::thread::available_parallelism().map(|n| n.get()).unwrap_or(4).min(16);
    let mut rng = SplitMix64::new(run.seed ^ 0xC14);

    // ---- fixtures ---------------------------------------------------------------------------------
    // All seven credentials are always loaded (a replay may name any of them); the tier only decides which
    // synthetic hook-level variants are swept.
    let all_algs = ["es256", "ed25519", "ps256", "es384", "es512", "ps384", "ps512"];
    let mut fixtures = vec![];
    for a in &all_algs {
        match load_fixture(a) {
            Ok(f) => fixtures.push(f),
            Err(e) => {
                run.inconclusive(format!("fixture {a}: {e}"));
                run.finish();
            }
        }
    }
    // (base, sigTst2 bytes, rVals bytes, swept in the quick tier)
    let mut variants: Vec<(&str, Option<usize>, Option<usize>, bool)> = vec![
        ("es256", Some(5_500), None, true),
        ("ps512", Some(5_500), Some(1_800), true),
        ("ed25519", Some(60_000), None, false),
        ("es384", Some(9_000), Some(3_000), false),
    ];
    for a in &all_algs {
        variants.push((a, Some(4_000), None, false));
        variants.push((a, None, Some(1_800), false));
    }
    let full = !run.quick() || run.replay.is_some();
    let mut synth = vec![];
    for (base, tst, ocsp, quick) in variants {
        if quick || full {
            if let Some(b) = fixtures.iter().find(|f| f.name == base) {
                synth.push(synthetic(b, tst, ocsp));
            }
        }
    }
    for s in synth {
        match s {
            Ok(f) => fixtures.push(f),
            Err(e) => {
                run.inconclusive(format!("synthetic fixture: {e}"));
                run.finish();
            }
        }
    }
    for f in fixtures.iter_mut() {
        // smallest padded reserve that works (for the monotonicity wording / class), and the exact-size sanity
        f.first_padded_ok = (1..=MAX_SLACK).find(|s| {
            matches!(vh::catch(|| pad_under_test(&selftest, &f.unpadded, f.u() + *s as usize)), Ok(Ok(_)))
        });
    }
    run.extra(
        "fixtures",
        serde_json::json!(fixtures
            .iter()
            .map(|f| serde_json::json!({"name": f.name, "unpadded_len": f.u(), "first_padded_slack_ok": f.first_padded_ok}))
            .collect::<Vec<_>>()),
    );
    let world = World { fixtures, selftest: selftest.clone() };
    // wall-clock per phase is recorded for the evidence file only (never used in a verdict)
    let t0 = std::time::Instant::now();
    let phase = |name: &str| run.extra(&format!("seconds_until_end_of_{name}"), serde_json::json!(t0.elapsed().as_secs_f64()));

    // ---- (a) hook sweep: every size ------------------------------------------------------------------
    let mut cases = vec![];
    // small slacks first so the first failure per signature is the smallest one
    for s in -8..=MAX_SLACK {
        for f in &world.fixtures {
            cases.push(SizeCase { fx: f.name.clone(), slack: s });
        }
    }
    run.drive_enum_par("pad_sweep", cases, threads, |c| judge_hook(&run, &world, c));
    run.set_exhaustive(false);
    phase("pad_sweep");
    run.note("pad_sweep enumerates every end size U-8..=U+70000 for each loaded fixture (complete over sizes, not over COSE structures)");

    // ---- (a') sign_claim ---------------------------------------------------------------------------------
    // quick: dense strata + 600 random slacks per credential; thorough: every slack -8..=70000 for es256 and
    // ed25519, dense strata + 2000 random slacks for the other five.
    let signing: Vec<&Fixture> = world.fixtures.iter().filter(|f| f.alg.is_some()).collect();
    let mut cases = vec![];
    for f in &signing {
        // (signing and the verification inside sign_claim run under the SDK's global OpenSSL lock, ~2 ms each,
        // so this layer does not parallelise)
        let slacks: Vec<i64> = if run.quick() {
            strat_slacks(&mut rng, 600)
        } else if f.name == "es256" || f.name == "ed25519" {
            (-8..=MAX_SLACK).collect()
        } else {
            strat_slacks(&mut rng, 2_000)
        };
        for s in slacks {
            cases.push(SizeCase { fx: f.name.clone(), slack: s });
        }
    }
    cases.sort_by_key(|c| c.slack);
    run.drive_enum_par("sign_claim", cases, threads, |c| judge_sign_claim(&run, &world, c));
    phase("sign_claim");

    // ---- (b) Builder::sign ---------------------------------------------------------------------------------
    let src = match std::fs::read(SOURCE_JPEG) {
        Ok(s) => s,
        Err(e) => {
            run.inconclusive(format!("{SOURCE_JPEG}: {e}"));
            run.finish();
        }
    };
    let mut cases = vec![];
    for f in &signing {
        let slacks = if run.quick() {
            strat_slacks(&mut rng, 60)
        } else {
            let mut v: Vec<i64> = (-8..=1_200).collect();
            v.extend(65_000..=66_200);
            v.extend(strat_slacks(&mut rng, 300));
            let mut seen = std::collections::BTreeSet::new();
            v.retain(|s| seen.insert(*s));
            v
        };
        for s in slacks {
            cases.push(SizeCase { fx: f.name.clone(), slack: s });
        }
    }
    cases.sort_by_key(|c| c.slack);
    run.drive_enum_par("builder_sign", cases, threads, |c| judge_builder(&run, &world, &src, c));
    phase("builder_sign");

    // ---- (c) DataHash::pad_to_size ----------------------------------------------------------------------------
    let mut cases = vec![];
    let shapes: Vec<u8> = vec![0, 1, 2, 3, 4];
    for d in -2..=300 {
        for shape in &shapes {
            cases.push(DhCase { shape: *shape, delta: d });
        }
    }
    // the routine is quadratic in the pad length (one re-serialisation per added byte): stratify the large targets
    let mut large: Vec<(u8, i64)> = vec![];
    if run.quick() {
        for d in 65_526..=65_546 {
            large.push((0, d));
            large.push((4, d));
        }
        for (i, d) in [1_000, 10_000, 30_000, MAX_SLACK].iter().enumerate() {
            large.push((shapes[i % shapes.len()], *d));
        }
        for i in 0..12 {
            large.push((shapes[i % shapes.len()], rng.range(301, MAX_SLACK as u64) as i64));
        }
    } else {
        // every target up to +70000 for the shape the SDK itself builds (one JPEG exclusion) ...
        for d in 301..=MAX_SLACK {
            large.push((4, d));
        }
        // ... and strata + random targets for the other shapes
        for shape in shapes.iter().filter(|s| **s != 4) {
            for d in 65_456..=65_616 {
                large.push((*shape, d));
            }
            for d in [1_000, 10_000, 30_000, MAX_SLACK - 1, MAX_SLACK] {
                large.push((*shape, d));
            }
            for _ in 0..150 {
                large.push((*shape, rng.range(301, MAX_SLACK as u64) as i64));
            }
        }
    }
    large.sort_by_key(|x| x.1);
    for (shape, d) in large {
        cases.push(DhCase { shape, delta: d });
    }
    run.drive_enum_par("datahash_pad", cases, threads, |c| judge_datahash(&run, &selftest, c));
    phase("datahash_pad");

    run.finish();
}
