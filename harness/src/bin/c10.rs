//! C10 helper (the check itself is `/verif/checks/c10.sh` + the cargo-fuzz project `/verif/harness/fuzz`).
//!
//! `c10 mkcorpus <dir>` regenerates the committed seed corpus `/verif/corpus/<target>/` deterministically:
//! minimised fixtures (<= 100 KB), synthesised assets of every container kind (plain, with a fake store, with a
//! real signed store, signed by the SDK), bare manifest stores (extracted from signed fixtures and from stores
//! signed here: single, ingredient chain, compressed, v1, several algorithms), builder / ingredient archives,
//! and structured knob strings for the structure-aware targets. File names are `<what>-<sha1 prefix>`.
//!
//! Input layouts (must match `fuzz/fuzz_targets/*.rs`):
//!   fuzz_read        [fmt] asset
//!   fuzz_store       store
//!   fuzz_sidecar     [fmt] [len:3 LE] manifest asset
//!   fuzz_ingredient  [fmt] [opts: 1 componentOf, 2 sign, 4 thumbnails] asset
//!   fuzz_archive     [api] archive
//!   fuzz_write       [fmt] [store_len:2 LE] [seed] asset
//!   fuzz_struct      knobs (Unstructured)
//!   fuzz_store_mut   knobs (Unstructured)
//!   fuzz_store_rt    store

use std::{collections::BTreeSet, io::Cursor, path::Path};

use c2pa::{Builder, BuilderIntent, DigitalSourceType, Reader};
use serde_json::json;
use vh::{assets, rng::SplitMix64, sdk};

const MAX_FILE: usize = 100 * 1024;

fn formats() -> Vec<String> {
    let mut v = Reader::supported_mime_types();
    v.sort();
    v.dedup();
    v
}

fn fmt_byte(fmts: &[String], mime: &str) -> u8 {
    fmts.iter().position(|f| f == mime).unwrap_or_else(|| panic!("format {mime} not supported")) as u8
}

struct Out {
    root: String,
    written: BTreeSet<String>,
    bytes: usize,
}

impl Out {
    fn put(&mut self, target: &str, what: &str, data: &[u8]) {
        if data.len() > MAX_FILE + 8 {
            eprintln!("skip {target}/{what}: {} bytes", data.len());
            return;
        }
        let h = format!("{:016x}", vh::digest(&data.to_vec()));
        let dir = format!("{}/{target}", self.root);
        std::fs::create_dir_all(&dir).unwrap();
        let name: String = what.chars().map(|c| if c.is_ascii_alphanumeric() || c == '-' || c == '.' { c } else { '_' }).collect();
        let path = format!("{dir}/{name}-{}", &h[..10]);
        if self.written.insert(path.clone()) {
            std::fs::write(&path, data).unwrap();
            self.bytes += data.len();
        }
    }
}

fn ext_mime(name: &str) -> Option<&'static str> {
    let ext = name.rsplit('.').next()?.to_ascii_lowercase();
    Some(match ext.as_str() {
        "jpg" | "jpeg" => "image/jpeg",
        "png" => "image/png",
        "gif" => "image/gif",
        "webp" => "image/webp",
        "wav" => "audio/wav",
        "avi" => "video/avi",
        "tif" | "tiff" => "image/tiff",
        "dng" => "image/x-adobe-dng",
        "svg" => "image/svg+xml",
        "mp3" => "audio/mpeg",
        "flac" => "audio/flac",
        "jxl" => "image/jxl",
        "mp4" => "video/mp4",
        "m4s" => "video/mp4",
        "mov" => "video/quicktime",
        "m4a" => "audio/mp4",
        "avif" => "image/avif",
        "heic" => "image/heic",
        "heif" => "image/heif",
        "pdf" => "application/pdf",
        "c2pa" => "application/c2pa",
        _ => return None,
    })
}

fn with_fmt(fmts: &[String], mime: &str, body: &[u8]) -> Vec<u8> {
    let mut v = vec![fmt_byte(fmts, mime)];
    v.extend_from_slice(body);
    v
}

fn sidecar_input(fmts: &[String], mime: &str, manifest: &[u8], asset: &[u8]) -> Vec<u8> {
    let mut v = vec![fmt_byte(fmts, mime)];
    let l = manifest.len() as u32;
    v.extend_from_slice(&l.to_le_bytes()[..3]);
    v.extend_from_slice(manifest);
    v.extend_from_slice(asset);
    v
}

fn def(title: &str, ver: u8) -> serde_json::Value {
    json!({
        "title": title,
        "claim_version": ver,
        "claim_generator_info": [{ "name": "verif-harness", "version": "0.1" }],
        "assertions": [
            { "label": "org.verif.note", "data": { "note": "hello", "n": 1, "list": [1, 2, 3] } },
        ]
    })
}

/// Sign `src` and return (signed asset, store bytes).
fn sign(
    settings: &serde_json::Value,
    d: &serde_json::Value,
    intent: Option<BuilderIntent>,
    alg: &str,
    mime: &str,
    src: &[u8],
    parent: Option<(&str, &[u8])>,
    thumb: bool,
) -> Result<(Vec<u8>, Vec<u8>), String> {
    let ctx = sdk::context_with(settings);
    let mut b = Builder::from_context(ctx).with_definition(d.to_string()).map_err(|e| e.to_string())?;
    if let Some(i) = intent {
        b.set_intent(i);
    }
    if let Some((pm, pb)) = parent {
        b.add_ingredient_from_stream(json!({"title": "parent", "relationship": "parentOf"}).to_string(), pm, &mut Cursor::new(pb.to_vec()))
            .map_err(|e| format!("ingredient: {e}"))?;
    }
    if thumb {
        let mut t = vec![0xff, 0xd8, 0xff, 0xe0];
        t.extend((0..120).map(|i| (i * 7 + 3) as u8));
        t.extend([0xff, 0xd9]);
        b.set_thumbnail("image/jpeg", &mut Cursor::new(t)).map_err(|e| e.to_string())?;
    }
    let signer = sdk::signer(alg);
    let mut out = Cursor::new(Vec::new());
    b.sign(signer.as_ref(), mime, &mut Cursor::new(src.to_vec()), &mut out).map_err(|e| format!("sign: {e}"))?;
    let asset = out.into_inner();
    let store = sdk::store_of(mime, &asset).map_err(|e| format!("store_of: {e}"))?;
    Ok((asset, store))
}

fn mkcorpus(root: &str) {
    let fmts = formats();
    let mut out = Out { root: root.to_string(), written: BTreeSet::new(), bytes: 0 };
    let create = || Some(BuilderIntent::Create(DigitalSourceType::Empty));
    let base = sdk::base_settings(true);
    let mut compressed = base.clone();
    sdk::merge(&mut compressed, &json!({"core": {"prefer_compress_manifests": true}}));

    // ---- stores signed here -------------------------------------------------------------------
    let png = assets::synth_default("png");
    let jpg = assets::synth_default("jpeg");
    let mut stores: Vec<(String, Vec<u8>)> = vec![];
    let mut signed_assets: Vec<(String, &'static str, Vec<u8>)> = vec![];
    let mut add_signed = |name: &str, r: Result<(Vec<u8>, Vec<u8>), String>, mime: &'static str, stores: &mut Vec<(String, Vec<u8>)>| match r {
        Ok((a, s)) => {
            signed_assets.push((name.to_string(), mime, a));
            stores.push((name.to_string(), s));
        }
        Err(e) => eprintln!("cannot build {name}: {e}"),
    };
    add_signed("single-ed25519", sign(&base, &def("single", 2), create(), "ed25519", "image/png", &png.bytes, None, false), "image/png", &mut stores);
    add_signed("single-es256-thumb", sign(&base, &def("thumb", 2), create(), "es256", "image/jpeg", &jpg.bytes, None, true), "image/jpeg", &mut stores);
    add_signed("single-ps256-v1", sign(&base, &def("v1", 1), None, "ps256", "image/jpeg", &jpg.bytes, None, false), "image/jpeg", &mut stores);
    add_signed("single-es384", sign(&base, &def("es384", 2), create(), "es384", "image/png", &png.bytes, None, false), "image/png", &mut stores);
    add_signed("single-es512", sign(&base, &def("es512", 2), create(), "es512", "image/png", &png.bytes, None, false), "image/png", &mut stores);
    add_signed("single-ps384", sign(&base, &def("ps384", 2), create(), "ps384", "image/png", &png.bytes, None, false), "image/png", &mut stores);
    add_signed("compressed-ed25519", sign(&compressed, &def("compressed", 2), create(), "ed25519", "image/png", &png.bytes, None, false), "image/png", &mut stores);
    // chain: B (edit) <- A
    if let Ok((a, _)) = sign(&base, &def("A", 2), create(), "ed25519", "image/jpeg", &jpg.bytes, None, false) {
        add_signed(
            "chain-ed25519",
            sign(&base, &def("B", 2), Some(BuilderIntent::Edit), "ed25519", "image/jpeg", &a, Some(("image/jpeg", &a)), false),
            "image/jpeg",
            &mut stores,
        );
    }
    for (name, s) in &stores {
        out.put("fuzz_store", &format!("store-{name}"), s);
        out.put("fuzz_store_rt", &format!("store-{name}"), s);
    }
    for (name, mime, a) in &signed_assets {
        out.put("fuzz_read", &format!("signed-{name}"), &with_fmt(&fmts, mime, a));
        let mut v = vec![fmt_byte(&fmts, mime), 0u8];
        v.extend_from_slice(a);
        out.put("fuzz_ingredient", &format!("signed-{name}"), &v);
    }
    let real_store = stores.first().map(|(_, s)| s.clone()).unwrap_or_default();

    // ---- stores extracted from the repository's signed fixtures ---------------------------------
    let fixture_dir = sdk::FIXTURES;
    let mut names: Vec<String> = std::fs::read_dir(fixture_dir).unwrap().filter_map(|e| e.ok()).filter(|e| e.path().is_file()).map(|e| e.file_name().to_string_lossy().to_string()).collect();
    names.sort();
    let mut fixture_stores: Vec<(String, Vec<u8>)> = vec![];
    for n in &names {
        let Some(mime) = ext_mime(n) else { continue };
        let data = std::fs::read(format!("{fixture_dir}/{n}")).unwrap();
        if data.is_empty() || data.len() > 5_000_000 {
            continue;
        }
        if mime == "application/c2pa" {
            if data.len() <= MAX_FILE {
                fixture_stores.push((n.clone(), data.clone()));
            }
            continue;
        }
        if let Ok(Ok(s)) = vh::catch(|| sdk::store_of(mime, &data)) {
            if s.len() <= MAX_FILE - 4096 {
                fixture_stores.push((n.clone(), s));
            }
        }
        if data.len() <= MAX_FILE {
            out.put("fuzz_read", &format!("fixture-{n}"), &with_fmt(&fmts, mime, &data));
            let mut v = vec![fmt_byte(&fmts, mime), 1u8];
            v.extend_from_slice(&data);
            out.put("fuzz_ingredient", &format!("fixture-{n}"), &v);
            // decodable images with automatic thumbnails on (opts bit 2)
            if matches!(mime, "image/png" | "image/jpeg" | "image/webp" | "image/gif" | "image/tiff") {
                let mut v = vec![fmt_byte(&fmts, mime), 5u8];
                v.extend_from_slice(&data);
                out.put("fuzz_ingredient", &format!("fixture-thumb-{n}"), &v);
            }
        }
    }
    for (n, s) in &fixture_stores {
        out.put("fuzz_store", &format!("fixture-store-{n}"), s);
        out.put("fuzz_store_rt", &format!("fixture-store-{n}"), s);
        // re-embedded into the simplest JPEG / PNG / MP4 (hash mismatch, full parse + validation path)
        for kind in ["jpeg", "png", "mp4"] {
            let (mime, _) = assets::kind_format(kind);
            let d = assets::synth_default(kind);
            if let Ok(Ok(a)) = vh::catch(|| c2pa::jumbf_io::save_jumbf_to_memory(mime, &d.bytes, s)) {
                if kind == "jpeg" || s.len() < 40_000 {
                    out.put("fuzz_read", &format!("reembed-{kind}-{n}"), &with_fmt(&fmts, mime, &a));
                }
            }
        }
        out.put("fuzz_sidecar", &format!("fixture-store-{n}"), &sidecar_input(&fmts, "image/jpeg", s, &jpg.bytes));
    }

    // ---- synthesised assets of every kind --------------------------------------------------------
    let mut rng = SplitMix64::new(0xC10_5EED);
    for kind in assets::KINDS {
        let (mime, _) = assets::kind_format(kind);
        let d = assets::synth_default(kind);
        out.put("fuzz_read", &format!("synth-default-{kind}"), &with_fmt(&fmts, mime, &d.bytes));
        let mut w = vec![fmt_byte(&fmts, mime), 100, 0, 1];
        w.extend_from_slice(&d.bytes);
        out.put("fuzz_write", &format!("synth-default-{kind}"), &w);
        let mut ing = vec![fmt_byte(&fmts, mime), 2u8];
        ing.extend_from_slice(&d.bytes);
        out.put("fuzz_ingredient", &format!("synth-default-{kind}"), &ing);
        for i in 0..3 {
            let s = assets::synth(kind, &mut rng, 200 + 300 * i);
            out.put("fuzz_read", &format!("synth-{kind}-{i}"), &with_fmt(&fmts, mime, &s.bytes));
            let mut w = vec![fmt_byte(&fmts, mime), (i * 90) as u8, i as u8, i as u8];
            w.extend_from_slice(&s.bytes);
            out.put("fuzz_write", &format!("synth-{kind}-{i}"), &w);
        }
        // carrying a fake store and the real store
        let fake = assets::fake_store(300, &mut rng);
        let s = assets::synth_with_store(kind, &mut rng, 300, &fake);
        out.put("fuzz_read", &format!("synth-fake-store-{kind}"), &with_fmt(&fmts, mime, &s.bytes));
        let mut w = vec![fmt_byte(&fmts, mime), 0, 0, 7];
        w.extend_from_slice(&s.bytes);
        out.put("fuzz_write", &format!("synth-fake-store-{kind}"), &w);
        if !real_store.is_empty() {
            let s = assets::synth_with_store(kind, &mut rng, 300, &real_store);
            out.put("fuzz_read", &format!("synth-real-store-{kind}"), &with_fmt(&fmts, mime, &s.bytes));
            let mut ing = vec![fmt_byte(&fmts, mime), 3u8];
            ing.extend_from_slice(&s.bytes);
            out.put("fuzz_ingredient", &format!("synth-real-store-{kind}"), &ing);
            let mut w = vec![fmt_byte(&fmts, mime), 10, 0, 9];
            w.extend_from_slice(&s.bytes);
            out.put("fuzz_write", &format!("synth-real-store-{kind}"), &w);
        }
        // signed by the SDK
        match vh::catch(|| sdk::sign_simple(mime, &d.bytes, kind)) {
            Ok(Ok(a)) => {
                out.put("fuzz_read", &format!("synth-signed-{kind}"), &with_fmt(&fmts, mime, &a));
                if let Ok(st) = sdk::store_of(mime, &a) {
                    out.put("fuzz_sidecar", &format!("own-store-{kind}"), &sidecar_input(&fmts, mime, &st, &d.bytes));
                }
            }
            other => eprintln!("sign {kind}: {other:?}"),
        }
        // variants the SDK mis-handles
        for (vk, variant) in assets::VARIANTS {
            if vk == kind {
                if let Ok(s) = vh::catch(|| assets::synth_variant(kind, &mut rng, 300, variant)) {
                    out.put("fuzz_read", &format!("variant-{kind}-{variant}"), &with_fmt(&fmts, mime, &s.bytes));
                    let mut w = vec![fmt_byte(&fmts, mime), 50, 0, 3];
                    w.extend_from_slice(&s.bytes);
                    out.put("fuzz_write", &format!("variant-{kind}-{variant}"), &w);
                }
            }
        }
    }
    // sidecar: detached manifests (no_embed) next to the unsigned asset
    for (kind, alg) in [("jpeg", "ed25519"), ("png", "es256"), ("mp4", "ed25519"), ("wav", "ps256")] {
        let (mime, _) = assets::kind_format(kind);
        let d = assets::synth_default(kind);
        let ctx = sdk::context();
        let r = vh::catch(|| -> Result<Vec<u8>, String> {
            let mut b = Builder::from_context(ctx).with_definition(def("sidecar", 2).to_string()).map_err(|e| e.to_string())?;
            b.set_intent(BuilderIntent::Create(DigitalSourceType::Empty));
            b.set_no_embed(true);
            let mut o = Cursor::new(Vec::new());
            b.sign(sdk::signer(alg).as_ref(), mime, &mut Cursor::new(d.bytes.clone()), &mut o).map_err(|e| e.to_string())
        });
        match r {
            Ok(Ok(m)) => {
                out.put("fuzz_sidecar", &format!("detached-{kind}-{alg}"), &sidecar_input(&fmts, mime, &m, &d.bytes));
                out.put("fuzz_store", &format!("detached-{kind}-{alg}"), &m);
                out.put("fuzz_store_rt", &format!("detached-{kind}-{alg}"), &m);
            }
            other => eprintln!("detached {kind}: {other:?}"),
        }
    }
    // a few wrong-hint seeds and degenerate inputs
    out.put("fuzz_read", "wrong-hint-png-as-jpeg", &with_fmt(&fmts, "image/jpeg", &png.bytes));
    out.put("fuzz_read", "wrong-hint-jpeg-as-c2pa", &with_fmt(&fmts, "application/c2pa", &jpg.bytes));
    for (i, f) in fmts.iter().enumerate() {
        // one tiny seed per format string so that every hint is in the corpus
        out.put("fuzz_read", &format!("hint-{f}"), &[i as u8, 0, 0, 0, 0]);
    }

    // ---- archives ------------------------------------------------------------------------------------
    for n in ["old_format_archive.zip", "bad_path_archive.zip"] {
        if let Ok(d) = std::fs::read(format!("{fixture_dir}/{n}")) {
            for api in 0..3u8 {
                let mut v = vec![api];
                v.extend_from_slice(&d);
                out.put("fuzz_archive", &format!("{n}-api{api}"), &v);
            }
        }
    }
    {
        let mk = |with_ing: bool, thumb: bool| -> Result<(Vec<u8>, Option<Vec<u8>>), String> {
            let ctx = sdk::context();
            let mut b = Builder::from_context(ctx).with_definition(def("archive", 2).to_string()).map_err(|e| e.to_string())?;
            b.set_intent(if with_ing { BuilderIntent::Edit } else { BuilderIntent::Create(DigitalSourceType::Empty) });
            let mut ing_arch = None;
            if with_ing {
                let src = signed_assets.first().map(|(_, m, a)| (*m, a.clone())).unwrap_or(("image/png", png.bytes.clone()));
                b.add_ingredient_from_stream(json!({"title": "ing", "relationship": "parentOf", "label": "ing-1"}).to_string(), src.0, &mut Cursor::new(src.1))
                    .map_err(|e| e.to_string())?;
                let mut o = Cursor::new(Vec::new());
                if b.write_ingredient_archive("ing-1", &mut o).is_ok() {
                    ing_arch = Some(o.into_inner());
                }
            }
            if thumb {
                b.set_thumbnail("image/jpeg", &mut Cursor::new(vec![0xff, 0xd8, 0xff, 0xd9])).map_err(|e| e.to_string())?;
            }
            let mut o = Cursor::new(Vec::new());
            b.to_archive(&mut o).map_err(|e| e.to_string())?;
            Ok((o.into_inner(), ing_arch))
        };
        for (wi, th) in [(false, false), (true, false), (true, true)] {
            match vh::catch(|| mk(wi, th)) {
                Ok(Ok((a, ia))) => {
                    for api in 0..3u8 {
                        let mut v = vec![api];
                        v.extend_from_slice(&a);
                        out.put("fuzz_archive", &format!("builder-archive-ing{wi}-thumb{th}-api{api}"), &v);
                    }
                    out.put("fuzz_store", &format!("builder-archive-ing{wi}-thumb{th}"), &a);
                    out.put("fuzz_store_rt", &format!("builder-archive-ing{wi}-thumb{th}"), &a);
                    if let Some(ia) = ia {
                        for api in 0..3u8 {
                            let mut v = vec![api];
                            v.extend_from_slice(&ia);
                            out.put("fuzz_archive", &format!("ingredient-archive-thumb{th}-api{api}"), &v);
                        }
                        let mut ing = vec![fmt_byte(&fmts, "application/c2pa"), 0u8];
                        ing.extend_from_slice(&ia);
                        out.put("fuzz_ingredient", &format!("ingredient-archive-thumb{th}"), &ing);
                    }
                }
                other => eprintln!("archive ing={wi} thumb={th}: {other:?}"),
            }
        }
        // any signed store is also an acceptable "archive" input
        for (name, s) in stores.iter().take(3) {
            let mut v = vec![2u8];
            v.extend_from_slice(s);
            out.put("fuzz_archive", &format!("store-{name}"), &v);
        }
    }

    // ---- knob strings for the structure-aware targets --------------------------------------------------
    // fuzz_struct: [kind] [mode: 0 plain, 2 fake store, 4 real store, 7 signed] [seed:4] [size:2] [hint] [ops] [n] mutations…
    for k in 0..assets::KINDS.len() as u8 {
        for mode in [0u8, 2, 4, 5, 7] {
            for j in 0..2u8 {
                let mut r = SplitMix64::new(0xABCD ^ ((k as u64) << 16) ^ ((mode as u64) << 8) ^ j as u64);
                let mut v = vec![k, mode];
                v.extend(r.bytes(6)); // seed, size
                v.push(0); // hint: the kind's own format
                v.push(if j == 0 { 0 } else { 4 + 8 }); // ops: read only / read + write ops + ingredient
                v.extend(r.bytes(16 + 8 * j as usize));
                out.put("fuzz_struct", &format!("knobs-{}-m{mode}-{j}", assets::KINDS[k as usize]), &v);
            }
        }
    }
    for s in 0..8u8 {
        for j in 0..6u8 {
            let mut r = SplitMix64::new(0x5707E ^ ((s as u64) << 8) ^ j as u64);
            let mut v = vec![s, j];
            v.extend(r.bytes(16));
            out.put("fuzz_store_mut", &format!("knobs-s{s}-{j}"), &v);
        }
    }
    eprintln!("corpus: {} files, {} bytes", out.written.len(), out.bytes);
}

fn main() {
    vh::quiet_panics();
    let args: Vec<String> = std::env::args().collect();
    match args.get(1).map(|s| s.as_str()) {
        Some("mkcorpus") => {
            let root = args.get(2).cloned().unwrap_or_else(|| "/verif/corpus".to_string());
            assert!(Path::new(&root).is_absolute(), "absolute output directory required");
            mkcorpus(&root);
        }
        Some("formats") => {
            for (i, f) in formats().iter().enumerate() {
                println!("{i} {f}");
            }
        }
        _ => {
            eprintln!("usage: c10 mkcorpus <dir> | c10 formats   (the C10 check itself is /verif/checks/c10.sh)");
            std::process::exit(2);
        }
    }
}
