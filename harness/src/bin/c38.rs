//! C38 — validation is deterministic and repeatable.
//!
//! Case = a sequence (<= 12) of operations executed in ONE process on a FRESH thread (pristine thread-local
//! settings, process-wide state inherited from every earlier case): sign / embeddable BMFF flow / read / legacy
//! read / add ingredient / update manifest / archive save+restore / deprecated thread-local settings setters /
//! failing operations. Every produced asset is kept.
//!
//! Oracle (property text):
//!  (a) every read of the same bytes with the same explicit settings gives the same `(report_same_bytes, verdict)`:
//!      back-to-back reads, reads separated by other operations, the reads at the end of the sequence and the read
//!      done by a fresh child process (`/proc/self/exe --child <job>`, settings passed explicitly);
//!  (b) signing the same inputs before the sequence, after it, and in a fresh child process gives read-backs that
//!      are equal under `report_cross_run` (+ verdict);
//!  (c) assets with a BMFF Merkle tree over two mdat boxes are read 24 times in-process and 2 x 12 times in child
//!      processes: all verdicts must be equal. These assets are excluded from (a) by construction (class of the
//!      asset, not observed behaviour) so that the verdict of a case does not depend on chance.
//!  (d) stream `trust_histories`: 2-5 operations on ONE fresh thread (context read / add ingredient + sign / sign of
//!      pool assets), each with its own trust settings (anchors, user anchors, trust config, allowed list with the
//!      signer's end-entity certificate / other certificates / hash form): every operation's outcome equals the
//!      outcome of the same operation executed alone on a fresh thread;
//!  (e) stream `legacy_histories`: 2-6 operations on ONE fresh thread mixing deprecated thread-local settings loads
//!      that succeed and that are rejected (10 ways, each combined with harmless keys that would be visible if
//!      merged) with deprecated reads / signs: a rejected load leaves `Settings::to_toml()` byte-identical, every
//!      later load / read / sign equals the one on a thread that never attempted the rejected loads (same
//!      successful loads), and a closing valid load succeeds.

use std::{
    collections::{BTreeMap, HashMap},
    io::Cursor,
    path::PathBuf,
    sync::{
        atomic::{AtomicU64, Ordering},
        Mutex,
    },
};

use c2pa::{Builder, BuilderIntent, DigitalSourceType, Reader, Settings};
use proptest::prelude::*;
use serde::{Deserialize, Serialize};
use serde_json::{json, Value};
use vh::{sdk, CaseResult, Fail, Run};

// ------------------------------------------------------------------------------------------------
// case
// ------------------------------------------------------------------------------------------------

#[derive(Clone, Debug, Serialize, Deserialize, PartialEq, Eq, Hash)]
struct Src {
    /// index into vh::assets::KINDS
    kind: u8,
    inst: u8,
    /// (mp4 only) an instance with exactly two top-level mdat boxes
    two_mdat: bool,
}

#[derive(Clone, Debug, Serialize, Deserialize, PartialEq, Eq, Hash)]
enum Op {
    /// binding: 0 default (data / BMFF hash), 1 compressed manifests (box hash where available), 2 Merkle 1 KB
    Sign { src: Src, binding: u8, alg: u8, def: u8 },
    /// placeholder -> hash_bmff_mdat_bytes -> update_hash_from_stream -> sign_embeddable on ftyp+free+mdat(+mdat)
    Embeddable { two: bool, leaf_kb: u8, inst: u8 },
    Read { target: u8, settings: u8, twice: bool },
    /// deprecated `Reader::from_stream` (thread-local settings by design): state perturbation, only
    /// back-to-back equality is judged
    LegacyRead { target: u8 },
    Ingredient { target: u8, src: Src, rel: u8 },
    Update { target: u8 },
    Archive { src: Src, def: u8, legacy_restore: bool },
    TlSet { which: u8 },
    Fail { kind: u8, target: u8 },
}

#[derive(Clone, Debug, Serialize, Deserialize, PartialEq, Eq, Hash)]
struct Probe {
    src: Src,
    binding: u8,
    alg: u8,
    def: u8,
    /// 0 Create on src, 1 Edit on fixture C.jpg (parent taken from the source), 2 Create on src + component CA.jpg
    kind: u8,
}

#[derive(Clone, Debug, Serialize, Deserialize, PartialEq, Eq, Hash)]
struct Case {
    ops: Vec<Op>,
    probe: Probe,
}

const BMFF_KINDS: [&str; 5] = ["mp4", "mov", "heic", "avif", "m4a"];

fn kind_name(k: u8) -> &'static str {
    vh::assets::KINDS[k as usize % vh::assets::KINDS.len()]
}

fn mp4_idx() -> u8 {
    vh::assets::KINDS.iter().position(|k| *k == "mp4").unwrap() as u8
}

fn top_boxes(b: &[u8]) -> Vec<(String, usize, usize, bool)> {
    let mut out = vec![];
    let mut p = 0usize;
    while p + 8 <= b.len() {
        let sz32 = u32::from_be_bytes([b[p], b[p + 1], b[p + 2], b[p + 3]]) as u64;
        let ty = String::from_utf8_lossy(&b[p + 4..p + 8]).to_string();
        let size = if sz32 == 1 {
            if p + 16 > b.len() {
                break;
            }
            u64::from_be_bytes(b[p + 8..p + 16].try_into().unwrap())
        } else if sz32 == 0 {
            (b.len() - p) as u64
        } else {
            sz32
        };
        if size < 8 || p as u64 + size > b.len() as u64 {
            break;
        }
        out.push((ty, p, p + size as usize, sz32 == 0));
        p += size as usize;
    }
    out
}

fn mdat_count(b: &[u8]) -> (usize, bool) {
    let t = top_boxes(b);
    (t.iter().filter(|x| x.0 == "mdat").count(), t.iter().any(|x| x.0 == "mdat" && x.3))
}

static SRC_CACHE: Mutex<Option<HashMap<(u8, u8, bool), (String, Vec<u8>)>>> = Mutex::new(None);

/// (mime, bytes) of a source asset; a pure function of `src`.
fn source(src: &Src) -> (String, Vec<u8>) {
    let key = (src.kind % vh::assets::KINDS.len() as u8, src.inst, src.two_mdat);
    if let Some(v) = SRC_CACHE.lock().unwrap().get_or_insert_with(HashMap::new).get(&key) {
        return v.clone();
    }
    let kind = if src.two_mdat { "mp4" } else { kind_name(src.kind) };
    let base = 0xC38_0000u64 + (key.0 as u64) * 1000 + src.inst as u64 * 37;
    let mut out = None;
    for k in 0..200u64 {
        let mut rng = vh::rng::SplitMix64::new(base + k * 7919);
        let s = vh::assets::synth(kind, &mut rng, 1200);
        if BMFF_KINDS.contains(&kind) {
            let (n, size0) = mdat_count(&s.bytes);
            // size-0 ("to end of file") mdat boxes have their own deterministic Merkle problem (C03/C17 domain)
            if size0 || (src.two_mdat && n != 2) || (!src.two_mdat && n != 1) {
                continue;
            }
        }
        out = Some((s.format.to_string(), s.bytes));
        break;
    }
    let v = out.unwrap_or_else(|| {
        let s = vh::assets::synth_default(kind);
        (s.format.to_string(), s.bytes)
    });
    SRC_CACHE.lock().unwrap().get_or_insert_with(HashMap::new).insert(key, v.clone());
    v
}

fn is_multi_merkle(src: &Src, binding: u8) -> bool {
    binding == 2 && src.two_mdat
}

fn sign_settings(binding: u8) -> Value {
    let mut st = sdk::base_settings(true);
    match binding {
        1 => sdk::merge(&mut st, &json!({"core": {"prefer_compress_manifests": true}})),
        2 => sdk::merge(&mut st, &json!({"core": {"merkle_tree_chunk_size_in_kb": 1}})),
        _ => {}
    }
    st
}

fn read_settings(idx: u8) -> Value {
    match idx % 3 {
        0 => sdk::base_settings(true),
        1 => sdk::base_settings(false),
        _ => {
            let mut st = sdk::base_settings(true);
            sdk::merge(&mut st, &json!({"verify": {"verify_trust": false}}));
            st
        }
    }
}

fn definition(def: u8, title: &str) -> (Value, Option<BuilderIntent>) {
    let mut d = sdk::simple_definition(title);
    match def % 3 {
        0 => (d, Some(BuilderIntent::Create(DigitalSourceType::Empty))),
        1 => {
            d["assertions"].as_array_mut().unwrap().push(json!({
                "label": "org.verif.extra",
                "data": {"list": [1, 2, 300, "x"], "nested": {"a": {"b": [true, null, 1.5]}}, "text": "\u{e9}\u{4e2d}"}
            }));
            (d, Some(BuilderIntent::Create(DigitalSourceType::DigitalCapture)))
        }
        _ => {
            d["claim_version"] = json!(1);
            d["claim_generator"] = json!("verif-harness/0.1");
            (d, None)
        }
    }
}

// ------------------------------------------------------------------------------------------------
// outcomes
// ------------------------------------------------------------------------------------------------

#[derive(Clone, Debug, Serialize, Deserialize, PartialEq)]
enum Outcome {
    Ok { report: Value, verdict: sdk::Verdict },
    Err(String),
    Panic(String),
}

impl Outcome {
    fn short(&self) -> String {
        match self {
            Outcome::Ok { verdict, .. } => format!("Ok({}, {} codes)", verdict.state, verdict.codes.len()),
            Outcome::Err(e) => format!("Err({e})"),
            Outcome::Panic(p) => format!("panic({p})"),
        }
    }
    fn state(&self) -> String {
        match self {
            Outcome::Ok { verdict, .. } => verdict.state.clone(),
            Outcome::Err(e) => format!("Err:{e}"),
            Outcome::Panic(_) => "panic".into(),
        }
    }
}

fn err_kind(e: &c2pa::Error) -> String {
    let d = format!("{e:?}");
    d.split(|c: char| c == '(' || c == ' ' || c == '{').next().unwrap_or("").to_string()
}

/// The same text -> value step on both sides of every comparison (child results travel as text).
fn via_text(o: Outcome) -> Outcome {
    let t = serde_json::to_string(&o).unwrap_or_default();
    serde_json::from_str(&t).unwrap_or(o)
}

/// URN renaming table for the cross-run normal form.
fn urn_order(txt: &str) -> Vec<(usize, String)> {
    // Only the active manifest's URN is new in every signing run; ingredient manifests keep the labels they have in
    // their own assets (identical on both sides of every comparison made here). Renaming by order of first
    // appearance in the JSON text would depend on the iteration order of the reader's manifest HashMap.
    let v: Value = serde_json::from_str(txt).unwrap_or(Value::Null);
    match v["active_manifest"].as_str() {
        Some(l) => {
            let u = match l.find("urn:") {
                Some(i) => &l[i..],
                None => l,
            };
            vec![(0, u.to_string())]
        }
        None => vec![],
    }
}

fn rename_urns(s: &str, order: &[(usize, String)]) -> String {
    let mut out = s.to_string();
    for (i, u) in order {
        if out.contains(u.as_str()) {
            out = out.replace(u.as_str(), &format!("M{i}"));
        }
    }
    out
}

fn rename_walk(v: &mut Value, order: &[(usize, String)]) {
    match v {
        Value::String(s) => *s = rename_urns(s, order),
        Value::Array(a) => a.iter_mut().for_each(|x| rename_walk(x, order)),
        Value::Object(m) => {
            let keys: Vec<String> = m.keys().cloned().collect();
            for k in keys {
                let mut val = m.remove(&k).unwrap();
                rename_walk(&mut val, order);
                m.insert(rename_urns(&k, order), val);
            }
        }
        _ => {}
    }
}

/// Cross-run report + verdict (private copy of `sdk::report_cross_run`, which panics on non-ASCII report text):
/// manifest URNs renamed M0, M1, .. in order of first appearance, instance ids / times / hashes / signatures blanked.
fn cross_of(r: &Reader) -> (Value, sdk::Verdict) {
    let txt = r.json();
    let order = urn_order(&txt);
    let mut v: Value = serde_json::from_str(&txt).unwrap_or(Value::Null);
    rename_walk(&mut v, &order);
    sdk::blank_keys(
        &mut v,
        &["instance_id", "instanceID", "instanceId", "time", "when", "validation_time", "hash", "pad", "pad1", "pad2", "signature", "serial_number", "validationTime", "salt"],
    );
    let mut verdict = sdk::verdict(r);
    for c in verdict.codes.iter_mut() {
        *c = rename_urns(c, &order);
    }
    verdict.codes.sort();
    (v, verdict)
}

fn outcome_of(res: Result<c2pa::Result<Reader>, String>, cross: bool) -> Outcome {
    via_text(match res {
        Err(p) => Outcome::Panic(vh::core::panic_site(&p)),
        Ok(Err(e)) => Outcome::Err(err_kind(&e)),
        Ok(Ok(r)) => {
            if cross {
                let (report, verdict) = cross_of(&r);
                Outcome::Ok { report, verdict }
            } else {
                Outcome::Ok { report: sdk::report_same_bytes(&r), verdict: sdk::verdict(&r) }
            }
        }
    })
}

fn read_outcome(settings: &Value, format: &str, bytes: &[u8]) -> Outcome {
    outcome_of(vh::catch(|| sdk::read_with(sdk::context_with(settings), format, bytes)), false)
}

fn read_cross(format: &str, bytes: &[u8]) -> Outcome {
    outcome_of(vh::catch(|| sdk::read_with(sdk::context(), format, bytes)), true)
}

fn diff(a: &Outcome, b: &Outcome) -> String {
    match (a, b) {
        (Outcome::Ok { report: ra, verdict: va }, Outcome::Ok { report: rb, verdict: vb }) => {
            if va != vb {
                let only_a: Vec<&String> = va.codes.iter().filter(|c| !vb.codes.contains(c)).collect();
                let only_b: Vec<&String> = vb.codes.iter().filter(|c| !va.codes.contains(c)).collect();
                format!("verdict {} vs {}; codes only left {:?}, only right {:?}", va.state, vb.state, only_a, only_b)
            } else {
                format!("report differs at {}", vh::defgen::first_diff(ra, rb, "").unwrap_or_else(|| "?".into()))
            }
        }
        _ => format!("{} vs {}", a.short(), b.short()),
    }
}

// ------------------------------------------------------------------------------------------------
// SDK flows
// ------------------------------------------------------------------------------------------------

fn do_sign(src: &Src, binding: u8, alg: u8, def: u8, title: &str) -> Result<c2pa::Result<(String, Vec<u8>)>, String> {
    let (fmt, bytes) = source(src);
    let (d, intent) = definition(def, title);
    let signer = sdk::signer(sdk::ALGS[alg as usize % sdk::ALGS.len()]);
    vh::catch(|| sdk::sign_with(sdk::context_with(&sign_settings(binding)), &d, intent, signer.as_ref(), &fmt, &bytes).map(|b| (fmt.clone(), b)))
}

fn do_probe(p: &Probe) -> Result<c2pa::Result<(String, Vec<u8>)>, String> {
    match p.kind % 3 {
        1 => {
            let (d, _) = definition(p.def, "c38 probe edit");
            let signer = sdk::signer(sdk::ALGS[p.alg as usize % sdk::ALGS.len()]);
            let bytes = sdk::fixture("C.jpg");
            vh::catch(|| {
                sdk::sign_with(sdk::context_with(&sign_settings(p.binding)), &d, Some(BuilderIntent::Edit), signer.as_ref(), "image/jpeg", &bytes)
                    .map(|b| ("image/jpeg".to_string(), b))
            })
        }
        2 => {
            let (fmt, bytes) = source(&p.src);
            let (d, intent) = definition(p.def, "c38 probe ingredient");
            let signer = sdk::signer(sdk::ALGS[p.alg as usize % sdk::ALGS.len()]);
            let ing = sdk::fixture("CA.jpg");
            vh::catch(|| {
                let mut b = Builder::from_context(sdk::context_with(&sign_settings(p.binding))).with_definition(d.to_string())?;
                if let Some(i) = intent {
                    b.set_intent(i);
                }
                b.add_ingredient_from_stream(json!({"title": "CA", "relationship": "componentOf"}).to_string(), "image/jpeg", &mut Cursor::new(ing))?;
                let mut out = Cursor::new(Vec::new());
                b.sign(signer.as_ref(), &fmt, &mut Cursor::new(bytes), &mut out)?;
                Ok((fmt.clone(), out.into_inner()))
            })
        }
        _ => do_sign(&p.src, p.binding, p.alg, p.def, "c38 probe"),
    }
}

/// (asset bytes) of the embeddable BMFF flow; mdat payloads >= 2000 bytes, each fed whole.
fn do_embeddable(two: bool, leaf_kb: u8, inst: u8) -> Result<c2pa::Result<Vec<u8>>, String> {
    const FORMAT: &str = "video/mp4";
    vh::catch(|| {
        let ctx = sdk::context().with_signer(sdk::signer("ed25519"));
        let mut builder = Builder::from_context(ctx).with_definition(sdk::simple_definition("c38 embeddable").to_string())?;
        builder.set_intent(BuilderIntent::Create(DigitalSourceType::Empty));
        let composed = builder.placeholder(FORMAT)?;
        let mdats: Vec<(usize, bool)> = if two { vec![(3000 + inst as usize * 211, false), (2000 + inst as usize * 97, true)] } else { vec![(4000 + inst as usize * 211, inst % 2 == 1)] };
        let leaves: usize = mdats.iter().map(|m| if leaf_kb > 0 { m.0 / 1024 + 2 } else { 2 }).sum();
        let reserve = composed.len() + leaves * 48 + 2048;
        let mut b = vec![];
        b.extend_from_slice(&24u32.to_be_bytes());
        b.extend_from_slice(b"ftypisom");
        b.extend_from_slice(&0u32.to_be_bytes());
        b.extend_from_slice(b"isommp42");
        let free_at = b.len();
        b.extend_from_slice(&(reserve as u32).to_be_bytes());
        b.extend_from_slice(b"free");
        b.resize(free_at + reserve, 0);
        let mut rng = vh::rng::SplitMix64::new(0xE38 + inst as u64);
        let mut spans = vec![];
        for (len, large) in &mdats {
            if *large {
                b.extend_from_slice(&1u32.to_be_bytes());
                b.extend_from_slice(b"mdat");
                b.extend_from_slice(&((16 + len) as u64).to_be_bytes());
            } else {
                b.extend_from_slice(&((8 + len) as u32).to_be_bytes());
                b.extend_from_slice(b"mdat");
            }
            let p = b.len();
            b.extend_from_slice(&rng.bytes(*len));
            spans.push((p, *len, *large));
        }
        if leaf_kb > 0 {
            builder.set_bmff_hash_fixed_leaf_size(leaf_kb as usize);
        }
        for (i, (p, len, large)) in spans.iter().enumerate() {
            builder.hash_bmff_mdat_bytes(i, &b[*p..*p + *len], *large)?;
        }
        builder.update_hash_from_stream(FORMAT, &mut Cursor::new(b.clone()))?;
        let signed = builder.sign_embeddable(FORMAT)?;
        if signed.len() + 8 > reserve {
            return Err(c2pa::Error::BadParam("harness: reserve too small".into()));
        }
        b[free_at..free_at + signed.len()].copy_from_slice(&signed);
        let rest_at = free_at + signed.len();
        let rest = reserve - signed.len();
        b[rest_at..rest_at + 4].copy_from_slice(&(rest as u32).to_be_bytes());
        b[rest_at + 4..rest_at + 8].copy_from_slice(b"free");
        Ok(b)
    })
}

const TL_SETTERS: usize = 6;

/// Deprecated thread-local setters; every variant is valid input chosen to be visible if it leaked into a
/// context-based operation.
#[allow(deprecated)]
fn tl_set(which: u8) -> c2pa::Result<()> {
    match which as usize % TL_SETTERS {
        0 => Settings::from_toml("[verify]\nverify_trust = false\nverify_after_sign = false\n"),
        1 => Settings::from_string(&json!({"core": {"merkle_tree_chunk_size_in_kb": 1, "prefer_compress_manifests": true}}).to_string(), "json").map(|_| ()),
        2 => Settings::from_toml("[builder]\nvendor = \"tlvendor\"\n[builder.claim_generator_info]\nname = \"tl-generator\"\nversion = \"9\"\n"),
        3 => Settings::from_string(&json!({"core": {"max_decompressed_manifest_size_in_mb": 0}}).to_string(), "json").map(|_| ()),
        4 => Settings::from_string(&json!({"verify": {"verify_after_reading": false}, "builder": {"thumbnail": {"enabled": true}}}).to_string(), "json").map(|_| ()),
        _ => Settings::from_string("[trust]\nverify_trust_list = false\n[verify]\nstrict_v1_validation = true\n", "toml").map(|_| ()),
    }
}

// ------------------------------------------------------------------------------------------------
// child process protocol
// ------------------------------------------------------------------------------------------------

fn work_dir() -> PathBuf {
    vh::core::verif_root().join("work").join("C38")
}

static COUNTER: AtomicU64 = AtomicU64::new(0);

fn run_child(job: &Value) -> Result<Value, String> {
    let dir = work_dir();
    let n = COUNTER.fetch_add(1, Ordering::SeqCst);
    let jobfile = dir.join(format!("job-{}-{n}.json", std::process::id()));
    std::fs::write(&jobfile, job.to_string()).map_err(|e| format!("write job: {e}"))?;
    let mut child = std::process::Command::new("/proc/self/exe")
        .arg("--child")
        .arg(&jobfile)
        .stdin(std::process::Stdio::null())
        .stdout(std::process::Stdio::piped())
        .stderr(std::process::Stdio::null())
        .spawn()
        .map_err(|e| format!("spawn child: {e}"))?;
    // stdout is read to the end first (the child prints one line and exits)
    let mut out = String::new();
    if let Some(mut so) = child.stdout.take() {
        use std::io::Read;
        let _ = so.read_to_string(&mut out);
    }
    let status = child.wait().map_err(|e| format!("wait child: {e}"))?;
    let _ = std::fs::remove_file(&jobfile);
    if !status.success() {
        return Err(format!("child exit {status:?}: {}", out.chars().take(200).collect::<String>()));
    }
    let line = out.lines().rev().find(|l| l.starts_with('{')).ok_or("child printed no result")?;
    serde_json::from_str(line).map_err(|e| format!("child result: {e}"))
}

fn child_main(jobfile: &str) -> ! {
    vh::quiet_panics();
    let job: Value = serde_json::from_str(&std::fs::read_to_string(jobfile).expect("job file")).expect("job json");
    let out = match job["mode"].as_str() {
        Some("reads") => {
            // items: [{file, format, settings, repeat}]; results: one list of outcomes per item, in order
            let mut all: Vec<Vec<Outcome>> = vec![];
            for it in job["items"].as_array().cloned().unwrap_or_default() {
                let bytes = std::fs::read(it["file"].as_str().unwrap()).expect("asset file");
                let fmt = it["format"].as_str().unwrap().to_string();
                let n = it["repeat"].as_u64().unwrap_or(1);
                all.push((0..n).map(|_| read_outcome(&it["settings"], &fmt, &bytes)).collect());
            }
            json!({ "results": all })
        }
        Some("probe") => {
            let p: Probe = serde_json::from_value(job["probe"].clone()).expect("probe");
            let o = match do_probe(&p) {
                Err(pm) => Outcome::Panic(vh::core::panic_site(&pm)),
                Ok(Err(e)) => Outcome::Err(err_kind(&e)),
                Ok(Ok((fmt, b))) => read_cross(&fmt, &b),
            };
            json!({ "results": [via_text(o)] })
        }
        _ => json!({"error": "unknown mode"}),
    };
    println!("{out}");
    std::process::exit(0);
}

fn child_reads(items: &[Value]) -> Result<Vec<Vec<Outcome>>, String> {
    let v = run_child(&json!({"mode": "reads", "items": items}))?;
    serde_json::from_value(v["results"].clone()).map_err(|e| format!("child results: {e}"))
}

// ------------------------------------------------------------------------------------------------
// judge
// ------------------------------------------------------------------------------------------------

struct Kept {
    bytes: Vec<u8>,
    format: String,
    how: String,
    multi_merkle: bool,
    /// settings index -> (outcome, op index of that read)
    reads: BTreeMap<u8, (Outcome, usize)>,
}

struct State {
    kept: Vec<Kept>,
    tl_sets: Vec<usize>,
    fails: Vec<usize>,
    multi_merkle_reread: bool,
}

fn cause(st: &State, from: usize, to: usize) -> &'static str {
    if st.tl_sets.iter().any(|i| *i > from && *i < to) {
        "thread-local-setter-between"
    } else if st.fails.iter().any(|i| *i > from && *i < to) {
        "failing-op-between"
    } else if to > from + 1 {
        "other-ops-between"
    } else {
        "back-to-back"
    }
}

fn class_of(k: &Kept) -> String {
    k.how.split(':').next().unwrap_or("").to_string()
}

/// One context-based read of a kept asset inside the sequence / at its end, compared with every earlier read.
fn judged_read(run: &Run, st: &mut State, t: usize, sidx: u8, at: usize, selftest: &str) -> CaseResult {
    if st.kept[t].multi_merkle {
        // oracle (c) only
        st.multi_merkle_reread = true;
        run.count("read:multi-mdat-merkle(not judged here)");
        let k = &st.kept[t];
        let _ = read_outcome(&read_settings(sidx), &k.format, &k.bytes);
        return Ok(());
    }
    let k = &st.kept[t];
    let mut settings = read_settings(sidx);
    if selftest == "tl-leak" && !st.tl_sets.is_empty() {
        // sensitivity: pretend the context read picked up thread-local state (no trust anchors)
        settings = sdk::base_settings(false);
        sdk::merge(&mut settings, &json!({"verify": {"verify_trust": false}}));
    }
    let o = read_outcome(&settings, &k.format, &k.bytes);
    run.count(&format!("read_outcome:{}", o.state()));
    if std::env::var("VERIF_DEBUG").is_ok() {
        eprintln!("read #{t} settings {sidx} at {at}: {}", o.short());
    }
    if let Outcome::Panic(p) = &o {
        run.count(&format!("panic:{p}"));
    }
    if let Some((prev, when)) = k.reads.get(&sidx) {
        if *prev != o {
            let c = cause(st, *when, at);
            return Err(Fail::new(
                format!("C38:read-differs-in-process:{c}"),
                format!("asset #{t} ({}, {} bytes) read with settings #{sidx} at op {when} and again at op {at}: {}", k.how, k.bytes.len(), diff(prev, &o)),
            ));
        }
    }
    st.kept[t].reads.insert(sidx, (o, at));
    Ok(())
}

fn keep(run: &Run, st: &mut State, format: String, bytes: Vec<u8>, how: String, multi_merkle: bool) {
    run.count(&format!("kept:{}", how.split(':').next().unwrap_or("")));
    if std::env::var("VERIF_DEBUG").is_ok() {
        let brob = sdk::find_sub(&bytes, b"brob").is_some();
        eprintln!("kept #{} {how} {format} {} bytes brob={brob} boxes={:?}", st.kept.len(), bytes.len(), if format.contains("mp4") { top_boxes(&bytes).iter().map(|b| format!("{}:{}", b.0, b.2 - b.1)).collect::<Vec<_>>() } else { vec![] });
    }
    if st.kept.len() < 14 {
        st.kept.push(Kept { bytes, format, how, multi_merkle, reads: BTreeMap::new() });
    }
}

fn note_result<T>(run: &Run, what: &str, r: &Result<c2pa::Result<T>, String>) {
    match r {
        Ok(Ok(_)) => run.count(&format!("{what}:ok")),
        Ok(Err(e)) => run.count(&format!("{what}:err:{}", err_kind(e))),
        Err(p) => run.count(&format!("{what}:panic:{}", vh::core::panic_site(p))),
    }
}

#[allow(deprecated)]
fn run_case(run: &Run, case: &Case, selftest: &str) -> CaseResult {
    let mut st = State { kept: vec![], tl_sets: vec![], fails: vec![], multi_merkle_reread: false };
    // a fixture asset is always there so that reads have a target from the start
    st.kept.push(Kept { bytes: sdk::fixture("C.jpg"), format: "image/jpeg".into(), how: "fixture:C.jpg".into(), multi_merkle: false, reads: BTreeMap::new() });

    let mut probe = case.probe.clone();
    if is_multi_merkle(&probe.src, probe.binding) {
        // excluded by construction: the read-back of such an asset is the known nondeterminism (oracle c)
        run.count("probe:multi-mdat-merkle-replaced");
        probe.src.two_mdat = false;
    }
    // ---- probe signing before the sequence
    let before = do_probe(&probe);
    note_result(run, "probe_before", &before);
    let before_o = match &before {
        Ok(Ok((fmt, b))) => read_cross(fmt, b),
        Ok(Err(e)) => Outcome::Err(err_kind(e)),
        Err(p) => Outcome::Panic(vh::core::panic_site(p)),
    };

    let mut context_op_after_perturbation = false;
    let dbg = std::env::var("VERIF_DEBUG").is_ok();
    let t_all = std::time::Instant::now();
    for (i, op) in case.ops.iter().enumerate() {
        let at = i + 1;
        if dbg {
            eprintln!("[{:?}] op {at}: {op:?}", t_all.elapsed());
        }
        let perturbed = !st.tl_sets.is_empty() || !st.fails.is_empty();
        match op {
            Op::Sign { src, binding, alg, def } => {
                context_op_after_perturbation |= perturbed;
                let r = do_sign(src, *binding, *alg, *def, &format!("c38 op{at}"));
                note_result(run, &format!("sign:b{binding}"), &r);
                if let Ok(Ok((fmt, b))) = r {
                    let mm = is_multi_merkle(src, *binding);
                    let class = if mm { "sign-multi-mdat-merkle".to_string() } else { format!("sign-b{binding}") };
                    keep(run, &mut st, fmt, b, format!("{class}:{}:{}", if src.two_mdat { "mp4x2" } else { kind_name(src.kind) }, sdk::ALGS[*alg as usize % 7]), mm);
                }
            }
            Op::Embeddable { two, leaf_kb, inst } => {
                context_op_after_perturbation |= perturbed;
                let r = do_embeddable(*two, *leaf_kb % 2, *inst);
                note_result(run, &format!("embeddable:mdats{}", if *two { 2 } else { 1 }), &r);
                if let Ok(Ok(b)) = r {
                    let class = if *two { "embeddable-multi-mdat-merkle" } else { "embeddable-one-mdat-merkle" };
                    keep(run, &mut st, "video/mp4".into(), b, format!("{class}:leaf{}", leaf_kb % 2), *two);
                }
            }
            Op::Read { target, settings, twice } => {
                context_op_after_perturbation |= perturbed;
                let t = *target as usize % st.kept.len();
                judged_read(run, &mut st, t, *settings % 3, at, selftest)?;
                if *twice {
                    judged_read(run, &mut st, t, *settings % 3, at, selftest)?;
                    run.count("read:twice");
                }
            }
            Op::LegacyRead { target } => {
                let t = *target as usize % st.kept.len();
                let k = &st.kept[t];
                if k.multi_merkle {
                    st.multi_merkle_reread = true;
                    continue;
                }
                let a = outcome_of(vh::catch(|| Reader::from_stream(&k.format, Cursor::new(k.bytes.clone()))), false);
                let b = outcome_of(vh::catch(|| Reader::from_stream(&k.format, Cursor::new(k.bytes.clone()))), false);
                run.count(&format!("legacy_read:{}", a.state()));
                if a != b {
                    return Err(Fail::new(
                        "C38:legacy-read-differs-back-to-back",
                        format!("Reader::from_stream twice in a row on asset #{t} ({}): {}", k.how, diff(&a, &b)),
                    ));
                }
            }
            Op::Ingredient { target, src, rel } => {
                context_op_after_perturbation |= perturbed;
                let t = *target as usize % st.kept.len();
                let (fmt, bytes) = source(src);
                let (relationship, intent) = match rel % 3 {
                    0 => ("componentOf", BuilderIntent::Create(DigitalSourceType::Empty)),
                    1 => ("parentOf", BuilderIntent::Edit),
                    _ => ("inputTo", BuilderIntent::Create(DigitalSourceType::Empty)),
                };
                let (ifmt, ibytes) = (st.kept[t].format.clone(), st.kept[t].bytes.clone());
                let signer = sdk::signer("es256");
                let r = vh::catch(|| {
                    let mut b = Builder::from_context(sdk::context()).with_definition(sdk::simple_definition(&format!("c38 ing op{at}")).to_string())?;
                    b.set_intent(intent);
                    b.add_ingredient_from_stream(json!({"title": "ing", "relationship": relationship}).to_string(), &ifmt, &mut Cursor::new(ibytes))?;
                    let mut out = Cursor::new(Vec::new());
                    b.sign(signer.as_ref(), &fmt, &mut Cursor::new(bytes), &mut out)?;
                    Ok(out.into_inner())
                });
                note_result(run, &format!("ingredient:{relationship}"), &r);
                if let Ok(Ok(b)) = r {
                    keep(run, &mut st, fmt, b, format!("with-ingredient:{relationship}:of#{t}"), false);
                }
            }
            Op::Update { target } => {
                context_op_after_perturbation |= perturbed;
                let t = *target as usize % st.kept.len();
                let (fmt, bytes, mm, how) = (st.kept[t].format.clone(), st.kept[t].bytes.clone(), st.kept[t].multi_merkle, st.kept[t].how.clone());
                let def = json!({"title": "c38 update", "claim_generator_info": [{"name": "verif-harness", "version": "0.1"}],
                    "assertions": [{"label": "org.verif.note", "data": {"note": "update"}}]});
                let signer = sdk::signer("ps256");
                // same binding-relevant settings as a compressed sign when the parent was compressed
                let compress = how.starts_with("sign-b1");
                let r = vh::catch(|| sdk::sign_with(sdk::context_with(&sign_settings(if compress { 1 } else { 0 })), &def, Some(BuilderIntent::Update), signer.as_ref(), &fmt, &bytes));
                note_result(run, "update", &r);
                if let Ok(Ok(b)) = r {
                    let class = if mm { "update-of-multi-mdat-merkle" } else if compress { "update-compressed" } else { "update" };
                    keep(run, &mut st, fmt, b, format!("{class}:of#{t}"), mm);
                }
            }
            Op::Archive { src, def, legacy_restore } => {
                context_op_after_perturbation |= perturbed && !*legacy_restore;
                let (fmt, bytes) = source(src);
                let (d, intent) = definition(*def, &format!("c38 archive op{at}"));
                let signer = sdk::signer("es384");
                let legacy = *legacy_restore;
                let r = vh::catch(|| {
                    let mut b = Builder::from_context(sdk::context()).with_definition(d.to_string())?;
                    if let Some(i) = intent.clone() {
                        b.set_intent(i);
                    }
                    let mut arch = Cursor::new(Vec::new());
                    b.to_archive(&mut arch)?;
                    arch.set_position(0);
                    let mut b2 = if legacy { Builder::from_archive(arch)? } else { Builder::from_context(sdk::context()).with_archive(arch)? };
                    if let Some(i) = intent {
                        b2.set_intent(i);
                    }
                    let mut out = Cursor::new(Vec::new());
                    b2.sign(signer.as_ref(), &fmt, &mut Cursor::new(bytes), &mut out)?;
                    Ok(out.into_inner())
                });
                note_result(run, if legacy { "archive:legacy-restore" } else { "archive:context-restore" }, &r);
                if let Ok(Ok(b)) = r {
                    keep(run, &mut st, fmt, b, format!("from-archive:{}", kind_name(src.kind)), false);
                }
            }
            Op::TlSet { which } => {
                let r = vh::catch(|| tl_set(*which));
                note_result(run, &format!("tl_set:{}", *which as usize % TL_SETTERS), &r);
                st.tl_sets.push(at);
            }
            Op::Fail { kind, target } => {
                let t = *target as usize % st.kept.len();
                let (kfmt, kbytes) = (st.kept[t].format.clone(), st.kept[t].bytes.clone());
                let what = match kind % 10 {
                    0 => {
                        let mut rng = vh::rng::SplitMix64::new(*target as u64 + 5);
                        let g = rng.bytes(700);
                        note_result(run, "fail:read-garbage", &vh::catch(|| sdk::read("image/jpeg", &g)));
                        "read-garbage"
                    }
                    1 => {
                        let wrong = if kfmt == "image/png" { "image/jpeg" } else { "image/png" };
                        note_result(run, "fail:read-wrong-format", &vh::catch(|| sdk::read(wrong, &kbytes)));
                        "read-wrong-format"
                    }
                    2 => {
                        let (_, b) = source(&Src { kind: 0, inst: 0, two_mdat: false });
                        note_result(run, "fail:sign-unsupported-format", &vh::catch(|| sdk::sign_simple("application/x-verif-unknown", &b, "x")));
                        "sign-unsupported-format"
                    }
                    3 => {
                        let half = &kbytes[..kbytes.len() / 2];
                        note_result(run, "fail:read-truncated", &vh::catch(|| sdk::read(&kfmt, half)));
                        "read-truncated"
                    }
                    4 => {
                        note_result(run, "fail:tl-from_toml-syntax-error", &vh::catch(|| Settings::from_toml("not [valid toml")));
                        "tl-setter-syntax-error"
                    }
                    5 => {
                        note_result(
                            run,
                            "fail:tl-from_string-invalid-value",
                            &vh::catch(|| Settings::from_string(r#"{"core":{"max_decompressed_manifest_size_in_mb": 99999999}, "verify": {"verify_trust": "maybe"}}"#, "json").map(|_| ())),
                        );
                        "tl-setter-invalid-value"
                    }
                    6 => {
                        note_result(run, "fail:definition-invalid-json", &vh::catch(|| Builder::from_context(sdk::context()).with_definition("{\"title\": ").map(|_| ())));
                        "definition-invalid-json"
                    }
                    7 => {
                        // claim v2 without intent and without a leading created/opened action
                        let (_, b) = source(&Src { kind: 1, inst: 0, two_mdat: false });
                        let signer = sdk::signer("ed25519");
                        note_result(run, "fail:sign-without-intent", &vh::catch(|| sdk::sign_with(sdk::context(), &sdk::simple_definition("no intent"), None, signer.as_ref(), "image/png", &b)));
                        "sign-without-intent"
                    }
                    8 => {
                        let mut m = kbytes.clone();
                        let p = m.len() * 2 / 3;
                        m[p] ^= 0x55;
                        note_result(run, "fail:read-tampered", &vh::catch(|| sdk::read(&kfmt, &m)));
                        "read-tampered"
                    }
                    _ => {
                        let mut rng = vh::rng::SplitMix64::new(*target as u64 + 9);
                        let g = rng.bytes(300);
                        note_result(
                            run,
                            "fail:ingredient-garbage",
                            &vh::catch(|| {
                                let mut b = Builder::from_context(sdk::context()).with_definition(sdk::simple_definition("x").to_string())?;
                                b.add_ingredient_from_stream(json!({"title": "g"}).to_string(), "image/gif", &mut Cursor::new(g)).map(|_| ())
                            }),
                        );
                        "ingredient-garbage"
                    }
                };
                run.count(&format!("failing_op:{what}"));
                st.fails.push(at);
            }
        }
    }
    let end = case.ops.len() + 1;

    if dbg {
        eprintln!("[{:?}] ops done", t_all.elapsed());
    }
    // ---- (b) probe signing after the sequence and in a fresh process
    let after = do_probe(&probe);
    note_result(run, "probe_after", &after);
    let after_o = match &after {
        Ok(Ok((fmt, b))) => read_cross(fmt, b),
        Ok(Err(e)) => Outcome::Err(err_kind(e)),
        Err(p) => Outcome::Panic(vh::core::panic_site(p)),
    };
    let mut after_cmp = after_o.clone();
    if selftest == "sign-state" && !case.ops.is_empty() {
        if let Outcome::Ok { report, .. } = &mut after_cmp {
            report["selftest"] = json!("state leaked into signing");
        }
    }
    if before_o != after_cmp {
        return Err(Fail::new(
            format!("C38:resign-differs-after-sequence:{}", cause(&st, 0, end)),
            format!("probe {:?} signed before and after the sequence: {}", probe, diff(&before_o, &after_cmp)),
        ));
    }
    match run_child(&json!({"mode": "probe", "probe": probe})) {
        Err(e) => {
            run.inconclusive(format!("child process (probe) failed: {e}"));
            return Ok(());
        }
        Ok(v) => {
            let res: Vec<Outcome> = serde_json::from_value(v["results"].clone()).unwrap_or_default();
            run.count("child:probe");
            if res.len() != 1 || res[0] != after_o {
                return Err(Fail::new(
                    format!("C38:resign-differs-from-fresh-process:{}", cause(&st, 0, end)),
                    format!("probe {:?} signed at the end of the sequence and in a fresh process: {}", probe, res.first().map(|r| diff(&after_o, r)).unwrap_or_else(|| "no child result".into())),
                ));
            }
        }
    }

    if dbg {
        eprintln!("[{:?}] probe done", t_all.elapsed());
    }
    // ---- (a)/(c) every kept asset: in-process twice and in fresh child processes
    let dir = work_dir();
    let mut files: Vec<PathBuf> = vec![];
    for k in &st.kept {
        let file = dir.join(format!("asset-{}-{}.bin", std::process::id(), COUNTER.fetch_add(1, Ordering::SeqCst)));
        if let Err(e) = std::fs::write(&file, &k.bytes) {
            run.inconclusive(format!("cannot write {file:?}: {e}"));
            return Ok(());
        }
        files.push(file);
    }
    let res = final_checks(run, &mut st, end, &files, selftest);
    for f in &files {
        let _ = std::fs::remove_file(f);
    }
    res?;
    if dbg {
        eprintln!("[{:?}] final done", t_all.elapsed());
    }

    let nontrivial = context_op_after_perturbation || st.multi_merkle_reread || st.kept.iter().any(|k| k.multi_merkle);
    if nontrivial {
        run.nontrivial(case);
    }
    run.count(if nontrivial { "case:nontrivial" } else { "case:trivial" });
    run.count(&format!("case:kept_assets={}", st.kept.len().min(9)));
    Ok(())
}

fn final_checks(run: &Run, st: &mut State, end: usize, files: &[PathBuf], selftest: &str) -> CaseResult {
    // in-process: every (asset, settings) pair read twice more (compared with all earlier reads)
    let mut pairs: Vec<(usize, u8)> = vec![];
    for t in 0..st.kept.len() {
        if st.kept[t].multi_merkle {
            continue;
        }
        let mut sidxs: Vec<u8> = st.kept[t].reads.keys().copied().collect();
        if !sidxs.contains(&0) {
            sidxs.push(0);
        }
        for sidx in sidxs {
            judged_read(run, st, t, sidx, end, selftest)?;
            judged_read(run, st, t, sidx, end, selftest)?;
            pairs.push((t, sidx));
        }
    }
    let multi: Vec<usize> = (0..st.kept.len()).filter(|t| st.kept[*t].multi_merkle).collect();

    // (c) repeated reads of multi-mdat Merkle assets: 24 in-process + 2 x 12 in two child processes
    let s0 = read_settings(0);
    let mut tallies: Vec<BTreeMap<String, usize>> = vec![BTreeMap::new(); multi.len()];
    let mut examples: Vec<BTreeMap<String, Vec<String>>> = vec![BTreeMap::new(); multi.len()];
    let mut firsts: Vec<Option<Outcome>> = vec![None; multi.len()];
    let mut report_differs: Vec<Option<String>> = vec![None; multi.len()];
    let mut tally = |i: usize, o: &Outcome, place: &str| {
        *tallies[i].entry(format!("{place}:{}", o.state())).or_insert(0) += 1;
        if let Outcome::Ok { verdict, .. } = o {
            examples[i].entry(verdict.state.clone()).or_insert_with(|| verdict.codes.iter().filter(|c| c.starts_with("F:")).cloned().collect());
        }
        match &firsts[i] {
            None => firsts[i] = Some(o.clone()),
            Some(f) => {
                if f != o && f.state() == o.state() && report_differs[i].is_none() {
                    report_differs[i] = Some(format!("{place}: {}", diff(f, o)));
                }
            }
        }
    };
    for (i, t) in multi.iter().enumerate() {
        let k = &st.kept[*t];
        for _ in 0..24 {
            tally(i, &read_outcome(&s0, &k.format, &k.bytes), "in-process");
        }
    }

    // child A: every judged pair once + every multi asset 12x; child B: the multi assets 12x again
    let mut items: Vec<Value> = pairs.iter().map(|(t, sidx)| json!({"file": files[*t], "format": st.kept[*t].format, "settings": read_settings(*sidx), "repeat": 1})).collect();
    let multi_items: Vec<Value> = multi.iter().map(|t| json!({"file": files[*t], "format": st.kept[*t].format, "settings": s0, "repeat": 12})).collect();
    items.extend(multi_items.iter().cloned());
    let child_a = match child_reads(&items) {
        Ok(v) if v.len() == items.len() => v,
        Ok(v) => {
            run.inconclusive(format!("child process returned {} results for {} items", v.len(), items.len()));
            return Ok(());
        }
        Err(e) => {
            run.inconclusive(format!("child process (reads) failed: {e}"));
            return Ok(());
        }
    };
    run.count("child:reads-batch");
    for (i, _) in multi.iter().enumerate() {
        child_a[pairs.len() + i].iter().for_each(|o| tally(i, o, "child"));
    }
    if !multi.is_empty() {
        match child_reads(&multi_items) {
            Ok(v) if v.len() == multi.len() => {
                for (i, r) in v.iter().enumerate() {
                    r.iter().for_each(|o| tally(i, o, "child"));
                }
            }
            Ok(_) | Err(_) => {
                run.inconclusive("child process (multi-mdat reads) failed");
                return Ok(());
            }
        }
    }
    for (i, t) in multi.iter().enumerate() {
        let k = &st.kept[*t];
        run.count("multi_mdat_merkle_asset_read_48x");
        if std::env::var("VERIF_DEBUG").is_ok() {
            eprintln!("multi-mdat asset {} {:?}: {:?}", k.how, top_boxes(&k.bytes).iter().map(|b| (b.0.clone(), b.2 - b.1)).collect::<Vec<_>>(), tallies[i]);
        }
        let states: std::collections::BTreeSet<String> = tallies[i].keys().map(|k| k.split(':').skip(1).collect::<Vec<_>>().join(":")).collect();
        if states.len() > 1 {
            run.count("multi_mdat_merkle:reads_disagree");
            return Err(Fail::new(
                "C38:multi-mdat-merkle-read-nondeterministic",
                format!(
                    "asset #{t} ({}, {} bytes, top-level boxes {:?}) read 24x in-process and 2x12 in child processes with identical settings: {:?}; failure codes per state {:?}",
                    k.how,
                    k.bytes.len(),
                    top_boxes(&k.bytes).iter().map(|b| b.0.clone()).collect::<Vec<_>>(),
                    tallies[i],
                    examples[i]
                ),
            ));
        }
        run.count(&format!("multi_mdat_merkle:reads_agree:{}:{}", class_of(k), states.iter().next().cloned().unwrap_or_default()));
        if let Some(d) = &report_differs[i] {
            return Err(Fail::new(
                "C38:multi-mdat-merkle-report-differs-between-reads",
                format!("asset #{t} ({}): same validation state on 48 reads but the report differs: {d}", k.how),
            ));
        }
    }

    // (a) fresh-process reads of everything else
    for (i, (t, sidx)) in pairs.iter().enumerate() {
        let k = &st.kept[*t];
        let mine = &k.reads[sidx].0;
        let theirs = &child_a[i];
        run.count("child:read");
        if theirs.len() != 1 || theirs[0] != *mine {
            return Err(Fail::new(
                format!("C38:fresh-process-read-differs:{}:{}", class_of(k), cause(st, 0, end)),
                format!(
                    "asset #{t} ({}, {} bytes) read with settings #{sidx} at the end of the sequence and in a fresh child process: {}",
                    k.how,
                    k.bytes.len(),
                    theirs.first().map(|c| diff(mine, c)).unwrap_or_else(|| "no child result".into())
                ),
            ));
        }
    }
    Ok(())
}

// ------------------------------------------------------------------------------------------------
// generator
// ------------------------------------------------------------------------------------------------

fn src_strategy() -> impl Strategy<Value = Src> {
    let n = vh::assets::KINDS.len() as u8;
    prop_oneof![
        6 => (0u8..n, 0u8..3).prop_map(|(kind, inst)| Src { kind, inst, two_mdat: false }),
        2 => (0u8..3).prop_map(|inst| Src { kind: mp4_idx(), inst, two_mdat: true }),
    ]
}

fn op_strategy() -> impl Strategy<Value = Op> {
    prop_oneof![
        5 => (src_strategy(), 0u8..3, 0u8..7, 0u8..3).prop_map(|(src, binding, alg, def)| {
            // two-mdat sources mostly with a Merkle tree; BMFF kinds get the Merkle binding more often
            let binding = if src.two_mdat && binding != 0 { 2 } else { binding };
            Op::Sign { src, binding, alg, def }
        }),
        1 => (any::<bool>(), 0u8..2, 0u8..4).prop_map(|(two, leaf_kb, inst)| Op::Embeddable { two, leaf_kb, inst }),
        5 => (0u8..14, 0u8..3, any::<bool>()).prop_map(|(target, settings, twice)| Op::Read { target, settings, twice }),
        1 => (0u8..14).prop_map(|target| Op::LegacyRead { target }),
        2 => (0u8..14, src_strategy(), 0u8..3).prop_map(|(target, src, rel)| Op::Ingredient { target, src: Src { two_mdat: false, ..src }, rel }),
        1 => (0u8..14).prop_map(|target| Op::Update { target }),
        1 => (src_strategy(), 0u8..3, any::<bool>()).prop_map(|(src, def, legacy_restore)| Op::Archive { src: Src { two_mdat: false, ..src }, def, legacy_restore }),
        3 => (0u8..TL_SETTERS as u8).prop_map(|which| Op::TlSet { which }),
        3 => (0u8..10, 0u8..14).prop_map(|(kind, target)| Op::Fail { kind, target }),
    ]
}

fn case_strategy() -> impl Strategy<Value = Case> {
    (
        proptest::collection::vec(op_strategy(), 1..=12),
        (src_strategy(), 0u8..3, 0u8..7, 0u8..3, 0u8..3),
    )
        .prop_map(|(ops, (src, binding, alg, def, kind))| Case { ops, probe: Probe { src: Src { two_mdat: false, ..src }, binding, alg, def, kind } })
}

// ------------------------------------------------------------------------------------------------
// per-thread histories (streams "trust_histories" and "legacy_histories")
//
// Oracle of both streams: an operation's result equals the result of the same operation in a pristine thread.
// Every history, every reference run and every read-back observation runs on its own freshly spawned thread.
// ------------------------------------------------------------------------------------------------

/// Run `f` on a freshly spawned thread (pristine thread-locals); panics are caught and returned as text.
fn fresh<T: Send>(f: impl FnOnce() -> T + Send) -> Result<T, String> {
    std::thread::scope(|s| {
        let h = std::thread::Builder::new().name("c38-fresh".into()).stack_size(8 << 20).spawn_scoped(s, || vh::catch(f));
        match h.map(|h| h.join()) {
            Ok(Ok(r)) => r,
            Ok(Err(_)) => Err("fresh thread died".into()),
            Err(e) => Err(format!("fresh thread could not be spawned: {e}")),
        }
    })
}

const POOL_ALGS: [&str; 3] = ["ed25519", "es256", "ps256"];

struct Pool {
    /// (format, bytes, description); 0..3 signed here with POOL_ALGS[i], 3 = fixture C.jpg (foreign signer)
    assets: Vec<(String, Vec<u8>, String)>,
    /// PEM of the end-entity certificate of POOL_ALGS[i]
    ee_pem: Vec<String>,
    /// base64(sha256(DER)) of the end-entity certificate of POOL_ALGS[0] (hash form of an allowed list)
    ee0_hash: String,
    anchors_full: String,
    anchors_half: String,
    store_cfg: String,
    fixture_allowed: String,
}

fn pem_blocks(txt: &str) -> Vec<String> {
    let mut out = vec![];
    let mut cur = String::new();
    let mut inside = false;
    for l in txt.lines() {
        if l.contains("-----BEGIN CERTIFICATE-----") {
            inside = true;
            cur.clear();
        }
        if inside {
            cur.push_str(l.trim_end());
            cur.push('\n');
        }
        if l.contains("-----END CERTIFICATE-----") && inside {
            inside = false;
            out.push(cur.clone());
        }
    }
    out
}

static POOL: std::sync::OnceLock<Result<Pool, String>> = std::sync::OnceLock::new();

fn pool() -> Result<&'static Pool, String> {
    POOL.get_or_init(|| {
        fresh(|| -> Result<Pool, String> {
            let (fmt, src) = source(&Src { kind: 0, inst: 0, two_mdat: false });
            let mut assets = vec![];
            let mut ee_pem = vec![];
            for alg in POOL_ALGS {
                let signer = sdk::signer(alg);
                let b = sdk::sign_with(sdk::context(), &sdk::simple_definition(&format!("c38 pool {alg}")), Some(BuilderIntent::Create(DigitalSourceType::Empty)), signer.as_ref(), &fmt, &src)
                    .map_err(|e| format!("pool signing with {alg}: {e}"))?;
                assets.push((fmt.clone(), b, format!("pool:{alg}")));
                let chain = String::from_utf8_lossy(&sdk::credential(alg).0).to_string();
                ee_pem.push(pem_blocks(&chain).into_iter().next().ok_or("no certificate in fixture chain")?);
            }
            assets.push(("image/jpeg".into(), sdk::fixture("C.jpg"), "fixture:C.jpg".into()));
            let der = openssl::x509::X509::from_pem(ee_pem[0].as_bytes()).and_then(|c| c.to_der()).map_err(|e| format!("EE certificate: {e}"))?;
            let ee0_hash = openssl::base64::encode_block(&openssl::sha::sha256(&der));
            let anchors_full = sdk::test_anchors();
            let roots = pem_blocks(&anchors_full);
            let anchors_half = roots[..roots.len() / 2].concat();
            Ok(Pool {
                assets,
                ee_pem,
                ee0_hash,
                anchors_full,
                anchors_half,
                store_cfg: String::from_utf8_lossy(&sdk::fixture("certs/trust/store.cfg")).to_string(),
                fixture_allowed: String::from_utf8_lossy(&sdk::fixture("certs/trust/allowed_list.pem")).to_string(),
            })
        })
        .unwrap_or_else(Err)
    })
    .as_ref()
    .map_err(|e| e.clone())
}

// ---------------------------------------------------------------- stream A: trust settings per operation

#[derive(Clone, Debug, Serialize, Deserialize, PartialEq, Eq, Hash)]
struct TrustCtx {
    /// 0 none, 1 fixture root bundle, 2 first half of the bundle
    anchors: u8,
    /// same coding, as `trust.user_anchors`
    user: u8,
    /// 0 none, 1 fixture store.cfg, 2 documentSigning only
    config: u8,
    /// 0 none, 1..=3 end-entity certificate of pool signer i-1, 4 fixture allowed_list.pem (other certificates),
    /// 5 all three pool signers, 6 hash form (base64 SHA-256 of the DER) of pool signer 0
    allowed: u8,
}

impl TrustCtx {
    fn key(&self) -> (u8, u8, u8) {
        (self.anchors % 3, self.user % 3, self.config % 3)
    }
    /// pool signers whose end-entity certificate is on this context's allowed list
    fn members(&self) -> Vec<u8> {
        match self.allowed % 7 {
            a @ 1..=3 => vec![a - 1],
            5 => vec![0, 1, 2],
            6 => vec![0],
            _ => vec![],
        }
    }
}

#[derive(Clone, Debug, Serialize, Deserialize, PartialEq, Eq, Hash)]
enum TOp {
    Read { asset: u8, ctx: TrustCtx },
    /// add_ingredient_from_stream of a pool asset + sign, all with `ctx`
    Ingredient { asset: u8, ctx: TrustCtx, rel: u8 },
    /// Builder::sign with pool signer `alg` under `ctx`
    Sign { alg: u8, ctx: TrustCtx },
}

impl TOp {
    fn ctx(&self) -> &TrustCtx {
        match self {
            TOp::Read { ctx, .. } | TOp::Ingredient { ctx, .. } | TOp::Sign { ctx, .. } => ctx,
        }
    }
    fn kind(&self) -> &'static str {
        match self {
            TOp::Read { .. } => "read",
            TOp::Ingredient { .. } => "ingredient",
            TOp::Sign { .. } => "sign",
        }
    }
    /// pool signer of the asset whose credential this operation validates (None: foreign fixture / nothing read)
    fn validated_signer(&self) -> Option<u8> {
        match self {
            TOp::Read { asset, .. } | TOp::Ingredient { asset, .. } => {
                let a = asset % 4;
                (a < 3).then_some(a)
            }
            TOp::Sign { alg, .. } => Some(alg % 3),
        }
    }
}

#[derive(Clone, Debug, Serialize, Deserialize, PartialEq, Eq, Hash)]
struct TrustCase {
    ops: Vec<TOp>,
}

/// Settings of one operation; `leaked` (self-test only) = pool signers whose certificates are added to the allowed list.
fn trust_settings(p: &Pool, c: &TrustCtx, leaked: &[u8]) -> Value {
    let mut st = sdk::base_settings(false);
    let bundle = |i: u8| match i % 3 {
        1 => Some(p.anchors_full.clone()),
        2 => Some(p.anchors_half.clone()),
        _ => None,
    };
    let mut trust = serde_json::Map::new();
    if let Some(b) = bundle(c.anchors) {
        trust.insert("trust_anchors".into(), json!(b));
    }
    if let Some(b) = bundle(c.user) {
        trust.insert("user_anchors".into(), json!(b));
    }
    match c.config % 3 {
        1 => {
            trust.insert("trust_config".into(), json!(p.store_cfg));
        }
        2 => {
            trust.insert("trust_config".into(), json!("//id-kp-documentSigning\n1.3.6.1.5.5.7.3.36\n"));
        }
        _ => {}
    }
    let mut allowed: Option<String> = match c.allowed % 7 {
        a @ 1..=3 => Some(p.ee_pem[a as usize - 1].clone()),
        4 => Some(p.fixture_allowed.clone()),
        5 => Some(p.ee_pem.concat()),
        6 => Some(format!("{}\n", p.ee0_hash)),
        _ => None,
    };
    if !leaked.is_empty() {
        // self-test: emulate certificates remembered from earlier contexts of the thread
        let mut all: Vec<u8> = c.members();
        all.extend_from_slice(leaked);
        all.sort();
        all.dedup();
        let mut txt: String = all.iter().map(|i| p.ee_pem[*i as usize].clone()).collect();
        if c.allowed % 7 == 4 {
            txt.push_str(&p.fixture_allowed);
        }
        allowed = Some(txt);
    }
    if let Some(a) = allowed {
        trust.insert("allowed_list".into(), json!(a));
    }
    if !trust.is_empty() {
        st["trust"] = Value::Object(trust);
    }
    st
}

fn signed_outcome(r: Result<c2pa::Result<(String, Vec<u8>)>, String>) -> Outcome {
    match r {
        Err(pm) => Outcome::Panic(vh::core::panic_site(&pm)),
        Ok(Err(e)) => Outcome::Err(err_kind(&e)),
        // the read-back that observes a signing result runs on its own fresh thread with a fixed context
        Ok(Ok((fmt, b))) => fresh(|| read_cross(&fmt, &b)).unwrap_or_else(|e| Outcome::Panic(format!("observer: {e}"))),
    }
}

fn exec_top(p: &Pool, op: &TOp, leaked: &[u8]) -> Outcome {
    let settings = trust_settings(p, op.ctx(), leaked);
    match op {
        TOp::Read { asset, .. } => {
            let a = &p.assets[*asset as usize % p.assets.len()];
            read_outcome(&settings, &a.0, &a.1)
        }
        TOp::Ingredient { asset, rel, .. } => {
            let a = &p.assets[*asset as usize % p.assets.len()];
            let (relationship, intent) = match rel % 2 {
                0 => ("componentOf", BuilderIntent::Create(DigitalSourceType::Empty)),
                _ => ("parentOf", BuilderIntent::Edit),
            };
            let (fmt, bytes) = source(&Src { kind: 1, inst: 0, two_mdat: false });
            let signer = sdk::signer("es384");
            signed_outcome(vh::catch(|| {
                let mut b = Builder::from_context(sdk::context_with(&settings)).with_definition(sdk::simple_definition("c38 history ingredient").to_string())?;
                b.set_intent(intent);
                b.add_ingredient_from_stream(json!({"title": "ing", "relationship": relationship}).to_string(), &a.0, &mut Cursor::new(a.1.clone()))?;
                let mut out = Cursor::new(Vec::new());
                b.sign(signer.as_ref(), &fmt, &mut Cursor::new(bytes), &mut out)?;
                Ok((fmt.clone(), out.into_inner()))
            }))
        }
        TOp::Sign { alg, .. } => {
            let (fmt, bytes) = source(&Src { kind: 0, inst: 1, two_mdat: false });
            let signer = sdk::signer(POOL_ALGS[*alg as usize % 3]);
            signed_outcome(vh::catch(|| {
                sdk::sign_with(sdk::context_with(&settings), &sdk::simple_definition("c38 history sign"), Some(BuilderIntent::Create(DigitalSourceType::Empty)), signer.as_ref(), &fmt, &bytes)
                    .map(|b| (fmt.clone(), b))
            }))
        }
    }
}

static TRUST_REFS: Mutex<Option<HashMap<String, Outcome>>> = Mutex::new(None);

/// The operation executed alone on a fresh thread (memoised per distinct operation: it is a function of the operation).
fn trust_reference(run: &Run, p: &Pool, op: &TOp) -> Outcome {
    let key = serde_json::to_string(op).unwrap_or_default();
    if let Some(o) = TRUST_REFS.lock().unwrap().get_or_insert_with(HashMap::new).get(&key) {
        run.count("trust_reference:memoised");
        return o.clone();
    }
    run.count("trust_reference:computed");
    let o = fresh(|| exec_top(p, op, &[])).unwrap_or_else(|e| Outcome::Panic(format!("reference: {e}")));
    TRUST_REFS.lock().unwrap().get_or_insert_with(HashMap::new).insert(key, o.clone());
    o
}

/// index pairs (i, j), i < j: op i allows the certificate of the signer validated by op j, op j does not, same
/// anchors / user anchors / trust config
fn allowed_then_plain(ops: &[TOp]) -> Vec<(usize, usize)> {
    let mut v = vec![];
    for j in 0..ops.len() {
        let Some(s) = ops[j].validated_signer() else { continue };
        if ops[j].ctx().members().contains(&s) {
            continue;
        }
        for i in 0..j {
            if ops[i].ctx().members().contains(&s) && ops[i].ctx().key() == ops[j].ctx().key() {
                v.push((i, j));
                break;
            }
        }
    }
    v
}

fn judge_trust(run: &Run, case: &TrustCase, selftest: &str) -> CaseResult {
    let p = match pool() {
        Ok(p) => p,
        Err(e) => {
            run.inconclusive(format!("asset pool: {e}"));
            return Ok(());
        }
    };
    if case.ops.is_empty() {
        return Ok(());
    }
    let emulate = selftest == "trust-leak";
    // the whole history on ONE fresh thread
    let hist = fresh(|| {
        let mut out = vec![];
        let mut last_key: Option<(u8, u8, u8)> = None;
        let mut remembered: Vec<u8> = vec![];
        for op in &case.ops {
            let mut leaked: Vec<u8> = vec![];
            if emulate {
                if last_key == Some(op.ctx().key()) {
                    leaked = remembered.clone();
                } else {
                    remembered.clear();
                }
                last_key = Some(op.ctx().key());
                remembered.extend(op.ctx().members());
            }
            out.push(exec_top(p, op, &leaked));
        }
        out
    });
    let hist = match hist {
        Ok(h) => h,
        Err(e) => {
            run.inconclusive(format!("history thread: {e}"));
            return Ok(());
        }
    };
    let pairs = allowed_then_plain(&case.ops);
    let mut differing_ctx = false;
    for (i, op) in case.ops.iter().enumerate() {
        run.count(&format!("trust_op:{}:{}", op.kind(), hist[i].state()));
        if i > 0 && op.ctx() != case.ops[i - 1].ctx() {
            differing_ctx = true;
        }
        let reference = trust_reference(run, p, op);
        if hist[i] != reference {
            let cause = if pairs.iter().any(|(_, j)| *j == i) {
                "allowed-list-of-earlier-context"
            } else if i == 0 {
                "first-operation"
            } else {
                "earlier-operations"
            };
            return Err(Fail::new(
                format!("C38:history-op-differs-from-fresh-thread:{}:{cause}", op.kind()),
                format!("operation {} of {} on one thread ({op:?}) vs the same operation alone on a fresh thread: {}; earlier operations on the thread: {:?}", i + 1, case.ops.len(), diff(&hist[i], &reference), &case.ops[..i]),
            ));
        }
    }
    run.count(&format!("trust_history:ops={}", case.ops.len()));
    if !pairs.is_empty() {
        run.count("history_allowed_list_then_plain");
        if pairs.iter().any(|(_, j)| case.ops[*j].ctx().key() == (0, 0, 0)) {
            run.count("history_allowed_list_then_plain:no_anchors_at_all");
        }
        // the pairs where the leak would change the verdict: the plain operation alone is not Trusted
        if pairs.iter().any(|(_, j)| matches!(&hist[*j], Outcome::Ok { verdict, .. } if verdict.state != "Trusted") && matches!(case.ops[*j], TOp::Read { .. })) {
            run.count("history_allowed_list_then_plain:plain_read_not_trusted");
        }
        for (_, j) in &pairs {
            run.count(&format!("history_allowed_list_then_plain:second_op={}", case.ops[*j].kind()));
        }
        // decisive: the second operation reports the credential as untrusted (read: its own verdict; ingredient: the
        // validation status recorded for the ingredient) - a remembered allowed list would change exactly this
        if pairs.iter().any(|(_, j)| !matches!(case.ops[*j], TOp::Sign { .. }) && serde_json::to_string(&hist[*j]).unwrap_or_default().contains("signingCredential.untrusted")) {
            run.count("history_allowed_list_then_plain:second_op_reports_untrusted");
        }
    }
    let keys: std::collections::BTreeSet<(u8, u8, u8)> = case.ops.iter().map(|o| o.ctx().key()).collect();
    run.count(if keys.len() == 1 { "trust_history:one_anchor_configuration" } else { "trust_history:several_anchor_configurations" });
    if case.ops.iter().any(|o| o.ctx().allowed % 7 == 4) {
        run.count("trust_history:allowed_list_with_other_certificates");
    }
    if differing_ctx {
        run.nontrivial(case);
        run.count("trust_history:nontrivial");
    }
    Ok(())
}

fn trust_ctx_strategy() -> impl Strategy<Value = (u8, u8, u8)> {
    (
        prop_oneof![6 => Just(0u8), 2 => Just(1u8), 2 => Just(2u8)],
        prop_oneof![8 => Just(0u8), 1 => Just(1u8), 1 => Just(2u8)],
        prop_oneof![6 => Just(0u8), 3 => Just(1u8), 1 => Just(2u8)],
    )
}

fn trust_case_strategy() -> impl Strategy<Value = TrustCase> {
    // 255 = "the focus signer of this history": allowed lists and validated assets meet often enough
    let op = (
        prop_oneof![6 => Just(0u8), 2 => Just(1u8), 1 => Just(2u8)],
        prop_oneof![3 => Just(255u8), 2 => 0u8..4],
        prop_oneof![4 => Just(true), 1 => Just(false)],
        trust_ctx_strategy(),
        prop_oneof![5 => Just(0u8), 4 => Just(255u8), 1 => Just(1u8), 1 => Just(2u8), 1 => Just(3u8), 1 => Just(4u8), 1 => Just(5u8), 1 => Just(6u8)],
        0u8..2,
    );
    (trust_ctx_strategy(), 0u8..3, proptest::collection::vec(op, 2..=5)).prop_map(|(base, focus, ops)| TrustCase {
        ops: ops
            .into_iter()
            .map(|(kind, asset, keep_base, own, allowed, rel)| {
                let (anchors, user, config) = if keep_base { base } else { own };
                let asset = if asset == 255 { focus } else { asset };
                let allowed = if allowed == 255 { focus + 1 } else { allowed };
                let ctx = TrustCtx { anchors, user, config, allowed };
                match kind {
                    0 => TOp::Read { asset, ctx },
                    1 => TOp::Ingredient { asset, ctx, rel },
                    _ => TOp::Sign { alg: asset % 3, ctx },
                }
            })
            .collect(),
    })
}

// ---------------------------------------------------------------- stream B: legacy thread-local settings loads

const GOOD_LOADS: u8 = 7;
const BAD_WAYS: u8 = 10;
const RIDER_BITS: u8 = 5;
const BAD_WAY_NAMES: [&str; BAD_WAYS as usize] = [
    "allowed_list-not-pem",
    "bool-given-as-string",
    "max-decompressed-size-too-large",
    "version-too-new",
    "user_anchors-not-pem",
    "syntax-error",
    "unsupported-format",
    "auto-created-action-without-source-type",
    "cawg-anchors-not-pem",
    "allowed_list-given-as-integer",
];

#[derive(Clone, Debug, Serialize, Deserialize, PartialEq, Eq, Hash)]
enum LOp {
    /// valid configuration, `Settings::from_toml` (toml) / `Settings::from_string(.., "json")`
    Good { which: u8, json: bool },
    /// configuration that is rejected, combined with harmless keys (`riders` bit mask) that would be visible if merged
    Bad { way: u8, riders: u8, json: bool },
    /// deprecated `Reader::from_stream` of a pool asset
    Read { asset: u8 },
    /// deprecated `Builder::from_json` + sign
    Sign { alg: u8, def: u8 },
}

#[derive(Clone, Debug, Serialize, Deserialize, PartialEq, Eq, Hash)]
struct LegacyCase {
    ops: Vec<LOp>,
}

fn good_value(p: &Pool, which: u8) -> Value {
    match which % GOOD_LOADS {
        0 => json!({"trust": {"trust_anchors": p.anchors_full}}),
        1 => json!({"verify": {"verify_after_reading": false}}),
        2 => json!({"builder": {"claim_generator_info": {"name": "tl-good-generator", "version": "1"}}}),
        3 => json!({"core": {"merkle_tree_chunk_size_in_kb": 1, "prefer_compress_manifests": true}}),
        4 => json!({"trust": {"allowed_list": p.ee_pem[0]}}),
        5 => json!({"verify": {"verify_trust": false, "verify_after_sign": false}}),
        _ => json!({"builder": {"vendor": "goodvendor", "thumbnail": {"enabled": false}}}),
    }
}

fn riders_value(p: &Pool, riders: u8) -> Value {
    let mut v = json!({});
    if riders & 1 != 0 {
        sdk::merge(&mut v, &json!({"verify": {"verify_after_reading": false}}));
    }
    if riders & 2 != 0 {
        sdk::merge(&mut v, &json!({"builder": {"claim_generator_info": {"name": "leaked-generator", "version": "6.6"}}}));
    }
    if riders & 4 != 0 {
        sdk::merge(&mut v, &json!({"verify": {"verify_trust": false}}));
    }
    if riders & 8 != 0 {
        sdk::merge(&mut v, &json!({"trust": {"trust_anchors": p.anchors_full}}));
    }
    if riders & 16 != 0 {
        sdk::merge(&mut v, &json!({"builder": {"vendor": "leakedvendor"}}));
    }
    v
}

fn render(v: &Value, json: bool) -> (String, &'static str) {
    if !json {
        if let Ok(t) = toml::to_string(v) {
            return (t, "toml");
        }
    }
    (v.to_string(), "json")
}

/// (text, format) of a configuration that `Settings::from_string` rejects.
fn bad_text(p: &Pool, way: u8, riders: u8, json: bool) -> (String, &'static str) {
    let mut v = riders_value(p, riders);
    match way % BAD_WAYS {
        0 => sdk::merge(&mut v, &json!({"trust": {"allowed_list": "this is !! not a PEM bundle ##"}})),
        1 => sdk::merge(&mut v, &json!({"verify": {"strict_v1_validation": "maybe"}})),
        2 => sdk::merge(&mut v, &json!({"core": {"max_decompressed_manifest_size_in_mb": 99999999}})),
        3 => {
            // scalar first: TOML needs top-level values before tables
            let mut w = json!({"version": 99});
            sdk::merge(&mut w, &v);
            v = w;
        }
        4 => sdk::merge(&mut v, &json!({"trust": {"user_anchors": "-----BEGIN CERTIFICATE-----\n%%%%\n-----END CERTIFICATE-----\n"}})),
        5 => {
            let (t, f) = render(&v, json);
            return (if f == "toml" { format!("{t}\nnot [valid toml\n") } else { format!("{t} trailing {{") }, f);
        }
        6 => return (render(&v, json).0, "yaml"),
        7 => sdk::merge(&mut v, &json!({"builder": {"actions": {"auto_created_action": {"enabled": true}}}})),
        8 => sdk::merge(&mut v, &json!({"cawg_trust": {"trust_anchors": "no certificates here !!"}})),
        _ => sdk::merge(&mut v, &json!({"trust": {"allowed_list": 42}})),
    }
    render(&v, json)
}

#[allow(deprecated)]
fn tl_load(text: &str, fmt: &str) -> Result<(), String> {
    let r = if fmt == "toml" { vh::catch(|| Settings::from_toml(text)) } else { vh::catch(|| Settings::from_string(text, fmt).map(|_| ())) };
    match r {
        Ok(Ok(())) => Ok(()),
        Ok(Err(e)) => Err(err_kind(&e)),
        Err(p) => Err(format!("panic:{}", vh::core::panic_site(&p))),
    }
}

/// Text of the thread's settings (the public accessor of the thread-local configuration).
#[allow(deprecated)]
fn tl_text() -> String {
    match vh::catch(Settings::to_toml) {
        Ok(Ok(t)) => t,
        Ok(Err(e)) => format!("to_toml error: {}", err_kind(&e)),
        Err(p) => format!("to_toml panic: {}", vh::core::panic_site(&p)),
    }
}

fn first_line_diff(a: &str, b: &str) -> String {
    let (la, lb): (Vec<&str>, Vec<&str>) = (a.lines().collect(), b.lines().collect());
    for i in 0..la.len().max(lb.len()) {
        let (x, y) = (la.get(i).copied().unwrap_or("<end>"), lb.get(i).copied().unwrap_or("<end>"));
        if x != y {
            let cut = |s: &str| s.chars().take(90).collect::<String>();
            return format!("line {}: {:?} vs {:?}", i + 1, cut(x), cut(y));
        }
    }
    "equal".into()
}

#[derive(Clone, Debug, PartialEq)]
enum LStep {
    /// result of a load that is expected to succeed
    Load(Result<(), String>),
    /// a rejected load (left out of the reference run)
    Rejected,
    Op(Outcome),
}

#[derive(Clone, Debug, PartialEq)]
struct LRun {
    steps: Vec<LStep>,
    /// a valid load at the end of every history
    final_load: Result<(), String>,
    final_text: String,
}

/// One legacy history on the current (fresh) thread. `attempt_bad == false` is the reference run: the thread never
/// sees the rejected configurations.
#[allow(deprecated)]
fn exec_legacy(run: &Run, p: &Pool, case: &LegacyCase, attempt_bad: bool, selftest: &str) -> Result<LRun, Fail> {
    let mut steps = vec![];
    let mut failed_before = false;
    for (i, op) in case.ops.iter().enumerate() {
        match op {
            LOp::Good { which, json } => {
                let (t, f) = render(&good_value(p, *which), *json);
                let mut r = tl_load(&t, f);
                if selftest == "legacy-refuse" && attempt_bad && failed_before {
                    r = Err("selftest: refused".into());
                }
                steps.push(LStep::Load(r));
            }
            LOp::Bad { way, riders, json } => {
                if !attempt_bad {
                    steps.push(LStep::Rejected);
                    continue;
                }
                let (t, f) = bad_text(p, *way, *riders, *json);
                let before = tl_text();
                let r = tl_load(&t, f);
                if selftest.starts_with("legacy-leak") && r.is_err() {
                    // self-test: emulate "the rejected configuration stays merged" with its harmless part
                    let _ = tl_load(&riders_value(p, *riders).to_string(), "json");
                }
                let after = tl_text();
                let name = BAD_WAY_NAMES[(*way % BAD_WAYS) as usize];
                match r {
                    Ok(()) => {
                        return Err(Fail::new(
                            format!("C38:legacy-load-rejected-alone-accepted-in-history:{name}"),
                            format!("op {} {op:?}: this configuration is rejected on a pristine thread but was accepted after {:?}", i + 1, &case.ops[..i]),
                        ));
                    }
                    Err(e) => run.count(&format!("legacy_failed_load:{name}:{e}")),
                }
                if before != after && selftest != "legacy-leak-no-text" {
                    return Err(Fail::new(
                        format!("C38:legacy-failed-load-changed-thread-settings:{name}"),
                        format!("op {} {op:?} returned Err but Settings::to_toml() of the thread differs from the text before the load: {}; earlier ops {:?}", i + 1, first_line_diff(&before, &after), &case.ops[..i]),
                    ));
                }
                failed_before = true;
                steps.push(LStep::Rejected);
            }
            LOp::Read { asset } => {
                let a = &p.assets[*asset as usize % p.assets.len()];
                steps.push(LStep::Op(outcome_of(vh::catch(|| Reader::from_stream(&a.0, Cursor::new(a.1.clone()))), false)));
            }
            LOp::Sign { alg, def } => {
                let (fmt, bytes) = source(&Src { kind: 0, inst: 2, two_mdat: false });
                let (d, intent) = definition(*def, "c38 legacy history sign");
                let signer = sdk::signer(POOL_ALGS[*alg as usize % 3]);
                steps.push(LStep::Op(signed_outcome(vh::catch(|| {
                    let mut b = Builder::from_json(&d.to_string())?;
                    if let Some(i) = intent {
                        b.set_intent(i);
                    }
                    let mut out = Cursor::new(Vec::new());
                    b.sign(signer.as_ref(), &fmt, &mut Cursor::new(bytes), &mut out)?;
                    Ok((fmt.clone(), out.into_inner()))
                }))));
            }
        }
    }
    let mut final_load = tl_load("[verify]\nocsp_fetch = false\n", "toml");
    if selftest == "legacy-refuse" && attempt_bad && failed_before {
        final_load = Err("selftest: refused".into());
    }
    Ok(LRun { steps, final_load, final_text: tl_text() })
}

fn judge_legacy(run: &Run, case: &LegacyCase, selftest: &str) -> CaseResult {
    let p = match pool() {
        Ok(p) => p,
        Err(e) => {
            run.inconclusive(format!("asset pool: {e}"));
            return Ok(());
        }
    };
    let n_bad = case.ops.iter().filter(|o| matches!(o, LOp::Bad { .. })).count();
    let hist = match fresh(|| exec_legacy(run, p, case, true, selftest)) {
        Ok(r) => r?,
        Err(e) => {
            run.inconclusive(format!("legacy history thread: {e}"));
            return Ok(());
        }
    };
    for (op, st) in case.ops.iter().zip(&hist.steps) {
        match (op, st) {
            (LOp::Read { .. }, LStep::Op(o)) => run.count(&format!("legacy_history_read:{}", o.state())),
            (LOp::Sign { .. }, LStep::Op(o)) => run.count(&format!("legacy_history_sign:{}", o.state())),
            (LOp::Good { which, .. }, LStep::Load(r)) => run.count(&format!("legacy_good_load:{}:{}", which % GOOD_LOADS, if r.is_ok() { "ok" } else { "err" })),
            _ => {}
        }
    }
    run.count(&format!("legacy_history:failed_loads={n_bad}"));
    if n_bad == 0 {
        return Ok(());
    }
    run.count("history_failed_legacy_load");
    // reference: a thread that never attempted the rejected loads (same successful loads, same operations)
    let reference = match fresh(|| exec_legacy(run, p, case, false, "")) {
        Ok(r) => r?,
        Err(e) => {
            run.inconclusive(format!("legacy reference thread: {e}"));
            return Ok(());
        }
    };
    let mut seen_bad = false;
    let mut followers = 0;
    for (i, (a, b)) in hist.steps.iter().zip(&reference.steps).enumerate() {
        let op = &case.ops[i];
        if matches!(op, LOp::Bad { .. }) {
            seen_bad = true;
            continue;
        }
        if seen_bad {
            followers += 1;
        }
        if a != b {
            let (sig, what) = match (a, b) {
                (LStep::Load(x), LStep::Load(y)) => ("valid-load-result-differs".to_string(), format!("{x:?} vs {y:?}")),
                (LStep::Op(x), LStep::Op(y)) => (format!("{}-differs", if matches!(op, LOp::Read { .. }) { "legacy-read" } else { "legacy-sign" }), diff(x, y)),
                _ => ("step-kind-differs".to_string(), format!("{a:?} vs {b:?}")),
            };
            return Err(Fail::new(
                format!("C38:legacy-after-failed-load:{sig}"),
                format!("op {} {op:?} on a thread that attempted the rejected loads vs a thread that never did: {what}; history {:?}", i + 1, case.ops),
            ));
        }
    }
    if hist.final_load != reference.final_load {
        return Err(Fail::new(
            "C38:legacy-after-failed-load:valid-load-result-differs",
            format!("closing valid load: {:?} vs {:?} on a thread that never attempted the rejected loads; history {:?}", hist.final_load, reference.final_load, case.ops),
        ));
    }
    if hist.final_load.is_err() {
        return Err(Fail::new("C38:legacy-valid-load-refused", format!("closing valid load refused on both threads: {:?}; history {:?}", hist.final_load, case.ops)));
    }
    if hist.final_text != reference.final_text && selftest != "legacy-leak-no-text" {
        return Err(Fail::new(
            "C38:legacy-after-failed-load:final-thread-settings-differ",
            format!("Settings::to_toml() at the end: {}; history {:?}", first_line_diff(&hist.final_text, &reference.final_text), case.ops),
        ));
    }
    if followers > 0 {
        run.nontrivial(case);
        run.count("legacy_history:failed_load_followed_by_ops");
    }
    if case.ops.iter().any(|o| matches!(o, LOp::Bad { riders, .. } if riders % (1 << RIDER_BITS) != 0)) {
        run.count("legacy_history:failed_load_with_observable_riders");
    }
    if case.ops.iter().any(|o| matches!(o, LOp::Good { .. })) {
        run.count("legacy_history:mixes_successful_and_failed_loads");
    }
    Ok(())
}

fn legacy_case_strategy() -> impl Strategy<Value = LegacyCase> {
    let op = prop_oneof![
        3 => (0u8..GOOD_LOADS, any::<bool>()).prop_map(|(which, json)| LOp::Good { which, json }),
        5 => (0u8..BAD_WAYS, 0u8..(1 << RIDER_BITS), any::<bool>()).prop_map(|(way, riders, json)| LOp::Bad { way, riders, json }),
        4 => (0u8..4).prop_map(|asset| LOp::Read { asset }),
        2 => (0u8..3, 0u8..3).prop_map(|(alg, def)| LOp::Sign { alg, def }),
    ];
    proptest::collection::vec(op, 2..=6).prop_map(|ops| LegacyCase { ops })
}

/// The expectation table itself, on pristine threads: every "bad" configuration is rejected, every "good" one accepted.
fn legacy_table_check(run: &Run) {
    let p = match pool() {
        Ok(p) => p,
        Err(e) => {
            run.inconclusive(format!("asset pool: {e}"));
            return;
        }
    };
    for json in [false, true] {
        for way in 0..BAD_WAYS {
            for riders in [0u8, (1 << RIDER_BITS) - 1] {
                let (t, f) = bad_text(p, way, riders, json);
                match fresh(|| tl_load(&t, f)) {
                    Ok(Err(_)) => run.count("legacy_table:bad_rejected"),
                    other => run.inconclusive(format!("harness table: configuration {} (riders {riders}, json {json}) is not rejected on a pristine thread: {other:?}", BAD_WAY_NAMES[way as usize])),
                }
            }
        }
        for which in 0..GOOD_LOADS {
            let (t, f) = render(&good_value(p, which), json);
            match fresh(|| tl_load(&t, f)) {
                Ok(Ok(())) => run.count("legacy_table:good_accepted"),
                other => run.inconclusive(format!("harness table: good configuration {which} (json {json}) is not accepted on a pristine thread: {other:?}")),
            }
        }
        for riders in 0..(1u8 << RIDER_BITS) {
            let (t, f) = render(&riders_value(p, riders), json);
            if !matches!(fresh(|| tl_load(&t, f)), Ok(Ok(()))) {
                run.inconclusive(format!("harness table: riders {riders} alone (json {json}) are not a valid configuration"));
            }
        }
    }
}

/// The sequence runs on a fresh thread: thread-local settings start pristine for every case (and for replays).
fn on_fresh_thread(run: &Run, case: &Case, selftest: &str) -> CaseResult {
    std::thread::scope(|s| {
        let h = std::thread::Builder::new().name("c38-case".into()).stack_size(8 << 20).spawn_scoped(s, || {
            vh::catch(|| run_case(run, case, selftest))
        });
        match h.map(|h| h.join()) {
            Ok(Ok(Ok(r))) => r,
            Ok(Ok(Err(p))) => {
                run.inconclusive(format!("harness panic: {p}"));
                Ok(())
            }
            _ => {
                run.inconclusive("case thread could not be run");
                Ok(())
            }
        }
    })
}

fn main() {
    let args: Vec<String> = std::env::args().collect();
    if args.len() >= 3 && args[1] == "--child" {
        child_main(&args[2]);
    }
    vh::quiet_panics();
    let run = Run::from_args("C38", "exploration");
    let selftest = std::env::var("VERIF_SELFTEST").unwrap_or_default();
    run.set_rule("case = sequence of 1..12 operations in one process on a fresh thread (process-wide state inherited from all earlier cases): Builder::sign of a synthesised asset (16 container kinds x data/BMFF hash | compressed manifest + box hash | BMFF Merkle 1 KB, incl. MP4 instances with two mdat boxes; 7 algorithms; claim v1/v2), embeddable BMFF flow (placeholder, hash_bmff_mdat_bytes on 1-2 mdat boxes, sign_embeddable), context read with one of 3 settings (once or twice), deprecated Reader::from_stream, add_ingredient_from_stream of a kept asset + sign, update manifest on a kept asset, to_archive + with_archive/from_archive + sign, 6 deprecated thread-local setters (Settings::from_toml / from_string), 10 failing operations (garbage, wrong format, unsupported format, truncated, tampered, bad settings text, bad definition, missing intent); plus a probe signing before / after the sequence and in a child process. Non-trivial = a context-based operation follows a thread-local setter or a failing operation, or an asset with a Merkle tree over two mdat boxes is produced / re-read. Streams trust_histories / legacy_histories: 2-5 (2-6) operations on one fresh thread with per-operation trust settings (resp. accepted and rejected deprecated thread-local settings loads followed by deprecated reads / signs), each operation compared with the same operation on a pristine thread; non-trivial = consecutive operations with different trust settings (resp. a rejected load followed by at least one further operation).");
    run.assume("report_same_bytes removes only the validation time; report_cross_run blanks URNs, instance ids, times, hashes, signatures (shared normaliser vh::sdk)");
    run.assume("the child process is this binary re-executed (/proc/self/exe --child job.json) with the settings passed explicitly; it runs the same read helper on the same bytes");
    run.assume("assets with a BMFF Merkle tree over two mdat boxes are judged only by oracle (c) (48 reads, all verdicts equal); they are excluded from the other comparisons by their class");
    let _ = std::fs::create_dir_all(work_dir());
    // wipe leftovers of earlier runs (files carry the pid of their writer; live writers are left alone)
    if let Ok(rd) = std::fs::read_dir(work_dir()) {
        for e in rd.flatten() {
            let name = e.file_name().to_string_lossy().to_string();
            let pid = name.split('-').nth(1).unwrap_or("");
            if pid.is_empty() || !std::path::Path::new(&format!("/proc/{pid}")).exists() {
                let _ = std::fs::remove_file(e.path());
            }
        }
    }

    // directed sequences for the reading-based suspicions (thread-local state consulted on context paths)
    let mp4 = Src { kind: mp4_idx(), inst: 0, two_mdat: false };
    let jpeg = Src { kind: 0, inst: 0, two_mdat: false };
    let pr = Probe { src: mp4.clone(), binding: 1, alg: 1, def: 0, kind: 0 };
    let mut directed: Vec<Case> = vec![];
    for which in 0..TL_SETTERS as u8 {
        // BMFF with compressed manifests + update manifest (bmff_io reads the stores through the legacy
        // Store::from_jumbf = thread-local core.max_decompressed_manifest_size_in_mb), setter before / between
        directed.push(Case {
            ops: vec![
                Op::Sign { src: mp4.clone(), binding: 1, alg: 0, def: 0 },
                Op::Update { target: 1 },
                Op::Read { target: 2, settings: 0, twice: true },
                Op::TlSet { which },
                Op::Read { target: 2, settings: 0, twice: false },
                Op::Update { target: 2 },
                Op::Read { target: 3, settings: 0, twice: false },
            ],
            probe: pr.clone(),
        });
        directed.push(Case {
            ops: vec![
                Op::TlSet { which },
                Op::Sign { src: jpeg.clone(), binding: (which % 3), alg: 2, def: 1 },
                Op::Ingredient { target: 1, src: mp4.clone(), rel: 1 },
                Op::Archive { src: jpeg.clone(), def: 0, legacy_restore: false },
                Op::Read { target: 1, settings: 1, twice: false },
                Op::Fail { kind: which, target: 1 },
                Op::Read { target: 1, settings: 1, twice: false },
            ],
            probe: Probe { src: jpeg.clone(), binding: 0, alg: 0, def: 0, kind: which % 3 },
        });
    }
    run.drive_enum_par("directed", directed, run.scale(6, 12), |case| on_fresh_thread(&run, case, &selftest));

    let n = run.scale(60, 3000);
    let threads = run.scale(6, 16);
    run.drive_par("sequences", n, threads, case_strategy(), |case| on_fresh_thread(&run, case, &selftest));
    run.note("fresh-process reads: one child per (kept asset, settings); multi-mdat Merkle assets: 24 in-process + 2 x 12 child reads");

    // per-thread histories: every operation compared with the same operation on a pristine thread
    run.assume("histories: a freshly spawned std::thread is a pristine context for per-thread state; the reference of a trust-history operation is memoised per distinct operation (it is a function of the operation)");
    run.assume("legacy histories: the configurations of the 'rejected' table are rejected and those of the 'accepted' table accepted on a pristine thread (checked at start-up; a mismatch makes the run inconclusive)");
    legacy_table_check(&run);
    let n = run.scale(300, 8000);
    run.drive_par("trust_histories", n, threads, trust_case_strategy(), |case| judge_trust(&run, case, &selftest));
    let n = run.scale(200, 6000);
    run.drive_par("legacy_histories", n, threads, legacy_case_strategy(), |case| judge_legacy(&run, case, &selftest));
    run.note("trust_histories: 2-5 operations (context read / add ingredient + sign / sign) on one fresh thread, per-operation trust settings (anchors, user anchors, trust config, allowed list); each result compared with the same operation alone on a fresh thread");
    run.note("legacy_histories: 2-6 operations (accepted / rejected Settings::from_toml | from_string, Reader::from_stream, Builder::from_json + sign) on one fresh thread vs a thread that never attempted the rejected loads; Settings::to_toml() unchanged by a rejected load");
    run.finish();
}
