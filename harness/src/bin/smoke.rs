//! Smoke test of the shared helpers (not a property check).
use vh::sdk::*;
fn main() {
    for (label, fmt, fx) in writable_fixtures() {
        if fx.is_empty() { continue; }
        let src = fixture(fx);
        let t0 = std::time::Instant::now();
        match sign_simple(fmt, &src, "smoke") {
            Ok(out) => {
                let t1 = t0.elapsed();
                match read(fmt, &out) {
                    Ok(r) => println!("{label}: src {} -> {} bytes, sign {:?}, read {:?}, state {:?} fails {:?}", src.len(), out.len(), t1, t0.elapsed() - t1, r.validation_state(), failure_codes(&r)),
                    Err(e) => println!("{label}: read error {e}"),
                }
            }
            Err(e) => println!("{label}: sign error {e}"),
        }
    }
}
