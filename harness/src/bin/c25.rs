//! C25 — Settings updates follow JSON-merge semantics and fail atomically.
//!
//! Generated: sequences of updates (overlay documents in JSON / TOML, raw texts with format labels, path/value
//! pairs) applied to a `Settings` instance that starts at the default, plus sequences applied through the
//! deprecated thread-local API (each in its own thread). Documents are built from the settings *schema*, which
//! is learned at run time by walking `serde_json::to_value(Settings::default())` (optional sections are added
//! from a table and verified by probing).
//!
//! Oracle (harness code, no SDK merge logic):
//!  * reference recursive merge (objects key-wise, everything else — null, arrays, scalars — replaces) of
//!    `to_value(current)` with the document; SDK Ok ⇒ (A) `to_value(result) == to_value(deserialize(merged))`
//!    and (B) an independent tree comparison `matches(merged, to_value(result))` that only knows the documented
//!    normalisations (case-insensitive enums / host patterns / alg, source-type aliases, unknown keys dropped,
//!    `None` ≡ absent);
//!  * SDK Err ⇒ `to_value(settings)` unchanged (atomicity), for `update_from_str`, `set_value`, `from_string`;
//!  * `set_value(p, v)` Ok ⇒ `get_value(p)` matches `v` and everything outside `p` is unchanged;
//!  * JSON / TOML twins (TOML text verified to parse to exactly the same document) ⇒ equal settings or both fail;
//!  * `with_*` never changes the receiver.

#![allow(deprecated)]

use std::{collections::BTreeSet, sync::Arc};

use c2pa::settings::Settings;
use proptest::prelude::*;
use serde::{Deserialize, Serialize};
use serde_json::{json, Map, Value};
use vh::{rng::SplitMix64, CaseResult, Fail, Run};

// ------------------------------------------------------------------------------------------------
// cases
// ------------------------------------------------------------------------------------------------

#[derive(Clone, Debug, Serialize, Deserialize)]
enum Op {
    /// Overlay `doc`. style 0: JSON only; 1: JSON + TOML twin rendered by the `toml` crate; 2: JSON + TOML twin
    /// rendered by the harness's dotted-key renderer.
    Overlay { doc: Value, style: u8 },
    /// Raw text with a format label (possibly mangled / mislabelled).
    Text { text: String, format: String },
    /// Set a value at a dotted path.
    Set { path: String, value: Value },
}

#[derive(Clone, Debug, Serialize, Deserialize)]
struct Case {
    ops: Vec<Op>,
}

/// Thread-local API case: (text, format, use `from_toml` instead of `from_string`).
#[derive(Clone, Debug, Serialize, Deserialize)]
struct TlCase {
    steps: Vec<(String, String, bool)>,
}

/// A document of the SDK's own fixtures, overlaid on the default settings.
#[derive(Clone, Debug, Serialize, Deserialize)]
struct FixtureCase {
    file: String,
}

// ------------------------------------------------------------------------------------------------
// schema
// ------------------------------------------------------------------------------------------------

#[derive(Clone, Debug, PartialEq)]
enum Ty {
    Bool,
    UInt { max_valid: u64 },
    Str,
    Enum(Vec<&'static str>),
    Pem,
    StrArr,
    HostArr,
    SourceType,
    Intent,
    ClaimGen,
    Signer,
    Templates,
    Actions,
    Unknown,
}

#[derive(Clone, Debug)]
struct Leaf {
    path: Vec<String>,
    ty: Ty,
}

struct Schema {
    leaves: Vec<Leaf>,
    /// joined paths of known leaves
    known: BTreeSet<String>,
    /// joined paths of known objects (all proper prefixes of known leaves)
    sections: BTreeSet<String>,
    default_v: Value,
    pem_good: Vec<String>,
    pem_bad: Vec<String>,
    key_pem: String,
    cert_pem: String,
    unverified: Vec<String>,
}

fn join(p: &[String]) -> String {
    p.join("\u{1f}")
}

fn dotted(p: &[String]) -> String {
    p.join(".")
}

fn segs(p: &str) -> Vec<String> {
    p.split('.').map(|s| s.to_string()).collect()
}

fn table(path: &str) -> Option<Ty> {
    Some(match path {
        "trust.user_anchors" | "trust.trust_anchors" | "trust.allowed_list" | "cawg_trust.user_anchors"
        | "cawg_trust.trust_anchors" | "cawg_trust.allowed_list" => Ty::Pem,
        "trust.trust_config" | "cawg_trust.trust_config" | "builder.vendor" => Ty::Str,
        "cawg_trust.trusted_ica_issuers" | "builder.created_assertion_labels" | "soft_binding.soft_binding_algorithms" => {
            Ty::StrArr
        }
        "core.merkle_tree_chunk_size_in_kb" => Ty::UInt { max_valid: 1 << 40 },
        "core.allowed_network_hosts" => Ty::HostArr,
        "core.max_decompressed_manifest_size_in_mb" => Ty::UInt { max_valid: 1024 },
        "version" => Ty::UInt { max_valid: 1 },
        "builder.thumbnail.quality" => Ty::Enum(vec!["low", "medium", "high"]),
        "builder.auto_timestamp_assertion.fetch_scope" => Ty::Enum(vec!["parent", "all"]),
        "builder.certificate_status_fetch" => Ty::Enum(vec!["all", "active"]),
        "builder.certificate_status_should_override" => Ty::Bool,
        "builder.intent" => Ty::Intent,
        "builder.actions.templates" => Ty::Templates,
        "builder.actions.actions" => Ty::Actions,
        _ => return None,
    })
}

/// Optional keys that do not appear in the serialised default (`skip_serializing_if`).
fn extras() -> Vec<(&'static str, Ty)> {
    vec![
        ("builder.thumbnail.format", Ty::Enum(vec!["png", "jpeg", "gif", "webp", "tiff"])),
        ("builder.actions.all_actions_included", Ty::Bool),
        ("builder.actions.templates", Ty::Templates),
        ("builder.actions.auto_created_action.source_type", Ty::SourceType),
        ("builder.actions.auto_opened_action.source_type", Ty::SourceType),
        ("builder.actions.auto_placed_action.source_type", Ty::SourceType),
        ("builder.claim_generator_info", Ty::ClaimGen),
        ("signer", Ty::Signer),
        ("cawg_x509_signer", Ty::Signer),
    ]
}

fn infer(v: &Value) -> Ty {
    match v {
        Value::Bool(_) => Ty::Bool,
        Value::Number(_) => Ty::UInt { max_valid: u32::MAX as u64 },
        Value::String(_) => Ty::Str,
        Value::Array(_) => Ty::StrArr,
        _ => Ty::Unknown,
    }
}

fn walk_default(v: &Value, path: &mut Vec<String>, out: &mut Vec<Leaf>) {
    match v {
        Value::Object(m) if !m.is_empty() => {
            for (k, c) in m {
                path.push(k.clone());
                walk_default(c, path, out);
                path.pop();
            }
        }
        _ => {
            let ty = table(&dotted(path)).unwrap_or_else(|| infer(v));
            out.push(Leaf { path: path.clone(), ty });
        }
    }
}

fn first_pem_block(text: &str) -> Option<String> {
    let b = text.find("-----BEGIN CERTIFICATE-----")?;
    let e_mark = "-----END CERTIFICATE-----";
    let e = text[b..].find(e_mark)? + b + e_mark.len();
    Some(format!("{}\n", &text[b..e]))
}

fn tv(s: &Settings) -> Value {
    serde_json::to_value(s).expect("Settings serialises to JSON")
}

fn build_schema(run: &Run) -> Schema {
    let default_v = tv(&Settings::default());
    let mut leaves = vec![];
    walk_default(&default_v, &mut vec![], &mut leaves);
    for (p, ty) in extras() {
        leaves.push(Leaf { path: segs(p), ty });
    }
    let fx = "/repo/sdk/tests/fixtures/certs";
    let bundle = std::fs::read_to_string(format!("{fx}/trust/test_cert_root_bundle.pem")).unwrap_or_default();
    let chain = std::fs::read_to_string(format!("{fx}/es256.pub")).unwrap_or_default();
    let key_pem = std::fs::read_to_string(format!("{fx}/es256.pem")).unwrap_or_else(|_| "not a key".to_string());
    let mut pem_good: Vec<String> = vec![];
    for t in [&bundle, &chain] {
        if let Some(b) = first_pem_block(t) {
            if !pem_good.contains(&b) {
                pem_good.push(b);
            }
        }
    }
    let cert_pem = first_pem_block(&chain).unwrap_or_else(|| "not a certificate".to_string());
    let mut pem_bad: Vec<String> = vec![
        "".to_string(),
        "not a pem!!".to_string(),
        "-----BEGIN CERTIFICATE-----\n!!!\n-----END CERTIFICATE-----\n".to_string(),
    ];
    // verify the PEM classes by probing (documented: trust settings are validated on update)
    pem_good.retain(|p| Settings::default().with_value("trust.trust_anchors", p.clone()).is_ok());
    pem_bad.retain(|p| Settings::default().with_value("trust.trust_anchors", p.clone()).is_err());
    if pem_good.is_empty() {
        run.note("no PEM fixture was accepted by trust.trust_anchors; PEM leaves only receive null / invalid values");
    }

    let mut sch = Schema {
        leaves,
        known: BTreeSet::new(),
        sections: BTreeSet::new(),
        default_v,
        pem_good,
        pem_bad,
        key_pem,
        cert_pem,
        unverified: vec![],
    };
    // probe every typed leaf: a sample valid value must be accepted on its own and be readable
    let mut keep = vec![];
    for leaf in sch.leaves.clone() {
        let p = dotted(&leaf.path);
        let is_extra = get_path(&sch.default_v, &leaf.path).is_none();
        let sample = valid(&sch, &leaf.ty, 0);
        let ok = leaf.ty == Ty::Unknown
            || sample.is_null()
            || match Settings::default().with_value(&p, sample.clone()) {
                Ok(s) => match s.get_value::<Value>(&p) {
                    Ok(got) => !got.is_null(),
                    Err(_) => false,
                },
                Err(_) => false,
            };
        if !ok {
            sch.unverified.push(p.clone());
            if is_extra {
                // optional section that does not validate on its own: leave it out of the schema
                continue;
            }
        }
        keep.push(leaf);
    }
    sch.leaves = keep;
    let mut known_paths: Vec<Vec<String>> = sch.leaves.iter().map(|l| l.path.clone()).collect();
    for s in ["signer", "cawg_x509_signer"] {
        if sch.leaves.iter().any(|l| dotted(&l.path) == s) {
            for (variant, fields) in [
                ("local", vec!["alg", "sign_cert", "private_key", "tsa_url", "referenced_assertions", "roles"]),
                ("remote", vec!["url", "alg", "sign_cert", "tsa_url", "referenced_assertions", "roles"]),
            ] {
                for f in fields {
                    known_paths.push(vec![s.to_string(), variant.to_string(), f.to_string()]);
                }
            }
        }
    }
    for f in ["name", "version", "icon", "operating_system"] {
        known_paths.push(segs(&format!("builder.claim_generator_info.{f}")));
    }
    for p in &known_paths {
        sch.known.insert(join(p));
        for i in 1..p.len() {
            sch.sections.insert(join(&p[..i]));
        }
    }
    sch
}

// ------------------------------------------------------------------------------------------------
// JSON helpers and the reference model
// ------------------------------------------------------------------------------------------------

fn get_path<'a>(v: &'a Value, path: &[String]) -> Option<&'a Value> {
    let mut cur = v;
    for s in path {
        cur = cur.as_object()?.get(s)?;
    }
    Some(cur)
}

/// Insert `value` at `path`, creating objects (a non-object on the way is replaced by an object).
fn set_in(doc: &mut Value, path: &[String], value: Value) {
    if path.is_empty() {
        *doc = value;
        return;
    }
    if !doc.is_object() {
        *doc = Value::Object(Map::new());
    }
    let m = doc.as_object_mut().expect("object");
    if path.len() == 1 {
        m.insert(path[0].clone(), value);
    } else {
        let child = m.entry(path[0].clone()).or_insert_with(|| Value::Object(Map::new()));
        set_in(child, &path[1..], value);
    }
}

#[derive(Default)]
struct MergeStats {
    /// object met object below a free-form map and the union is larger than either side
    freeform_union: u32,
    /// a non-empty array replaced a different non-empty array
    array_replaced: u32,
    /// a null replaced a non-null value
    null_replaced: u32,
    max_obj_depth: usize,
}

/// Reference merge: objects merge key-wise (recursively), everything else replaces. `cap` is the deepest level
/// at which two objects are still merged (usize::MAX = the plain recursive merge of the property).
fn ref_merge(target: &mut Value, overlay: &Value, depth: usize, cap: usize, arrays_elementwise: bool, path: &mut Vec<String>, st: &mut MergeStats) {
    match (target, overlay) {
        (Value::Object(t), Value::Object(o)) if depth < cap => {
            st.max_obj_depth = st.max_obj_depth.max(depth);
            let before = t.len();
            for (k, ov) in o {
                path.push(k.clone());
                match t.get_mut(k) {
                    Some(tv) => ref_merge(tv, ov, depth + 1, cap, arrays_elementwise, path, st),
                    None => {
                        t.insert(k.clone(), ov.clone());
                    }
                }
                path.pop();
            }
            if is_freeform(path) && t.len() > before && t.len() > o.len() {
                st.freeform_union += 1;
            }
        }
        (Value::Array(t), Value::Array(o)) if arrays_elementwise => {
            // deliberately wrong variant used by the self-test only
            for (i, ov) in o.iter().enumerate() {
                if i < t.len() {
                    t[i] = ov.clone();
                } else {
                    t.push(ov.clone());
                }
            }
        }
        (t, o) => {
            if let (Value::Array(a), Value::Array(b)) = (&*t, o) {
                if !a.is_empty() && !b.is_empty() && a != b {
                    st.array_replaced += 1;
                }
            }
            if o.is_null() && !t.is_null() {
                st.null_replaced += 1;
            }
            *t = o.clone();
        }
    }
}

fn depth_of(v: &Value) -> usize {
    match v {
        Value::Object(m) => 1 + m.values().map(depth_of).max().unwrap_or(0),
        Value::Array(a) => 1 + a.iter().map(depth_of).max().unwrap_or(0),
        _ => 0,
    }
}

fn has_null(v: &Value) -> bool {
    match v {
        Value::Null => true,
        Value::Object(m) => m.values().any(has_null),
        Value::Array(a) => a.iter().any(has_null),
        _ => false,
    }
}

fn has_array(v: &Value) -> bool {
    match v {
        Value::Array(_) => true,
        Value::Object(m) => m.values().any(has_array),
        _ => false,
    }
}

fn strip_nulls(v: &Value) -> Value {
    match v {
        Value::Object(m) => Value::Object(m.iter().filter(|(_, v)| !v.is_null()).map(|(k, v)| (k.clone(), strip_nulls(v))).collect()),
        Value::Array(a) => Value::Array(a.iter().map(strip_nulls).collect()),
        o => o.clone(),
    }
}

const CGI_FIXED: [&str; 4] = ["name", "version", "icon", "operating_system"];

/// Below `builder.claim_generator_info.<free key>` every key is retained verbatim (documented "any other values").
fn is_freeform(path: &[String]) -> bool {
    path.len() >= 3 && path[0] == "builder" && path[1] == "claim_generator_info" && !CGI_FIXED.contains(&path[2].as_str())
}

/// Sub-trees with rich types of their own (actions, templates, icon): compared through (A) only.
fn is_opaque(path: &[String]) -> bool {
    (path.len() >= 3 && path[0] == "builder" && path[1] == "actions" && (path[2] == "templates" || path[2] == "actions"))
        || (path.len() >= 3 && path[0] == "builder" && path[1] == "claim_generator_info" && path[2] == "icon")
}

fn key_known(sch: &Schema, path: &[String]) -> bool {
    if is_freeform(path) {
        return true;
    }
    let j = join(path);
    sch.known.contains(&j) || sch.sections.contains(&j)
}

fn ci_path(path: &[String]) -> bool {
    let d = dotted(path);
    matches!(
        d.as_str(),
        "builder.thumbnail.format"
            | "builder.thumbnail.quality"
            | "builder.auto_timestamp_assertion.fetch_scope"
            | "builder.certificate_status_fetch"
            | "builder.intent"
            | "core.allowed_network_hosts"
    ) || (path.len() == 3 && (path[0] == "signer" || path[0] == "cawg_x509_signer") && path[2] == "alg")
}

fn st_path(path: &[String]) -> bool {
    let d = dotted(path);
    d == "builder.intent.create" || (d.starts_with("builder.actions.auto_") && d.ends_with("_action.source_type"))
}

const ALIASES: [(&str, &str); 3] = [
    ("empty", "http://c2pa.org/digitalsourcetype/empty"),
    ("digitalCapture", "http://cv.iptc.org/newscodes/digitalsourcetype/digitalCapture"),
    ("trainedAlgorithmicMedia", "http://cv.iptc.org/newscodes/digitalsourcetype/trainedAlgorithmicMedia"),
];

/// Independent comparison of what was asked for (`want`) with what the settings serialise to (`got`).
/// Knows only the documented normalisations; `None` ≡ absent, unknown keys are dropped.
fn matches(sch: &Schema, path: &mut Vec<String>, want: &Value, got: &Value) -> Result<(), String> {
    if is_opaque(path) {
        return Ok(());
    }
    match (want, got) {
        (Value::Object(w), Value::Object(g)) => {
            for (k, gv) in g {
                path.push(k.clone());
                let r = match w.get(k) {
                    Some(wv) => matches(sch, path, wv, gv),
                    None if gv.is_null() => Ok(()),
                    None => Err(format!("{}: result has {} which the merge does not have", dotted(path), short(gv))),
                };
                path.pop();
                r?;
            }
            for (k, wv) in w {
                if !g.contains_key(k) && !wv.is_null() {
                    path.push(k.clone());
                    let known = key_known(sch, path) && !is_opaque(path);
                    let d = dotted(path);
                    path.pop();
                    if known {
                        return Err(format!("{d}: merge has {} but the result lacks the key", short(wv)));
                    }
                }
            }
            Ok(())
        }
        (Value::Array(w), Value::Array(g)) => {
            if w.len() != g.len() {
                return Err(format!("{}: array length {} vs {}", dotted(path), w.len(), g.len()));
            }
            for (a, b) in w.iter().zip(g.iter()) {
                matches(sch, path, a, b)?;
            }
            Ok(())
        }
        (Value::String(w), Value::String(g)) => {
            let ok = w == g
                || (ci_path(path) && w.eq_ignore_ascii_case(g))
                || (st_path(path) && ALIASES.iter().any(|(a, u)| a == w && u == g));
            if ok {
                Ok(())
            } else {
                Err(format!("{}: {} vs {}", dotted(path), short(want), short(got)))
            }
        }
        (w, g) if w == g => Ok(()),
        (w, g) => Err(format!("{}: {} vs {}", dotted(path), short(w), short(g))),
    }
}

fn short(v: &Value) -> String {
    let s = v.to_string();
    if s.len() > 80 {
        let mut e = 80;
        while !s.is_char_boundary(e) {
            e -= 1;
        }
        format!("{}…", &s[..e])
    } else {
        s
    }
}

#[derive(PartialEq, Debug, Clone, Copy)]
enum Verdict {
    Valid,
    Invalid,
    Unsure,
}

/// Documented validation rules evaluated on a merged document that already deserialises.
fn rules(sch: &Schema, m: &Value) -> Verdict {
    let at = |p: &str| get_path(m, &segs(p)).cloned().unwrap_or(Value::Null);
    let mut unsure = false;
    if at("version").as_u64().map(|v| v > 1).unwrap_or(false) {
        return Verdict::Invalid;
    }
    if at("core.max_decompressed_manifest_size_in_mb").as_u64().map(|v| v > 1024).unwrap_or(false) {
        return Verdict::Invalid;
    }
    if at("builder.actions.auto_created_action.enabled") == json!(true) && at("builder.actions.auto_created_action.source_type").is_null() {
        return Verdict::Invalid;
    }
    for sec in ["trust", "cawg_trust"] {
        for f in ["trust_anchors", "user_anchors", "allowed_list"] {
            match at(&format!("{sec}.{f}")) {
                Value::Null => {}
                Value::String(s) if sch.pem_good.contains(&s) => {}
                Value::String(s) if sch.pem_bad.contains(&s) => return Verdict::Invalid,
                _ => unsure = true,
            }
        }
    }
    if unsure {
        Verdict::Unsure
    } else {
        Verdict::Valid
    }
}

// ------------------------------------------------------------------------------------------------
// value generators (pure functions of a seed; seed 0 = simplest)
// ------------------------------------------------------------------------------------------------

const STRS: [&str; 14] = [
    "a",
    "Acme",
    "",
    "with \"quotes\" and \\ backslash",
    "line1\nline2",
    "tab\there",
    "üñí©ødé ✓",
    "1979-05-27",
    "true",
    "# not a comment",
    "a.b",
    "'single'",
    "\u{7f}\u{1}",
    "c2pa.actions",
];

fn rng_of(seed: u32, salt: u64) -> SplitMix64 {
    SplitMix64::new((seed as u64).wrapping_mul(0x9E37_79B9) ^ salt)
}

fn scalar(r: &mut SplitMix64) -> Value {
    match r.below(6) {
        0 => json!(r.bool()),
        1 => json!(r.below(1000)),
        2 => json!(-(r.below(1000) as i64) - 1),
        3 => json!(STRS[r.usize(STRS.len())]),
        4 => json!([0.5, -1.5, 1e10, 3.0][r.usize(4)]),
        _ => json!(STRS[r.usize(3)]),
    }
}

const KEYS: [&str; 5] = ["a", "b", "c", "k.dot", "Ü key"];

fn generic(r: &mut SplitMix64, depth: usize) -> Value {
    let top = if depth == 0 { 7 } else { 12 };
    match r.below(top) {
        0..=5 => scalar(r),
        6 => {
            if r.below(2) == 0 {
                Value::Null
            } else {
                scalar(r)
            }
        }
        7 | 8 => {
            let n = r.usize(4);
            Value::Array((0..n).map(|_| generic(r, depth - 1)).collect())
        }
        _ => {
            let n = 1 + r.usize(3);
            let mut m = Map::new();
            for _ in 0..n {
                m.insert(KEYS[r.usize(KEYS.len())].to_string(), generic(r, depth - 1));
            }
            Value::Object(m)
        }
    }
}

/// Nested object over the tiny key alphabet {a,b,c}: successive documents overlap, so real recursive merges
/// happen below the typed schema.
fn nested(r: &mut SplitMix64, depth: usize) -> Value {
    if depth == 0 {
        return match r.below(5) {
            0 => json!([1, 2, 3]),
            1 => json!(["x", {"a": 1}]),
            _ => scalar(r),
        };
    }
    let n = 1 + r.usize(2);
    let mut m = Map::new();
    for _ in 0..n {
        m.insert(KEYS[r.usize(3)].to_string(), nested(r, depth - 1));
    }
    Value::Object(m)
}

fn chain(n: usize, leaf_key: &str, leaf: Value) -> Value {
    let mut v = json!({ leaf_key: leaf });
    for _ in 0..n {
        v = json!({ "d": v });
    }
    v
}

fn valid(sch: &Schema, ty: &Ty, seed: u32) -> Value {
    let i = seed as usize;
    let mut r = rng_of(seed, 0xC25);
    match ty {
        Ty::Bool => json!(seed % 2 == 1),
        Ty::UInt { max_valid } => {
            let pool = [1u64, 0, 2, 5, 16, 100, 1000, 1024, 65536];
            let ok: Vec<u64> = pool.iter().copied().filter(|v| v <= max_valid).collect();
            json!(ok[i % ok.len()])
        }
        Ty::Str => json!(STRS[i % STRS.len()]),
        Ty::Enum(vs) => json!(vs[i % vs.len()]),
        Ty::Pem => {
            if sch.pem_good.is_empty() {
                Value::Null
            } else {
                json!(sch.pem_good[i % sch.pem_good.len()])
            }
        }
        Ty::StrArr => match i % 4 {
            0 => json!(["c2pa.actions"]),
            1 => json!([]),
            2 => json!(["a", "b"]),
            _ => json!([STRS[(i / 4) % STRS.len()], "y", "z"]),
        },
        Ty::HostArr => match i % 3 {
            0 => json!(["example.com"]),
            1 => json!([]),
            _ => json!(["*.example.org", "https://a.b:8080"]),
        },
        Ty::SourceType => json!(
            [
                "http://cv.iptc.org/newscodes/digitalsourcetype/digitalCapture",
                "http://c2pa.org/digitalsourcetype/empty",
                "com.example.custom"
            ][i % 3]
        ),
        Ty::Intent => match i % 3 {
            0 => json!("edit"),
            1 => json!("update"),
            _ => json!({"create": "http://cv.iptc.org/newscodes/digitalsourcetype/digitalCapture"}),
        },
        Ty::ClaimGen => {
            let mut o = Map::new();
            o.insert("name".into(), json!(["gen", "Acme App", "x y"][i % 3]));
            if i % 2 == 1 {
                o.insert("version".into(), json!("1.2.3"));
            }
            if i % 5 == 2 {
                o.insert("operating_system".into(), json!("x86_64-unknown-linux-gnu"));
            }
            for _ in 0..(i / 7) % 3 {
                let d = 1 + r.usize(4);
                o.insert(KEYS[r.usize(3)].to_string(), nested(&mut r, d));
            }
            Value::Object(o)
        }
        Ty::Signer => {
            let (cert, key) = if i % 2 == 0 { ("CERT".to_string(), "KEY".to_string()) } else { (sch.cert_pem.clone(), sch.key_pem.clone()) };
            let alg = ["es256", "ps256", "ed25519"][(i / 2) % 3];
            if i % 5 == 4 {
                json!({"remote": {"url": "https://signer.example/sign", "alg": alg, "sign_cert": cert}})
            } else if i % 3 == 1 {
                json!({"local": {"alg": alg, "sign_cert": cert, "private_key": key, "tsa_url": "http://ts.example/tsa", "roles": ["cawg.editor"]}})
            } else {
                json!({"local": {"alg": alg, "sign_cert": cert, "private_key": key}})
            }
        }
        Ty::Templates => match i % 2 {
            0 => json!([{"action": "c2pa.edited", "description": "template"}]),
            _ => json!([]),
        },
        Ty::Actions => match i % 2 {
            0 => json!([{"action": "c2pa.opened"}]),
            _ => json!([{"action": "c2pa.edited", "description": "d"}, {"action": "c2pa.resized"}]),
        },
        Ty::Unknown => Value::Null,
    }
}

/// Valid values in a non-canonical spelling, or partial objects that rely on the merge.
fn variant(sch: &Schema, ty: &Ty, seed: u32) -> Value {
    let i = seed as usize;
    let mut r = rng_of(seed, 0x7A71);
    match ty {
        Ty::Enum(vs) => {
            let v = vs[i % vs.len()];
            if i % 2 == 0 {
                json!(v.to_uppercase())
            } else {
                let mut c = v.chars();
                let f = c.next().map(|f| f.to_uppercase().collect::<String>()).unwrap_or_default();
                json!(format!("{f}{}", c.as_str()))
            }
        }
        Ty::HostArr => json!(["Example.COM", "HTTPS://*.Example.Org:443"]),
        Ty::SourceType => json!(ALIASES[i % ALIASES.len()].0),
        Ty::Intent => match i % 3 {
            0 => json!("EDIT"),
            1 => json!({"create": "empty"}),
            _ => json!("Update"),
        },
        Ty::Signer => match i % 3 {
            0 => json!({"local": {"alg": "ES256", "sign_cert": "CERT", "private_key": "KEY"}}),
            1 => json!({"local": {"tsa_url": "http://ts2.example/tsa"}}),
            _ => json!({"remote": {"tsa_url": "http://ts3.example/tsa"}}),
        },
        Ty::ClaimGen => {
            let mut o = Map::new();
            for _ in 0..1 + i % 2 {
                let d = 1 + r.usize(5);
                o.insert(KEYS[r.usize(3)].to_string(), nested(&mut r, d));
            }
            if i % 4 == 3 {
                o.insert("version".into(), json!("9.9"));
            }
            Value::Object(o)
        }
        Ty::Bool => json!(seed % 2 == 0),
        other => valid(sch, other, seed.wrapping_add(1)),
    }
}

fn wrong(sch: &Schema, ty: &Ty, seed: u32) -> Value {
    let i = seed as usize;
    match ty {
        Ty::Bool => [json!("true"), json!(1), json!([]), json!({}), json!("yes")][i % 5].clone(),
        Ty::UInt { .. } => [json!("5"), json!(true), json!(1.5), json!({"a": 1}), json!([1])][i % 5].clone(),
        Ty::Str => [json!(5), json!(true), json!(["a"]), json!({})][i % 4].clone(),
        Ty::StrArr | Ty::HostArr => [json!("str"), json!([1, 2]), json!({"0": "a"}), json!([["a"]]), json!(["a", null])][i % 5].clone(),
        Ty::Enum(_) => [json!("bogus"), json!(3), json!(["low"])][i % 3].clone(),
        Ty::Pem => {
            if i % 4 == 3 || sch.pem_bad.is_empty() {
                json!(7)
            } else {
                json!(sch.pem_bad[i % sch.pem_bad.len()])
            }
        }
        Ty::SourceType => [json!(5), json!({"x": 1}), json!([])][i % 3].clone(),
        Ty::Intent => [json!("delete"), json!({"Create": "empty"}), json!({"create": 5}), json!(1)][i % 4].clone(),
        Ty::ClaimGen => [json!("name"), json!({"name": 5}), json!({"version": "1"}), json!([])][i % 4].clone(),
        Ty::Signer => [
            json!({"local": {}}),
            json!("local"),
            json!({"local": {"alg": "rot13", "sign_cert": "C", "private_key": "K"}}),
            json!({"remote": {"url": "u", "alg": "es256", "sign_cert": "C"}, "local": {"alg": "es256", "sign_cert": "C", "private_key": "K"}}),
            json!({"neither": {}}),
        ][i % 5]
            .clone(),
        Ty::Templates | Ty::Actions => [json!([{"description": "no action key"}]), json!("x"), json!([1])][i % 3].clone(),
        Ty::Unknown => [json!(5), json!("s"), json!(true), json!([1]), json!({"a": 1})][i % 5].clone(),
    }
}

fn out_of_range(sch: &Schema, ty: &Ty, seed: u32) -> Value {
    let i = seed as usize;
    match ty {
        Ty::UInt { max_valid } => {
            let above = if *max_valid < u64::MAX - 1 { json!(max_valid + 1) } else { json!(-1) };
            [above, json!(-1), json!(4294967296u64), json!(1000.0), json!(i64::MAX), json!(2000)][i % 6].clone()
        }
        other => wrong(sch, other, seed),
    }
}

#[derive(Clone, Copy, PartialEq, Debug)]
enum K {
    Valid,
    Variant,
    Null,
    Wrong,
    Range,
    UnknownSibling,
    SectionReplace,
    TopUnknown,
    FreeformDeep,
    DeepChain,
    WholeDoc,
}

fn kind_of(k: u8) -> K {
    match k % 32 {
        0..=15 => K::Valid,
        16..=18 => K::Variant,
        19 | 20 => K::Null,
        21 | 22 => K::Wrong,
        23 => K::Range,
        24 | 25 => K::UnknownSibling,
        26 => K::SectionReplace,
        27 => K::TopUnknown,
        28 | 29 => K::FreeformDeep,
        30 => K::DeepChain,
        _ => K::WholeDoc,
    }
}

type Pick = (usize, u8, u32);

fn leaf_value(sch: &Schema, leaf: &Leaf, k: K, seed: u32) -> Value {
    match k {
        K::Variant => variant(sch, &leaf.ty, seed),
        K::Null => Value::Null,
        K::Wrong => wrong(sch, &leaf.ty, seed),
        K::Range => out_of_range(sch, &leaf.ty, seed),
        _ => valid(sch, &leaf.ty, seed),
    }
}

fn merge_into(doc: &mut Value, path: &[String], v: Value) {
    let mut wrapped = v;
    for s in path.iter().rev() {
        let mut m = Map::new();
        m.insert(s.clone(), wrapped);
        wrapped = Value::Object(m);
    }
    if !doc.is_object() {
        *doc = Value::Object(Map::new());
    }
    ref_merge(doc, &wrapped, 0, usize::MAX, false, &mut vec![], &mut MergeStats::default());
}

fn apply_pick(sch: &Schema, doc: &mut Value, pick: &Pick) {
    let (li, k, seed) = *pick;
    let leaf = &sch.leaves[li % sch.leaves.len()];
    let mut r = rng_of(seed, 0xD0C);
    let cgi = segs("builder.claim_generator_info");
    match kind_of(k) {
        k @ (K::Valid | K::Variant | K::Null | K::Wrong | K::Range) => set_in(doc, &leaf.path, leaf_value(sch, leaf, k, seed)),
        K::UnknownSibling => {
            let mut p = leaf.path[..leaf.path.len() - 1].to_vec();
            p.push(format!("zz_unknown{}", seed % 3));
            set_in(doc, &p, generic(&mut r, 3));
        }
        K::SectionReplace => {
            let lvl = if leaf.path.len() >= 2 { 1 + (seed as usize) % (leaf.path.len() - 1) } else { 1 };
            let v = [Value::Null, json!(5), json!("str"), json!([]), json!([1]), json!(true)][(seed as usize / 8) % 6].clone();
            set_in(doc, &leaf.path[..lvl], v);
        }
        K::TopUnknown => {
            let key = ["hidden", "zz_top", "Verify"][(seed as usize) % 3];
            set_in(doc, &[key.to_string()], generic(&mut r, 4));
        }
        K::FreeformDeep => {
            let d = 2 + r.usize(5);
            let mut o = Map::new();
            o.insert("name".into(), json!("gen"));
            o.insert(KEYS[r.usize(3)].to_string(), nested(&mut r, d));
            merge_into(doc, &cgi, Value::Object(o));
        }
        K::DeepChain => {
            let n = 56 + (seed as usize) % 15;
            let lk = format!("k{}", (seed / 16) % 3);
            merge_into(doc, &cgi, json!({"name": "gen", "deep": chain(n, &lk, json!(seed % 7))}));
        }
        K::WholeDoc => {
            *doc = [json!(5), json!([1, 2]), json!("verify"), Value::Null, json!(true), json!([{"verify": {"verify_trust": false}}])][(seed as usize) % 6].clone();
        }
    }
}

fn build_doc(sch: &Schema, picks: &[Pick]) -> Value {
    let mut doc = Value::Object(Map::new());
    for p in picks {
        apply_pick(sch, &mut doc, p);
    }
    doc
}

// ------------------------------------------------------------------------------------------------
// TOML rendering (two independent renderers; a twin is only used when it parses back to the same document)
// ------------------------------------------------------------------------------------------------

fn toml_str(s: &str) -> String {
    let mut o = String::from("\"");
    for ch in s.chars() {
        match ch {
            '"' => o.push_str("\\\""),
            '\\' => o.push_str("\\\\"),
            '\n' => o.push_str("\\n"),
            '\t' => o.push_str("\\t"),
            '\r' => o.push_str("\\r"),
            c if (c as u32) < 0x20 || c as u32 == 0x7f => o.push_str(&format!("\\u{:04X}", c as u32)),
            c => o.push(c),
        }
    }
    o.push('"');
    o
}

fn toml_key(k: &str) -> String {
    if !k.is_empty() && k.chars().all(|c| c.is_ascii_alphanumeric() || c == '_' || c == '-') {
        k.to_string()
    } else {
        toml_str(k)
    }
}

fn toml_inline(v: &Value) -> Option<String> {
    Some(match v {
        Value::Null => return None,
        Value::Bool(b) => b.to_string(),
        Value::Number(n) => {
            if let Some(i) = n.as_i64() {
                i.to_string()
            } else if n.is_u64() {
                return None; // above i64::MAX: not representable in TOML
            } else {
                let f = n.as_f64()?;
                if !f.is_finite() {
                    return None;
                }
                format!("{f:?}")
            }
        }
        Value::String(s) => toml_str(s),
        Value::Array(a) => {
            let mut parts = vec![];
            for e in a {
                parts.push(toml_inline(e)?);
            }
            format!("[{}]", parts.join(", "))
        }
        Value::Object(m) => {
            let mut parts = vec![];
            for (k, e) in m {
                parts.push(format!("{} = {}", toml_key(k), toml_inline(e)?));
            }
            format!("{{ {} }}", parts.join(", "))
        }
    })
}

fn toml_dotted_walk(m: &Map<String, Value>, prefix: &mut Vec<String>, lines: &mut Vec<String>) -> Option<()> {
    for (k, v) in m {
        prefix.push(toml_key(k));
        match v {
            Value::Object(o) if !o.is_empty() => toml_dotted_walk(o, prefix, lines)?,
            other => lines.push(format!("{} = {}", prefix.join("."), toml_inline(other)?)),
        }
        prefix.pop();
    }
    Some(())
}

fn toml_to_json(text: &str) -> Option<Value> {
    let t: toml::Value = toml::from_str(text).ok()?;
    serde_json::to_value(t).ok()
}

/// style 1: `toml` crate serializer; style 2: harness dotted-key renderer. Only returned when the text parses
/// back to exactly `doc` (so "equivalent documents" is literal).
fn toml_twin(doc: &Value, style: u8) -> Option<String> {
    let m = doc.as_object()?;
    if has_null(doc) || depth_of(doc) > 40 {
        return None;
    }
    let text = if style == 1 {
        toml::to_string(doc).ok()?
    } else {
        let mut lines = vec![];
        toml_dotted_walk(m, &mut vec![], &mut lines)?;
        let mut t = lines.join("\n");
        t.push('\n');
        t
    };
    if toml_to_json(&text).as_ref() == Some(doc) {
        Some(text)
    } else {
        None
    }
}

fn harness_parse(text: &str, format: &str) -> Option<Value> {
    match format.to_lowercase().as_str() {
        "json" => serde_json::from_str(text).ok(),
        "toml" => toml_to_json(text),
        _ => None,
    }
}

fn mangle(text: &str, format: &str, kind: u8, seed: u32) -> (String, String) {
    let mut r = rng_of(seed, 0x3A6);
    let cut = |pos: usize| {
        let mut p = pos.min(text.len());
        while !text.is_char_boundary(p) {
            p -= 1;
        }
        p
    };
    let other = if format == "json" { "toml" } else { "json" };
    match kind % 10 {
        0 => (text.to_string(), format.to_string()),
        1 => {
            let p = cut(r.usize(text.len() + 1));
            (text[..p].to_string(), format.to_string())
        }
        2 => {
            let p = cut(r.usize(text.len() + 1));
            let g = ["]", "{", "=", "\"", "\u{0}", ",", "[[x]]", "\n= 1\n"][r.usize(8)];
            (format!("{}{}{}", &text[..p], g, &text[p..]), format.to_string())
        }
        3 => {
            let first = text.lines().next().unwrap_or("");
            (format!("{first}\n{text}"), format.to_string())
        }
        4 => (text.to_string(), other.to_string()),
        5 => {
            let f = if r.bool() { format.to_uppercase() } else { format!("{}{}", format[..1].to_uppercase(), &format[1..]) };
            (text.to_string(), f)
        }
        6 => (text.to_string(), ["yaml", "", "json5", "jso", "toml "][r.usize(5)].to_string()),
        7 => (format!("{text}{}", ["}", "x", "]", "\n[verify]\n"][r.usize(4)]), format.to_string()),
        8 => {
            if format == "toml" {
                (format!("# leading comment\n\n{text}\n# trailing comment\n"), format.to_string())
            } else {
                (format!("\n  \t{text}\n\n"), format.to_string())
            }
        }
        _ => {
            // unquoted date / odd literals where a value is expected
            if format == "toml" {
                (format!("{text}\nversion = 1979-05-27\n"), format.to_string())
            } else {
                (text.replacen(':', ": 01", 1), format.to_string())
            }
        }
    }
}

// ------------------------------------------------------------------------------------------------
// judge
// ------------------------------------------------------------------------------------------------

struct Ctx<'a> {
    run: &'a Run,
    sch: &'a Schema,
    selftest: u8,
}

struct StepOut {
    new: Option<Settings>,
    sections_touched: usize,
}

fn known_sections_touched(sch: &Schema, doc: &Value) -> usize {
    match (doc.as_object(), sch.default_v.as_object()) {
        (Some(d), Some(s)) => d.keys().filter(|k| s.contains_key(*k) || *k == "signer" || *k == "cawg_x509_signer").count(),
        _ => 0,
    }
}

/// Compare an SDK result with the reference merge of `before` and `doc`.
fn check_against_merge(cx: &Ctx, before: &Value, doc: &Value, result: &Settings, cap: usize, stats: &mut MergeStats) -> Result<(), Fail> {
    let mut merged = before.clone();
    ref_merge(&mut merged, doc, 0, cap, cx.selftest == 1, &mut vec![], stats);
    let got = tv(result);
    match serde_json::from_value::<Settings>(merged.clone()) {
        Err(e) => Err(Fail::new(
            "C25:overlay-ok-but-merge-undeserialisable",
            format!("the update succeeded but the reference merge does not deserialise ({e}); overlay {}", short(doc)),
        )),
        Ok(exp) => {
            let want = tv(&exp);
            if want != got {
                let mut p = vec![];
                let d = matches(cx.sch, &mut p, &want, &got).err().or_else(|| matches(cx.sch, &mut vec![], &got, &want).err()).unwrap_or_default();
                return Err(Fail::new(
                    "C25:overlay-differs-from-reference-merge",
                    format!("result differs from deserialize(reference merge): {d}; overlay {}", short(doc)),
                ));
            }
            if let Err(d) = matches(cx.sch, &mut vec![], &merged, &got) {
                return Err(Fail::new(
                    "C25:overlay-leaf-mismatch",
                    format!("result does not carry the merged document: {d}; overlay {}", short(doc)),
                ));
            }
            Ok(())
        }
    }
}

fn overlay_step(cx: &Ctx, cur: &Settings, text: &str, format: &str) -> Result<StepOut, Fail> {
    let run = cx.run;
    let before = tv(cur);
    let lower = format.to_lowercase();
    let label_known = lower == "json" || lower == "toml";
    let strict = format == "json" || format == "toml";
    let parsed = harness_parse(text, format);

    // in-place update on a clone
    let mut m = cur.clone();
    let ru = m.update_from_str(text, format);
    run.eval();
    let mut after_m = tv(&m);
    if cx.selftest == 3 && ru.is_err() && parsed.as_ref().map(|d| d.is_object()).unwrap_or(false) {
        // self-test: pretend a failed update was applied partially
        if let Some(x) = after_m.pointer_mut("/core/merkle_tree_max_proofs") {
            *x = json!(x.as_u64().unwrap_or(0) + 1);
        }
    }
    if ru.is_err() && after_m != before {
        return Err(Fail::new(
            "C25:failed-update-changed-settings",
            format!("update_from_str({format:?}) returned Err({}) but the settings changed; text {}", ru.as_ref().err().map(|e| e.to_string()).unwrap_or_default(), short(&json!(text))),
        ));
    }
    // builder style on the original
    if strict {
        let rb = if format == "json" { cur.with_json(text) } else { cur.with_toml(text) };
        run.eval();
        if tv(cur) != before {
            return Err(Fail::new("C25:with-mutated-receiver", format!("with_{format} changed the receiver; text {}", short(&json!(text)))));
        }
        match (&rb, &ru) {
            (Ok(s), Ok(())) if tv(s) == after_m => {}
            (Err(_), Err(_)) => {}
            _ => {
                return Err(Fail::new(
                    "C25:builder-vs-update-disagree",
                    format!("with_{format} gave {:?} but update_from_str gave {:?}; text {}", rb.as_ref().map(|_| "Ok").map_err(|e| e.to_string()), ru.as_ref().map_err(|e| e.to_string()), short(&json!(text))),
                ))
            }
        }
    }
    let sections_touched = parsed.as_ref().map(|d| known_sections_touched(cx.sch, d)).unwrap_or(0);
    match (&ru, &parsed) {
        (Ok(()), _) if !label_known => Err(Fail::new("C25:unknown-format-accepted", format!("format label {format:?} was accepted"))),
        (Ok(()), None) => Err(Fail::new(
            "C25:unparsable-text-accepted",
            format!("text does not parse as {lower} but the update succeeded: {}", short(&json!(text))),
        )),
        (Ok(()), Some(doc)) => {
            let mut result = m.clone();
            if cx.selftest == 2 && sections_touched >= 2 {
                // self-test: corrupt the SDK answer in a section the document may not have touched
                result.core.merkle_tree_max_proofs += 1;
            }
            let mut st = MergeStats::default();
            let deep = depth_of(doc) > 60 || depth_of(&before) > 60;
            match check_against_merge(cx, &before, doc, &result, usize::MAX, &mut st) {
                Ok(()) => {}
                Err(f) if deep => {
                    // The SDK documents an internal merge depth limit; beyond it the outcome is recorded, not judged.
                    let mut st2 = MergeStats::default();
                    check_against_merge(cx, &before, doc, &result, 64, &mut st2).map_err(|_| f)?;
                    run.count("merge_depth_cap_observed(recorded)");
                }
                Err(f) => return Err(f),
            }
            run.count("overlay_ok");
            if st.freeform_union > 0 {
                run.count("overlay_ok_freeform_recursive_merge");
            }
            if st.array_replaced > 0 {
                run.count("overlay_ok_array_replaced_array");
            }
            if st.null_replaced > 0 {
                run.count("overlay_ok_null_replaced_value");
            }
            if has_unknown_key(cx.sch, doc, &mut vec![]) {
                run.count("overlay_ok_with_unknown_keys");
            }
            if deep {
                run.count("overlay_ok_deep_gt60");
            }
            if rules(cx.sch, &tv(&result)) == Verdict::Invalid {
                run.count("accepted_although_rules_invalid(recorded)");
            }
            Ok(StepOut { new: Some(m), sections_touched })
        }
        (Err(_), None) => {
            run.count(if label_known { "overlay_err_parse" } else { "overlay_err_label" });
            Ok(StepOut { new: None, sections_touched })
        }
        (Err(e), Some(doc)) => {
            let mut merged = before.clone();
            ref_merge(&mut merged, doc, 0, usize::MAX, false, &mut vec![], &mut MergeStats::default());
            match serde_json::from_value::<Settings>(merged.clone()) {
                Err(_) => run.count("overlay_err_deserialise"),
                Ok(exp) => match rules(cx.sch, &tv(&exp)) {
                    Verdict::Invalid => run.count("overlay_err_validation"),
                    Verdict::Unsure => run.count("overlay_err_validation_unsure"),
                    Verdict::Valid => {
                        if !strict {
                            run.count("overlay_err_nonstandard_label");
                        } else if depth_of(doc) > 60 {
                            run.count("overlay_err_deep(recorded)");
                        } else {
                            return Err(Fail::new(
                                "C25:valid-overlay-rejected",
                                format!("the merged document deserialises and satisfies the documented validation rules, but the update failed with {e}; overlay {}", short(doc)),
                            ));
                        }
                    }
                },
            }
            Ok(StepOut { new: None, sections_touched })
        }
    }
}

fn has_unknown_key(sch: &Schema, v: &Value, path: &mut Vec<String>) -> bool {
    if let Value::Object(m) = v {
        for (k, c) in m {
            path.push(k.clone());
            let r = !key_known(sch, path) || (!is_opaque(path) && !is_freeform(path) && has_unknown_key(sch, c, path));
            path.pop();
            if r {
                return true;
            }
        }
    }
    false
}

/// Remove the node addressed by `path` (or the deepest non-object on the way) — the rest is the frame.
fn strip_at(v: &mut Value, path: &[String]) {
    if path.is_empty() {
        return;
    }
    let Some(m) = v.as_object_mut() else { return };
    if path.len() == 1 {
        m.remove(&path[0]);
        return;
    }
    match m.get_mut(&path[0]) {
        Some(child) if child.is_object() => strip_at(child, &path[1..]),
        Some(_) => {
            m.remove(&path[0]);
        }
        None => {}
    }
}

fn set_step(cx: &Ctx, cur: &Settings, path: &str, value: &Value) -> Result<StepOut, Fail> {
    let run = cx.run;
    let sch = cx.sch;
    let before = tv(cur);
    let p = segs(path);
    let rb = cur.with_value(path, value.clone());
    run.eval();
    if tv(cur) != before {
        return Err(Fail::new("C25:with-mutated-receiver", format!("with_value({path:?}) changed the receiver")));
    }
    let mut m = cur.clone();
    let rs = m.set_value(path, value.clone());
    let after = tv(&m);
    match (&rb, &rs) {
        (Ok(s), Ok(())) if tv(s) == after => {}
        (Err(_), Err(_)) => {}
        _ => return Err(Fail::new("C25:builder-vs-update-disagree", format!("with_value and set_value disagree for {path:?} = {}", short(value)))),
    }
    let path_known = key_known(sch, &p);
    match rs {
        Err(e) => {
            if after != before {
                return Err(Fail::new(
                    "C25:failed-set-changed-settings",
                    format!("set_value({path:?}, {}) returned Err({e}) but the settings changed", short(value)),
                ));
            }
            run.count(if path_known { "set_err_known_path" } else { "set_err_unknown_path" });
            // a clean path (every intermediate key is an existing object) with a value that yields a valid document
            let clean = !p.is_empty() && p.iter().all(|s| !s.is_empty()) && (1..p.len()).all(|i| get_path(&before, &p[..i]).map(|v| v.is_object()).unwrap_or(false));
            if clean && path_known {
                let mut r = before.clone();
                set_in(&mut r, &p, value.clone());
                if let Ok(exp) = serde_json::from_value::<Settings>(r) {
                    if rules(sch, &tv(&exp)) == Verdict::Valid {
                        return Err(Fail::new(
                            "C25:valid-set-rejected",
                            format!("set_value({path:?}, {}) failed with {e} although the resulting document deserialises and is valid", short(value)),
                        ));
                    }
                }
            }
            Ok(StepOut { new: None, sections_touched: 0 })
        }
        Ok(()) => {
            // frame: everything outside `path` is unchanged
            // (intermediate objects that did not exist before belong to the change, so the frame is cut at the
            // first path segment that `before` cannot follow)
            let mut k = 0;
            {
                let mut c = &before;
                while k + 1 < p.len() {
                    match c.as_object().and_then(|m| m.get(&p[k])) {
                        Some(n) if n.is_object() => {
                            c = n;
                            k += 1;
                        }
                        _ => break,
                    }
                }
            }
            let (mut b, mut a) = (before.clone(), after.clone());
            strip_at(&mut b, &p[..(k + 1).min(p.len())]);
            strip_at(&mut a, &p[..(k + 1).min(p.len())]);
            if a != b {
                let d = matches(sch, &mut vec![], &b, &a).err().or_else(|| matches(sch, &mut vec![], &a, &b).err()).unwrap_or_default();
                return Err(Fail::new(
                    "C25:set-changed-other-paths",
                    format!("set_value({path:?}, {}) changed settings outside that path: {d}", short(value)),
                ));
            }
            match m.get_value::<Value>(path) {
                Ok(got) => {
                    let mut pp = p.clone();
                    if let Err(d) = matches(sch, &mut pp, value, &got) {
                        return Err(Fail::new(
                            "C25:set-get-mismatch",
                            format!("set_value({path:?}, {}) succeeded but get_value returns {}: {d}", short(value), short(&got)),
                        ));
                    }
                    run.count(if path_known { "set_ok_get_matches" } else { "set_ok_get_matches_unknown_path" });
                    if p.len() >= 1 && sch.sections.contains(&join(&p)) {
                        run.count("set_ok_prefix_path");
                    }
                    if is_freeform(&p) {
                        run.count("set_ok_freeform_path");
                    }
                }
                Err(e) => {
                    let all_null = strip_nulls(value) == json!({}) || value.is_null();
                    if all_null {
                        // "can set values to null": None is serialised as absent for some keys — recorded, not judged
                        run.count("set_null_then_get_absent(recorded)");
                    } else if !path_known {
                        return Err(Fail::new(
                            "C25:set-value-unknown-path-accepted",
                            format!("set_value({path:?}, {}) returned Ok but the value is silently dropped: get_value fails with {e} (documented: error if the path is invalid)", short(value)),
                        ));
                    } else if is_opaque(&p) {
                        run.count("set_ok_opaque_not_read(recorded)");
                    } else {
                        return Err(Fail::new(
                            "C25:set-ok-known-path-not-readable",
                            format!("set_value({path:?}, {}) returned Ok but get_value fails with {e}", short(value)),
                        ));
                    }
                }
            }
            Ok(StepOut { new: Some(m), sections_touched: 0 })
        }
    }
}

fn judge(cx: &Ctx, c: &Case) -> CaseResult {
    match vh::catch(|| judge_inner(cx, c)) {
        Ok(r) => r,
        Err(p) => Err(Fail::new(format!("C25:panic@{}", vh::core::panic_site(&p)), p)),
    }
}

fn judge_inner(cx: &Ctx, c: &Case) -> CaseResult {
    let run = cx.run;
    let mut cur = Settings::default();
    let mut nontrivial = false;
    for op in &c.ops {
        match op {
            Op::Overlay { doc, style } => {
                let text = serde_json::to_string(doc).expect("json");
                let out = overlay_step(cx, &cur, &text, "json")?;
                run.count("op_overlay");
                if has_null(doc) {
                    run.count("doc_has_null");
                }
                if has_array(doc) {
                    run.count("doc_has_array");
                }
                if depth_of(doc) >= 5 {
                    run.count("doc_depth_ge_5");
                }
                if out.sections_touched >= 2 || out.new.is_none() {
                    nontrivial = true;
                }
                if *style > 0 {
                    match toml_twin(doc, *style) {
                        None => run.count("twin_skipped_not_toml_representable"),
                        Some(mut t) => {
                            if cx.selftest == 4 {
                                t = t.replacen("false", "true", 1);
                            }
                            let out_t = overlay_step(cx, &cur, &t, "toml")?;
                            run.count(if *style == 1 { "twin_toml_crate" } else { "twin_toml_dotted" });
                            match (&out.new, &out_t.new) {
                                (Some(a), Some(b)) => {
                                    if tv(a) != tv(b) || a != b {
                                        let d = matches(cx.sch, &mut vec![], &tv(a), &tv(b)).err().unwrap_or_default();
                                        return Err(Fail::new(
                                            "C25:json-toml-differ",
                                            format!("equivalent JSON and TOML documents give different settings: {d}; TOML {}", short(&json!(t))),
                                        ));
                                    }
                                    run.count("twin_both_ok");
                                }
                                (None, None) => run.count("twin_both_err"),
                                (a, _) => {
                                    return Err(Fail::new(
                                        "C25:json-toml-one-fails",
                                        format!("equivalent documents: JSON {} but TOML {}; TOML {}", if a.is_some() { "Ok" } else { "Err" }, if a.is_some() { "Err" } else { "Ok" }, short(&json!(t))),
                                    ))
                                }
                            }
                        }
                    }
                }
                if let Some(n) = out.new {
                    cur = n;
                }
            }
            Op::Text { text, format } => {
                let out = overlay_step(cx, &cur, text, format)?;
                run.count("op_text");
                if out.sections_touched >= 2 || out.new.is_none() {
                    nontrivial = true;
                }
                if let Some(n) = out.new {
                    cur = n;
                }
            }
            Op::Set { path, value } => {
                let out = set_step(cx, &cur, path, value)?;
                run.count("op_set");
                if out.new.is_none() {
                    nontrivial = true;
                }
                if let Some(n) = out.new {
                    cur = n;
                }
            }
        }
    }
    if nontrivial {
        run.nontrivial(&serde_json::to_string(c).unwrap_or_default());
    }
    Ok(())
}

// ---- thread-local API -----------------------------------------------------------------------------

fn observe_tl() -> Option<Value> {
    let s = Settings::to_toml().ok()?;
    toml_to_json(&s)
}

fn judge_tl(cx: &Ctx, c: &TlCase) -> CaseResult {
    // every case runs in its own thread: the thread-local settings start at the default and die with the thread
    let r = std::thread::scope(|s| s.spawn(|| vh::catch(|| judge_tl_inner(cx, c))).join());
    match r {
        Ok(Ok(r)) => r,
        Ok(Err(p)) => Err(Fail::new(format!("C25:panic@{}", vh::core::panic_site(&p)), p)),
        Err(_) => Err(Fail::new("C25:panic@thread", "thread-local worker panicked")),
    }
}

fn judge_tl_inner(cx: &Ctx, c: &TlCase) -> CaseResult {
    let run = cx.run;
    // reference state: the stored *document* (the legacy API keeps unknown keys), starting at the default
    let mut refdoc = tv(&Settings::new());
    let mut last_obs = observe_tl();
    match &last_obs {
        Some(o) => {
            if *o != strip_nulls(&refdoc) {
                return Err(Fail::new("C25:thread-local-initial-not-default", "a fresh thread does not see default settings (state leaked?)"));
            }
        }
        None => run.count("tl_observation_unavailable"),
    }
    let mut any_err = false;
    for (text, format, use_from_toml) in &c.steps {
        let r = if *use_from_toml && format == "toml" { Settings::from_toml(text).map(|_| None) } else { Settings::from_string(text, format).map(Some) };
        run.eval();
        let obs = observe_tl();
        let parsed = harness_parse(text, format);
        let lower = format.to_lowercase();
        match r {
            Err(e) => {
                any_err = true;
                run.count("tl_err");
                if let (Some(a), Some(b)) = (&last_obs, &obs) {
                    if a != b {
                        return Err(Fail::new(
                            "C25:failed-thread-local-update-changed-settings",
                            format!("Settings::from_string(.., {format:?}) returned Err({e}) but Settings::to_toml() changed; text {}", short(&json!(text))),
                        ));
                    }
                }
            }
            Ok(returned) => {
                if lower != "json" && lower != "toml" {
                    return Err(Fail::new("C25:unknown-format-accepted", format!("format label {format:?} was accepted")));
                }
                let Some(doc) = parsed else {
                    return Err(Fail::new("C25:unparsable-text-accepted", format!("text does not parse as {lower} but from_string succeeded: {}", short(&json!(text)))));
                };
                let deep = depth_of(&doc) > 60 || depth_of(&refdoc) > 60;
                let mut merged = refdoc.clone();
                ref_merge(&mut merged, &doc, 0, usize::MAX, cx.selftest == 1, &mut vec![], &mut MergeStats::default());
                let exp = match serde_json::from_value::<Settings>(merged.clone()) {
                    Ok(e) => e,
                    Err(e) => {
                        if deep {
                            run.count("tl_deep(recorded)");
                            return Ok(());
                        }
                        return Err(Fail::new("C25:overlay-ok-but-merge-undeserialisable", format!("thread-local update succeeded but the reference merge does not deserialise ({e}); overlay {}", short(&doc))));
                    }
                };
                let want = tv(&exp);
                if let Some(s) = &returned {
                    if tv(s) != want {
                        if deep {
                            run.count("tl_deep(recorded)");
                            return Ok(());
                        }
                        let d = matches(cx.sch, &mut vec![], &want, &tv(s)).err().unwrap_or_default();
                        return Err(Fail::new("C25:thread-local-differs-from-reference-merge", format!("from_string returned settings that differ from the reference merge: {d}; overlay {}", short(&doc))));
                    }
                }
                match &obs {
                    Some(o) => {
                        if *o != strip_nulls(&want) {
                            if deep {
                                run.count("tl_deep(recorded)");
                                return Ok(());
                            }
                            let d = matches(cx.sch, &mut vec![], &strip_nulls(&want), o).err().unwrap_or_default();
                            return Err(Fail::new("C25:thread-local-state-differs-from-reference-merge", format!("Settings::to_toml() after the update differs from the reference merge: {d}; overlay {}", short(&doc))));
                        }
                        run.count("tl_ok_observed");
                    }
                    None => run.count("tl_ok_unobservable"),
                }
                refdoc = merged;
            }
        }
        if obs.is_some() {
            last_obs = obs;
        } else {
            last_obs = None;
        }
    }
    if any_err || c.steps.len() >= 2 {
        run.nontrivial(&serde_json::to_string(c).unwrap_or_default());
    }
    Ok(())
}

// ---- SDK fixture documents ------------------------------------------------------------------------

fn judge_fixture(cx: &Ctx, c: &FixtureCase) -> CaseResult {
    let run = cx.run;
    let Ok(text) = std::fs::read_to_string(&c.file) else {
        run.count("fixture_missing");
        return Ok(());
    };
    let format = if c.file.ends_with(".json") { "json" } else { "toml" };
    let cur = Settings::default();
    let out = overlay_step(cx, &cur, &text, format)?;
    run.count(if out.new.is_some() { "fixture_ok" } else { "fixture_err" });
    if out.new.is_some() {
        run.nontrivial(&c.file);
    }
    // twin: the same document in the other format
    if let Some(doc) = harness_parse(&text, format) {
        let (t2, f2) = if format == "toml" {
            (serde_json::to_string_pretty(&doc).unwrap_or_default(), "json")
        } else {
            match toml_twin(&doc, 1) {
                Some(t) => (t, "toml"),
                None => return Ok(()),
            }
        };
        let out2 = overlay_step(cx, &cur, &t2, f2)?;
        match (&out.new, &out2.new) {
            (Some(a), Some(b)) if a == b => run.count("twin_both_ok"),
            (None, None) => run.count("twin_both_err"),
            (Some(_), Some(_)) => return Err(Fail::new("C25:json-toml-differ", format!("{} gives different settings as {format} and as {f2}", c.file))),
            _ => return Err(Fail::new("C25:json-toml-one-fails", format!("{} is accepted in one format only", c.file))),
        }
    }
    Ok(())
}

// ------------------------------------------------------------------------------------------------
// strategies
// ------------------------------------------------------------------------------------------------

fn seed_strat() -> impl Strategy<Value = u32> {
    prop_oneof![2 => Just(0u32), 3 => 0u32..16, 3 => any::<u32>()]
}

/// Leaf index: mostly uniform over the schema; one draw in four goes to the "hot" leaves (arrays, free-form
/// maps, tagged unions) where replace-vs-merge differences are observable.
fn pick_strat(sch: &Schema) -> impl Strategy<Value = Pick> {
    let n = sch.leaves.len();
    let hot: Vec<usize> = sch
        .leaves
        .iter()
        .enumerate()
        .filter(|(_, l)| matches!(l.ty, Ty::StrArr | Ty::HostArr | Ty::ClaimGen | Ty::Signer | Ty::Templates | Ty::Actions | Ty::Intent))
        .map(|(i, _)| i)
        .collect();
    let hot = if hot.is_empty() { vec![0] } else { hot };
    (prop_oneof![3 => 0..n, 1 => proptest::sample::select(hot)], 0u8..32, seed_strat())
}

fn set_op(sch: &Schema, pkind: u8, pick: &Pick) -> Op {
    let (li, k, seed) = *pick;
    let leaf = &sch.leaves[li % sch.leaves.len()];
    let i = seed as usize;
    let mut r = rng_of(seed, 0x5E7);
    let kind = match kind_of(k) {
        k @ (K::Valid | K::Variant | K::Null | K::Wrong | K::Range) => k,
        _ => K::Valid,
    };
    match pkind % 13 {
        0..=5 => Op::Set { path: dotted(&leaf.path), value: leaf_value(sch, leaf, kind, seed) },
        6 | 7 => {
            // prefix path: a section object
            if leaf.path.len() < 2 {
                return Op::Set { path: dotted(&leaf.path), value: leaf_value(sch, leaf, kind, seed) };
            }
            let lvl = 1 + i % (leaf.path.len() - 1);
            let prefix = &leaf.path[..lvl];
            let rest = &leaf.path[lvl..];
            let value = match kind {
                K::Valid | K::Variant => {
                    // the complete default sub-tree with one leaf changed
                    let mut sub = get_path(&sch.default_v, prefix).cloned().unwrap_or(json!({}));
                    set_in(&mut sub, rest, leaf_value(sch, leaf, kind, seed));
                    if i % 5 == 4 {
                        set_in(&mut sub, &["zz_unknown".to_string()], json!(1));
                    }
                    sub
                }
                K::Null => Value::Null,
                K::Wrong => {
                    // partial object: only one key
                    let mut sub = json!({});
                    set_in(&mut sub, rest, valid(sch, &leaf.ty, seed));
                    sub
                }
                _ => [json!(5), json!("s"), json!([]), json!({})][i % 4].clone(),
            };
            Op::Set { path: dotted(prefix), value }
        }
        8 => {
            let mut p = leaf.path[..leaf.path.len() - 1].to_vec();
            p.push(["nope", "zz_unknown0", "Verify_trust", "enabled "][i % 4].to_string());
            Op::Set { path: dotted(&p), value: generic(&mut r, 2) }
        }
        9 => Op::Set { path: format!("{}.x", dotted(&leaf.path)), value: scalar(&mut r) },
        10 => Op::Set { path: ["hidden.test1", "hidden", "zz.a.b.c", "Core.merkle_tree_max_proofs"][i % 4].to_string(), value: generic(&mut r, 2) },
        11 => Op::Set {
            path: ["", ".", "verify.", ".verify", "verify..verify_trust", "verify verify_trust", "verify/verify_trust", "vérify.verify_trust", "core.allowed_network_hosts.0", "verify.verify_trust "][i % 10].to_string(),
            value: [json!(true), json!(false), json!(1), json!("x")][(i / 10) % 4].clone(),
        },
        _ => {
            let tail = ["custom", "custom.k", "a", "a.b", "a.b.c", "name", "version"][i % 7];
            let d = r.usize(3);
            Op::Set { path: format!("builder.claim_generator_info.{tail}"), value: if i % 3 == 0 { scalar(&mut r) } else { nested(&mut r, d) } }
        }
    }
}

fn render_text(doc: &Value, fmt_kind: u8) -> (String, String) {
    match fmt_kind % 4 {
        0 => (serde_json::to_string(doc).unwrap_or_default(), "json".to_string()),
        1 => (serde_json::to_string_pretty(doc).unwrap_or_default(), "json".to_string()),
        k => match toml_twin(doc, if k == 2 { 1 } else { 2 }) {
            Some(t) => (t, "toml".to_string()),
            None => (serde_json::to_string(doc).unwrap_or_default(), "json".to_string()),
        },
    }
}

fn op_strat(sch: Arc<Schema>) -> impl Strategy<Value = Op> {
    let (s0, s1, s2, s3) = (sch.clone(), sch.clone(), sch.clone(), sch);
    prop_oneof![
        4 => (proptest::collection::vec(pick_strat(&s0), 0..7), 0u8..3).prop_map(move |(picks, style)| Op::Overlay { doc: build_doc(&s1, &picks), style }),
        3 => (0u8..13, pick_strat(&s0)).prop_map(move |(pk, pick)| set_op(&s2, pk, &pick)),
        1 => (proptest::collection::vec(pick_strat(&s0), 0..5), 0u8..4, 0u8..10, any::<u32>()).prop_map(move |(picks, fk, mk, seed)| {
            let doc = build_doc(&s3, &picks);
            let (t, f) = render_text(&doc, fk);
            let (text, format) = mangle(&t, &f, mk, seed);
            Op::Text { text, format }
        }),
    ]
}

fn tl_strat(sch: Arc<Schema>) -> impl Strategy<Value = TlCase> {
    let step = (proptest::collection::vec(pick_strat(&sch), 0..5), 0u8..4, prop_oneof![3 => Just(0u8), 1 => 0u8..10], any::<u32>(), any::<bool>()).prop_map(move |(picks, fk, mk, seed, ft)| {
        // the legacy API is exercised with plain documents: no 60+ level chains
        let picks: Vec<Pick> = picks.into_iter().map(|(l, k, s)| (l, if kind_of(k) == K::DeepChain { 0 } else { k }, s)).collect();
        let doc = build_doc(&sch, &picks);
        let (t, f) = render_text(&doc, fk);
        let (text, format) = mangle(&t, &f, mk, seed);
        (text, format, ft)
    });
    proptest::collection::vec(step, 1..5).prop_map(|steps| TlCase { steps })
}

fn main() {
    vh::quiet_panics();
    let run = Run::from_args("C25", "exploration");
    let selftest: u8 = std::env::var("VERIF_SELFTEST").ok().and_then(|s| s.parse().ok()).unwrap_or(0);
    run.set_rule("cases = sequences of 1..5 updates on a Settings instance starting at the default: overlay documents built from the run-time schema (walk of to_value(Settings::default()) + probed optional sections signer / cawg_x509_signer / claim_generator_info / thumbnail.format / source types / trust PEMs) with valid values, non-canonical spellings, nulls, wrong types, out-of-range numbers, unknown keys, sections replaced by scalars, free-form nested maps, 56..70-level chains, non-object documents; each overlay as JSON and (null-free) as TOML through two renderers; raw texts with truncation / garbage / duplicate keys / wrong or odd format labels; path/value pairs on leaf, prefix, unknown, beyond-leaf, malformed and free-form paths. Separate streams drive the deprecated thread-local API (one thread per case) and the SDK's own settings fixtures. Non-trivial = some overlay touches >= 2 known sections or some update fails.");
    run.assume("serde_json / toml parsing of texts is trusted (the harness parses with the same crates to learn the document)");
    run.assume("deserialisation of a merged document into Settings (defaults, enum spelling, unknown keys) is the SDK's; oracle (B) re-checks the result against the merged document with harness-only normalisation rules");
    run.assume("merges deeper than the SDK's documented internal limit (64 levels) are recorded, not judged");
    run.assume("validation outcomes are not predicted except for documents that satisfy every documented rule (then the update must succeed)");
    if selftest != 0 {
        run.note(format!("VERIF_SELFTEST={selftest}: deliberately wrong oracle / corrupted SDK answer"));
    }

    let sch = Arc::new(build_schema(&run));
    run.extra("schema_leaves", json!(sch.leaves.len()));
    run.extra("schema_paths", json!(sch.leaves.iter().map(|l| dotted(&l.path)).collect::<Vec<_>>()));
    run.extra("schema_unverified", json!(sch.unverified));
    run.extra("pem_fixtures", json!({"good": sch.pem_good.len(), "bad": sch.pem_bad.len()}));
    if sch.leaves.len() < 20 {
        run.inconclusive("settings schema walk found fewer than 20 leaves");
    }
    // sanity of the observation functions themselves
    {
        let d = Settings::default();
        let v = tv(&d);
        match serde_json::from_value::<Settings>(v.clone()) {
            Ok(back) if back == d && tv(&Settings::new()) == v => {}
            _ => run.inconclusive("Settings::default() does not round-trip through to_value/from_value"),
        }
    }
    let cx = Ctx { run: &run, sch: &sch, selftest };

    // (a) SDK fixture documents
    let fixtures: Vec<FixtureCase> = [
        "/repo/sdk/tests/fixtures/certs/trust/test_settings.toml",
        "/repo/sdk/examples/c2pa.toml",
        "/repo/sdk/tests/fixtures/test_settings.json",
    ]
    .iter()
    .map(|f| FixtureCase { file: f.to_string() })
    .collect();
    run.drive_enum("fixture_documents", fixtures, |c| judge_fixture(&cx, c));

    // (b) update sequences on instances
    let threads = if run.quick() { 4 } else { 16 };
    let strat = proptest::collection::vec(op_strat(sch.clone()), 1..6).prop_map(|ops| Case { ops });
    run.drive_par("instance_updates", run.scale(40_000, 1_500_000), threads, strat, |c| judge(&cx, c));

    // (c) deprecated thread-local API
    run.drive_par("thread_local_updates", run.scale(8_000, 250_000), threads, tl_strat(sch.clone()), |c| judge_tl(&cx, c));

    run.finish();
}
