//! C33 — CAWG identity assertions bind exactly the referenced assertions.
//!
//! Flow per case (all through the public API):
//!   definition with 1..5 assertions -> `Builder::sign` / `sign_async` with a C2PA fixture signer whose
//!   `dynamic_assertions()` hands out the SDK's own `IdentityAssertionBuilder` / `AsyncIdentityAssertionBuilder`
//!   over the SDK's `X509CredentialHolder` / `AsyncX509CredentialHolder` (fixture X.509 chain), wrapped by the harness so
//!   that exactly one component can be changed **before the C2PA claim is signed** (the C2PA layer stays intact):
//!     * credential-holder wrapper: flip a bit of the COSE signature, sign a different payload, announce another `sig_type`;
//!     * dynamic-assertion wrapper rewriting the finished identity-assertion CBOR: non-zero `pad1` / `pad2`, altered
//!       referenced-assertion hash, dropped / added / duplicated / swapped references, changed role, changed `sig_type`.
//!   Then read (sync, async, or with `core.decode_identity_assertions=false` + `Reader::post_validate_async(&CawgValidator)`).
//!
//! Oracle (from the property text, no SDK logic):
//!   * unmutated => success codes `cawg.x509.signature.validated` and `cawg.identity.well-formed`, and no `cawg.*` failure
//!     other than `cawg.x509.credential.untrusted` when the CAWG trust configuration does not contain the credential's root;
//!   * each mutation => at least one `cawg.*` failure code;
//!   * always: the manifest store's validation state is not Invalid (it is Valid/Trusted for the same definition signed
//!     without an identity assertion).

use std::{
    collections::BTreeMap,
    io::Cursor,
    sync::{Arc, Mutex},
};

use async_trait::async_trait;
use c2pa::{
    dynamic_assertion::{AsyncDynamicAssertion, DynamicAssertion, DynamicAssertionContent, PartialClaim},
    identity::{
        builder::{
            AsyncCredentialHolder, AsyncIdentityAssertionBuilder, CredentialHolder, IdentityAssertionBuilder,
            IdentityBuilderError,
        },
        validator::CawgValidator,
        x509::{AsyncX509CredentialHolder, X509CredentialHolder},
        SignerPayload,
    },
    AsyncSigner, Builder, BuilderIntent, DigitalSourceType, HashedUri, RawSigner, RawSignerError, Reader, Signer,
    SigningAlg,
};
use ciborium::Value as Cbor;
use openssl::pkey::{PKey, Private};
use proptest::prelude::*;
use serde::{Deserialize, Serialize};
use serde_json::{json, Value};
use vh::{pki, pki::KeyKind, sdk, CaseResult, Fail, Run};

// =====================================================================================================
// case
// =====================================================================================================

#[derive(Clone, Debug, Serialize, Deserialize, PartialEq, Eq, Hash)]
enum Mutation {
    None,
    // ---- credential holder level (the identity signature / the signed payload) ----
    /// flip one bit of the raw signature inside the COSE_Sign1 (byte counted from the end)
    FlipSig { from_end: u8, bit: u8 },
    /// the holder signs a payload that differs from the one stored: 0 = extra role, 1 = other sig_type,
    /// 2 = first referenced hash altered, 3 = last reference dropped
    SignOtherPayload { kind: u8 },
    /// the holder announces (and signs) another `sig_type`
    WrongSigType { which: u8 },
    // ---- rewriting the finished assertion CBOR (after the identity signature was made) ----
    Pad1 { pos: u16, val: u8 },
    Pad2 { pos: u16, val: u8 },
    /// byte `pos` of the hash of reference `idx` gets `^= 0x01 << bit`
    RefHash { idx: u8, pos: u8, bit: u8 },
    RefDrop { idx: u8 },
    /// append a copy of reference `idx`
    RefDup { idx: u8 },
    /// append a reference to an assertion that is not in the claim
    RefAddMissing,
    /// append a reference to a claim assertion that the signer payload did not cover
    RefAddUnsigned,
    RefSwap { i: u8, j: u8 },
    /// append / change a role
    Role { which: u8 },
    SigTypeRewrite { which: u8 },
    /// flip a bit in the stored signature bytes (same as FlipSig but done on the finished CBOR)
    SigRewrite { from_end: u8, bit: u8 },
}

#[derive(Clone, Debug, Serialize, Deserialize, PartialEq, Eq, Hash)]
struct Case {
    /// index into the asset pool
    asset: u8,
    c2pa_alg: u8,
    cawg_alg: u8,
    /// number of definition assertions 1..=5
    n_assertions: u8,
    /// which of them (bits 0..4) plus `c2pa.actions.v2` (bit 5) the identity assertion is asked to reference
    ref_mask: u8,
    roles: Vec<u8>,
    /// C2PA trust anchors configured for the reader
    c2pa_trusted: bool,
    /// 0 = CAWG anchors contain the credential's root, 1 = no CAWG anchors, 2 = `cawg_trust.verify_trust_list=false`
    cawg_trust: u8,
    async_sign: bool,
    /// 0 sync read, 1 async read, 2 decode off + post_validate_async(CawgValidator)
    read_mode: u8,
    mutation: Mutation,
    /// number of ingredients added to the builder (0..=3): assertions `c2pa.ingredient.v3`, `…__1`, `…__2`
    #[serde(default)]
    n_ingredients: u8,
    /// which ingredient assertion instances (bit i = instance i) the identity assertion is asked to reference
    #[serde(default)]
    ing_ref_mask: u8,
    /// extra copies (0..=2) of the first definition assertion: instances `org.verif.alpha__1`, `…__2`
    #[serde(default)]
    extra_copies: u8,
    /// which of those extra instances are referenced (bit 0 = `__1`, bit 1 = `__2`; the base instance is `ref_mask` bit 0)
    #[serde(default)]
    copy_ref_mask: u8,
}

const ALGS: [&str; 5] = ["ed25519", "es256", "es384", "ps256", "es512"];
const LABELS: [&str; 5] = ["org.verif.alpha", "cawg.training-mining", "org.verif.gamma", "stds.schema-org.CreativeWork", "org.verif.epsilon"];
const ING_LABELS: [&str; 3] = ["c2pa.ingredient.v3", "c2pa.ingredient.v3__1", "c2pa.ingredient.v3__2"];
const COPY_LABELS: [&str; 2] = ["org.verif.alpha__1", "org.verif.alpha__2"];
const ROLES: [&str; 5] = ["cawg.creator", "cawg.contributor", "cawg.editor", "cawg.producer", "org.verif.role"];
const SIG_TYPES: [&str; 4] = ["cawg.x509.cose.v2", "org.verif.sig", "cawg.identity_claims_aggregation", ""];

// =====================================================================================================
// credentials
// =====================================================================================================

fn kind_of(alg: &str) -> KeyKind {
    match alg {
        "ed25519" => KeyKind::Ed25519,
        "es256" => KeyKind::P256,
        "es384" => KeyKind::P384,
        "es512" => KeyKind::P521,
        _ => KeyKind::RsaPss2048,
    }
}

/// `c2pa::RawSigner` over a fixture private key (the harness cannot name `c2pa_raw_crypto::signer_from_private_key`).
struct OsslRaw {
    key: PKey<Private>,
    kind: KeyKind,
    alg: SigningAlg,
}

impl RawSigner for OsslRaw {
    fn sign(&self, data: &[u8]) -> Result<Vec<u8>, RawSignerError> {
        pki::cose_sign_raw(&self.key, self.kind, self.alg, data).map_err(RawSignerError::CryptoLibraryError)
    }
    fn alg(&self) -> SigningAlg {
        self.alg
    }
    fn max_signature_size(&self) -> usize {
        match self.kind {
            KeyKind::Ed25519 | KeyKind::P256 => 64,
            KeyKind::P384 => 96,
            KeyKind::P521 => 132,
            _ => 512,
        }
    }
}

fn chain_der(alg: &str) -> Vec<Vec<u8>> {
    let (pem, _) = sdk::credential(alg);
    openssl::x509::X509::stack_from_pem(&pem).expect("fixture chain").iter().map(|c| c.to_der().expect("der")).collect()
}

fn raw_signer(alg: &str) -> Box<dyn RawSigner + Send + Sync> {
    let (_, key) = sdk::credential(alg);
    Box::new(OsslRaw {
        key: PKey::private_key_from_pem(&key).expect("fixture key"),
        kind: kind_of(alg),
        alg: sdk::signing_alg(alg),
    })
}

// =====================================================================================================
// credential-holder wrapper
// =====================================================================================================

fn other_payload(sp: &SignerPayload, kind: u8) -> SignerPayload {
    let mut p = sp.clone();
    match kind % 4 {
        0 => p.roles.push("org.verif.unsigned-role".to_string()),
        1 => p.sig_type = "cawg.x509.cose.other".to_string(),
        2 => {
            if let Some(r) = p.referenced_assertions.first().cloned() {
                let mut h = r.hash();
                if let Some(b) = h.first_mut() {
                    *b ^= 0x80;
                }
                p.referenced_assertions[0] = HashedUri::new(r.url(), r.alg(), &h);
            }
        }
        _ => {
            if p.referenced_assertions.len() > 1 {
                p.referenced_assertions.pop();
            } else {
                p.roles.push("org.verif.unsigned-role".to_string());
            }
        }
    }
    p
}

fn flip_from_end(sig: &mut [u8], from_end: u8, bit: u8) {
    let n = sig.len();
    if n == 0 {
        return;
    }
    let i = n - 1 - (from_end as usize % n.min(48));
    sig[i] ^= 1 << (bit % 8);
}

fn holder_sig_type(m: &Mutation, inner: &'static str) -> &'static str {
    match m {
        Mutation::WrongSigType { which } => SIG_TYPES[*which as usize % SIG_TYPES.len()],
        _ => inner,
    }
}

fn holder_post(m: &Mutation, mut sig: Vec<u8>) -> Vec<u8> {
    if let Mutation::FlipSig { from_end, bit } = m {
        flip_from_end(&mut sig, *from_end, *bit);
    }
    sig
}

struct Holder {
    inner: X509CredentialHolder,
    m: Mutation,
}

impl CredentialHolder for Holder {
    fn sig_type(&self) -> &'static str {
        holder_sig_type(&self.m, self.inner.sig_type())
    }
    fn reserve_size(&self) -> usize {
        self.inner.reserve_size() + 1024
    }
    fn sign(&self, sp: &SignerPayload) -> Result<Vec<u8>, IdentityBuilderError> {
        let sig = match &self.m {
            Mutation::SignOtherPayload { kind } => self.inner.sign(&other_payload(sp, *kind))?,
            _ => self.inner.sign(sp)?,
        };
        Ok(holder_post(&self.m, sig))
    }
}

struct AsyncHolder {
    inner: AsyncX509CredentialHolder,
    m: Mutation,
}

#[async_trait]
impl AsyncCredentialHolder for AsyncHolder {
    fn sig_type(&self) -> &'static str {
        holder_sig_type(&self.m, self.inner.sig_type())
    }
    fn reserve_size(&self) -> usize {
        self.inner.reserve_size() + 1024
    }
    async fn sign(&self, sp: &SignerPayload) -> Result<Vec<u8>, IdentityBuilderError> {
        let sig = match &self.m {
            Mutation::SignOtherPayload { kind } => self.inner.sign(&other_payload(sp, *kind)).await?,
            _ => self.inner.sign(sp).await?,
        };
        Ok(holder_post(&self.m, sig))
    }
}

// =====================================================================================================
// CBOR rewriting of the finished identity assertion
// =====================================================================================================

fn map_get<'a>(v: &'a mut Cbor, key: &str) -> Option<&'a mut Cbor> {
    match v {
        Cbor::Map(m) => m.iter_mut().find(|(k, _)| k.as_text() == Some(key)).map(|(_, v)| v),
        _ => None,
    }
}

fn enc(v: &Cbor) -> Vec<u8> {
    let mut out = vec![];
    ciborium::ser::into_writer(v, &mut out).expect("cbor encode");
    out
}

/// Make the encoding exactly `size` bytes long by resizing `pad1` (and `pad2` when a CBOR length-header
/// boundary gets in the way), keeping the first `keep` bytes of pad1/pad2 (so a non-zero byte planted at a
/// low index survives).
fn fit(v: &mut Cbor, size: usize) -> bool {
    for pad2_len in 0..12usize {
        if pad2_len > 0 {
            match map_get(v, "pad2") {
                Some(Cbor::Bytes(b)) => {
                    b.resize(b.len().max(1) + 1, 0);
                }
                _ => {
                    if let Cbor::Map(m) = v {
                        m.push((Cbor::Text("pad2".into()), Cbor::Bytes(vec![0])));
                    }
                }
            }
        }
        for _ in 0..6 {
            let len = enc(v).len();
            if len == size {
                return true;
            }
            let Some(Cbor::Bytes(p1)) = map_get(v, "pad1") else { return false };
            if len < size {
                let n = p1.len() + (size - len);
                p1.resize(n, 0);
            } else {
                let over = len - size;
                if p1.len() < over {
                    break;
                }
                let n = p1.len() - over;
                p1.truncate(n);
            }
        }
    }
    enc(v).len() == size
}

fn refs_mut(v: &mut Cbor) -> Option<&mut Vec<Cbor>> {
    match map_get(map_get(v, "signer_payload")?, "referenced_assertions")? {
        Cbor::Array(a) => Some(a),
        _ => None,
    }
}

/// Apply a CBOR-level mutation. Returns `None` when the mutation does not apply to this assertion (the
/// generator avoids that; counted when it happens).
fn rewrite(bytes: &[u8], size: Option<usize>, claim: &PartialClaim, m: &Mutation) -> Option<Vec<u8>> {
    let mut v: Cbor = ciborium::de::from_reader(bytes).ok()?;
    let changed = match m {
        Mutation::Pad1 { pos, val } => {
            let Some(Cbor::Bytes(p)) = map_get(&mut v, "pad1") else { return None };
            if p.is_empty() {
                p.push(0);
            }
            let i = *pos as usize % p.len();
            p[i] = (*val).max(1);
            true
        }
        Mutation::Pad2 { pos, val } => {
            if map_get(&mut v, "pad2").is_none() {
                if let Cbor::Map(mm) = &mut v {
                    mm.push((Cbor::Text("pad2".into()), Cbor::Bytes(vec![0])));
                }
            }
            let Some(Cbor::Bytes(p)) = map_get(&mut v, "pad2") else { return None };
            if p.is_empty() {
                p.push(0);
            }
            let i = *pos as usize % p.len();
            p[i] = (*val).max(1);
            true
        }
        Mutation::RefHash { idx, pos, bit } => {
            let a = refs_mut(&mut v)?;
            if a.is_empty() {
                return None;
            }
            let i = *idx as usize % a.len();
            match map_get(&mut a[i], "hash") {
                Some(Cbor::Bytes(h)) if !h.is_empty() => {
                    let p = *pos as usize % h.len();
                    h[p] ^= 1 << (bit % 8);
                    true
                }
                _ => return None,
            }
        }
        Mutation::RefDrop { idx } => {
            let a = refs_mut(&mut v)?;
            if a.is_empty() {
                return None;
            }
            let i = *idx as usize % a.len();
            a.remove(i);
            true
        }
        Mutation::RefDup { idx } => {
            let a = refs_mut(&mut v)?;
            if a.is_empty() {
                return None;
            }
            let i = *idx as usize % a.len();
            let c = a[i].clone();
            a.push(c);
            true
        }
        Mutation::RefAddMissing => {
            let a = refs_mut(&mut v)?;
            let mut c = a.first()?.clone();
            if let Some(Cbor::Text(u)) = map_get(&mut c, "url") {
                *u = match u.rsplit_once('/') {
                    Some((pre, _)) => format!("{pre}/org.verif.not-in-claim"),
                    None => "self#jumbf=c2pa.assertions/org.verif.not-in-claim".to_string(),
                };
            }
            a.push(c);
            true
        }
        Mutation::RefAddUnsigned => {
            let present: Vec<String> = {
                let a = refs_mut(&mut v)?;
                a.iter_mut().filter_map(|r| map_get(r, "url").and_then(|u| u.as_text().map(|s| s.to_string()))).collect()
            };
            let extra = claim.assertions().find(|h| !present.contains(&h.url()) && !h.url().contains("cawg.identity"))?;
            let mut e = vec![(Cbor::Text("url".into()), Cbor::Text(extra.url()))];
            if let Some(alg) = extra.alg() {
                e.push((Cbor::Text("alg".into()), Cbor::Text(alg)));
            }
            e.push((Cbor::Text("hash".into()), Cbor::Bytes(extra.hash())));
            refs_mut(&mut v)?.push(Cbor::Map(e));
            true
        }
        Mutation::RefSwap { i, j } => {
            let a = refs_mut(&mut v)?;
            if a.len() < 2 {
                return None;
            }
            let i = *i as usize % a.len();
            let mut j = *j as usize % a.len();
            if i == j {
                j = (i + 1) % a.len();
            }
            if a[i] == a[j] {
                return None;
            }
            a.swap(i, j);
            true
        }
        Mutation::Role { which } => {
            let sp = map_get(&mut v, "signer_payload")?;
            let role = ROLES[*which as usize % ROLES.len()].to_string();
            match map_get(sp, "role") {
                Some(Cbor::Array(r)) => {
                    if r.first().and_then(|x| x.as_text()) == Some(role.as_str()) {
                        r[0] = Cbor::Text(format!("{role}.x"));
                    } else if r.is_empty() {
                        r.push(Cbor::Text(role));
                    } else {
                        r[0] = Cbor::Text(role);
                    }
                }
                _ => {
                    if let Cbor::Map(mm) = sp {
                        mm.push((Cbor::Text("role".into()), Cbor::Array(vec![Cbor::Text(role)])));
                    }
                }
            }
            true
        }
        Mutation::SigTypeRewrite { which } => {
            let sp = map_get(&mut v, "signer_payload")?;
            match map_get(sp, "sig_type") {
                Some(Cbor::Text(t)) => {
                    *t = SIG_TYPES[*which as usize % SIG_TYPES.len()].to_string();
                    true
                }
                _ => return None,
            }
        }
        Mutation::SigRewrite { from_end, bit } => match map_get(&mut v, "signature") {
            Some(Cbor::Bytes(s)) => {
                flip_from_end(s, *from_end, *bit);
                true
            }
            _ => return None,
        },
        _ => false,
    };
    if !changed {
        return Some(bytes.to_vec());
    }
    if let Some(size) = size {
        if !fit(&mut v, size) {
            return None;
        }
    }
    Some(enc(&v))
}

#[derive(Default)]
struct Notes {
    /// the CBOR mutation could not be applied (case is then effectively unmutated)
    not_applied: bool,
    size_given: Option<bool>,
    refs: usize,
    /// URLs of the referenced assertions as the SDK builder produced them (before any rewrite)
    urls: Vec<String>,
}

/// `…/c2pa.assertions/c2pa.ingredient.v3__2` -> `c2pa.ingredient` (instance suffix and version stripped)
fn base_label(url: &str) -> String {
    let l = url.rsplit('/').next().unwrap_or(url);
    let l = match l.rfind("__") {
        Some(i) if l[i + 2..].chars().all(|c| c.is_ascii_digit()) && i + 2 < l.len() => &l[..i],
        _ => l,
    };
    match l.rfind(".v") {
        Some(i) if l[i + 2..].chars().all(|c| c.is_ascii_digit()) && i + 2 < l.len() => l[..i].to_string(),
        _ => l.to_string(),
    }
}

/// at least two *different* referenced assertions share a base label (several instances / versions of one label)
fn multi_instance(urls: &[String]) -> bool {
    for (i, a) in urls.iter().enumerate() {
        for b in &urls[i + 1..] {
            if a != b && base_label(a) == base_label(b) {
                return true;
            }
        }
    }
    false
}

struct Rewriter {
    inner: IdentityAssertionBuilder,
    m: Mutation,
    notes: Arc<Mutex<Notes>>,
}

fn post_content(
    c: DynamicAssertionContent,
    size: Option<usize>,
    claim: &PartialClaim,
    m: &Mutation,
    notes: &Arc<Mutex<Notes>>,
) -> DynamicAssertionContent {
    match c {
        DynamicAssertionContent::Cbor(b) => {
            let mut n = notes.lock().unwrap();
            n.size_given = Some(size.is_some());
            if let Ok(mut v) = ciborium::de::from_reader::<Cbor, _>(&b[..]) {
                n.refs = refs_mut(&mut v).map(|a| a.len()).unwrap_or(0);
                n.urls = refs_mut(&mut v)
                    .map(|a| a.iter_mut().filter_map(|r| map_get(r, "url").and_then(|u| u.as_text().map(|s| s.to_string()))).collect())
                    .unwrap_or_default();
            }
            match rewrite(&b, size, claim, m) {
                Some(out) => DynamicAssertionContent::Cbor(out),
                None => {
                    n.not_applied = true;
                    DynamicAssertionContent::Cbor(b)
                }
            }
        }
        other => other,
    }
}

impl DynamicAssertion for Rewriter {
    fn label(&self) -> String {
        self.inner.label()
    }
    fn reserve_size(&self) -> c2pa::Result<usize> {
        self.inner.reserve_size()
    }
    fn content(&self, label: &str, size: Option<usize>, claim: &PartialClaim) -> c2pa::Result<DynamicAssertionContent> {
        let c = self.inner.content(label, size, claim)?;
        Ok(post_content(c, size, claim, &self.m, &self.notes))
    }
}

struct SharedRewriter(Arc<Rewriter>);
impl DynamicAssertion for SharedRewriter {
    fn label(&self) -> String {
        self.0.label()
    }
    fn reserve_size(&self) -> c2pa::Result<usize> {
        self.0.reserve_size()
    }
    fn content(&self, label: &str, size: Option<usize>, claim: &PartialClaim) -> c2pa::Result<DynamicAssertionContent> {
        self.0.content(label, size, claim)
    }
}

struct AsyncRewriter {
    inner: AsyncIdentityAssertionBuilder,
    m: Mutation,
    notes: Arc<Mutex<Notes>>,
}

struct SharedAsyncRewriter(Arc<AsyncRewriter>);
#[async_trait]
impl AsyncDynamicAssertion for SharedAsyncRewriter {
    fn label(&self) -> String {
        self.0.inner.label()
    }
    fn reserve_size(&self) -> c2pa::Result<usize> {
        self.0.inner.reserve_size()
    }
    async fn content(&self, label: &str, size: Option<usize>, claim: &PartialClaim) -> c2pa::Result<DynamicAssertionContent> {
        let c = self.0.inner.content(label, size, claim).await?;
        Ok(post_content(c, size, claim, &self.0.m, &self.0.notes))
    }
}

// =====================================================================================================
// C2PA signers carrying the identity assertion
// =====================================================================================================

struct CawgSigner {
    base: Box<dyn Signer + Send + Sync>,
    ia: Option<Arc<Rewriter>>,
}

impl Signer for CawgSigner {
    fn sign(&self, data: &[u8]) -> c2pa::Result<Vec<u8>> {
        self.base.sign(data)
    }
    fn alg(&self) -> SigningAlg {
        self.base.alg()
    }
    fn certs(&self) -> c2pa::Result<Vec<Vec<u8>>> {
        self.base.certs()
    }
    fn reserve_size(&self) -> usize {
        self.base.reserve_size()
    }
    fn dynamic_assertions(&self) -> Vec<Box<dyn DynamicAssertion>> {
        match &self.ia {
            Some(r) => vec![Box::new(SharedRewriter(r.clone()))],
            None => vec![],
        }
    }
}

struct AsyncCawgSigner {
    base: Box<dyn Signer + Send + Sync>,
    ia: Arc<AsyncRewriter>,
}

#[async_trait]
impl AsyncSigner for AsyncCawgSigner {
    async fn sign(&self, data: Vec<u8>) -> c2pa::Result<Vec<u8>> {
        self.base.sign(&data)
    }
    fn alg(&self) -> SigningAlg {
        self.base.alg()
    }
    fn certs(&self) -> c2pa::Result<Vec<Vec<u8>>> {
        self.base.certs()
    }
    fn reserve_size(&self) -> usize {
        self.base.reserve_size()
    }
    fn dynamic_assertions(&self) -> Vec<Box<dyn AsyncDynamicAssertion>> {
        vec![Box::new(SharedAsyncRewriter(self.ia.clone()))]
    }
}

// =====================================================================================================
// building, signing, reading
// =====================================================================================================

struct Asset {
    label: String,
    format: String,
    bytes: Vec<u8>,
}

fn definition(c: &Case) -> Value {
    let n = c.n_assertions.clamp(1, 5) as usize;
    let mut assertions = vec![];
    for (i, label) in LABELS.iter().enumerate().take(n) {
        let data = match *label {
            "cawg.training-mining" => json!({"entries": {"cawg.ai_inference": {"use": "notAllowed"}, "cawg.ai_generative_training": {"use": "notAllowed"}}}),
            "stds.schema-org.CreativeWork" => json!({"@context": "https://schema.org", "@type": "CreativeWork", "author": [{"@type": "Person", "name": "Verif Harness"}]}),
            _ => json!({"note": format!("assertion {i}"), "n": i}),
        };
        assertions.push(json!({"label": label, "data": data}));
    }
    for k in 0..c.extra_copies.min(2) {
        assertions.push(json!({"label": LABELS[0], "data": {"note": format!("copy {k}"), "copy": k + 1}}));
    }
    json!({
        "title": "c33",
        "claim_generator_info": [{ "name": "verif-harness", "version": "0.1" }],
        "assertions": assertions,
    })
}

fn referenced_labels(c: &Case) -> Vec<&'static str> {
    let n = c.n_assertions.clamp(1, 5) as usize;
    let mut v: Vec<&'static str> = LABELS.iter().take(n).enumerate().filter(|(i, _)| c.ref_mask & (1 << i) != 0).map(|(_, l)| *l).collect();
    if c.ref_mask & 0x20 != 0 {
        v.push("c2pa.actions.v2");
    }
    for i in 0..c.n_ingredients.min(3) as usize {
        if c.ing_ref_mask & (1 << i) != 0 {
            v.push(ING_LABELS[i]);
        }
    }
    for k in 0..c.extra_copies.min(2) as usize {
        if c.copy_ref_mask & (1 << k) != 0 {
            v.push(COPY_LABELS[k]);
        }
    }
    v
}

fn ingredient_bytes() -> &'static Vec<u8> {
    static B: std::sync::OnceLock<Vec<u8>> = std::sync::OnceLock::new();
    B.get_or_init(|| sdk::fixture("libpng-test.png"))
}

fn block_on<F: std::future::Future>(f: F) -> F::Output {
    tokio::runtime::Builder::new_current_thread().enable_all().build().expect("tokio runtime").block_on(f)
}

fn sign_case(c: &Case, asset: &Asset, with_identity: bool, notes: &Arc<Mutex<Notes>>) -> c2pa::Result<Vec<u8>> {
    let ctx = sdk::context_with(&sdk::base_settings(false));
    let mut b = Builder::from_context(ctx).with_definition(definition(c).to_string())?;
    b.set_intent(BuilderIntent::Create(DigitalSourceType::Empty));
    for i in 0..c.n_ingredients.min(3) {
        let ij = json!({"title": format!("ingredient {i}"), "relationship": "componentOf"}).to_string();
        b.add_ingredient_from_stream(ij, "image/png", &mut Cursor::new(ingredient_bytes().clone()))?;
    }
    let c2pa_alg = ALGS[c.c2pa_alg as usize % ALGS.len()];
    let cawg_alg = ALGS[c.cawg_alg as usize % ALGS.len()];
    let labels = referenced_labels(c);
    let roles: Vec<&str> = c.roles.iter().map(|r| ROLES[*r as usize % ROLES.len()]).collect();
    let mut src = Cursor::new(asset.bytes.clone());
    let mut dst = Cursor::new(Vec::new());
    if !with_identity {
        let s = CawgSigner { base: sdk::signer(c2pa_alg), ia: None };
        b.sign(&s, &asset.format, &mut src, &mut dst)?;
    } else if c.async_sign {
        let holder = AsyncHolder {
            inner: AsyncX509CredentialHolder::from_async_raw_signer(raw_signer(cawg_alg), chain_der(cawg_alg)),
            m: c.mutation.clone(),
        };
        let mut iab = AsyncIdentityAssertionBuilder::for_credential_holder(holder);
        iab.add_referenced_assertions(&labels);
        iab.add_roles(&roles);
        let s = AsyncCawgSigner {
            base: sdk::signer(c2pa_alg),
            ia: Arc::new(AsyncRewriter { inner: iab, m: c.mutation.clone(), notes: notes.clone() }),
        };
        block_on(b.sign_async(&s, &asset.format, &mut src, &mut dst))?;
    } else {
        let holder = Holder {
            inner: X509CredentialHolder::from_raw_signer(raw_signer(cawg_alg), chain_der(cawg_alg)),
            m: c.mutation.clone(),
        };
        let mut iab = IdentityAssertionBuilder::for_credential_holder(holder);
        iab.add_referenced_assertions(&labels);
        iab.add_roles(&roles);
        let s = CawgSigner {
            base: sdk::signer(c2pa_alg),
            ia: Some(Arc::new(Rewriter { inner: iab, m: c.mutation.clone(), notes: notes.clone() })),
        };
        b.sign(&s, &asset.format, &mut src, &mut dst)?;
    }
    Ok(dst.into_inner())
}

fn reader_settings(c: &Case) -> Value {
    let mut s = sdk::base_settings(c.c2pa_trusted);
    match c.cawg_trust % 3 {
        0 => s["cawg_trust"] = json!({ "trust_anchors": sdk::test_anchors() }),
        1 => {}
        _ => s["cawg_trust"] = json!({ "verify_trust_list": false }),
    }
    if c.read_mode % 3 == 2 {
        s["core"] = json!({ "decode_identity_assertions": false });
    }
    s
}

fn read_case(c: &Case, asset: &Asset, signed: &[u8]) -> c2pa::Result<Reader> {
    let ctx = sdk::context_with(&reader_settings(c));
    match c.read_mode % 3 {
        0 => Reader::from_context(ctx).with_stream(&asset.format, Cursor::new(signed.to_vec())),
        1 => block_on(Reader::from_context(ctx).with_stream_async(&asset.format, Cursor::new(signed.to_vec()))),
        _ => {
            let ctx = ctx.into_shared();
            block_on(async {
                let mut r = Reader::from_shared_context(&ctx).with_stream_async(&asset.format, Cursor::new(signed.to_vec())).await?;
                r.post_validate_async(&CawgValidator::new(&ctx)).await?;
                Ok(r)
            })
        }
    }
}

// =====================================================================================================
// judge
// =====================================================================================================

fn mutation_name(m: &Mutation) -> &'static str {
    match m {
        Mutation::None => "none",
        Mutation::FlipSig { .. } => "holder-flip-signature",
        Mutation::SignOtherPayload { .. } => "holder-signs-other-payload",
        Mutation::WrongSigType { .. } => "holder-wrong-sig-type",
        Mutation::Pad1 { .. } => "pad1-nonzero",
        Mutation::Pad2 { .. } => "pad2-nonzero",
        Mutation::RefHash { .. } => "referenced-hash-altered",
        Mutation::RefDrop { .. } => "reference-dropped",
        Mutation::RefDup { .. } => "reference-duplicated",
        Mutation::RefAddMissing => "reference-added-not-in-claim",
        Mutation::RefAddUnsigned => "reference-added-unsigned",
        Mutation::RefSwap { .. } => "references-swapped",
        Mutation::Role { .. } => "role-changed",
        Mutation::SigTypeRewrite { .. } => "sig-type-rewritten",
        Mutation::SigRewrite { .. } => "signature-rewritten",
    }
}

struct Env {
    assets: Vec<Asset>,
    selftest: Option<String>,
    debug: bool,
}

fn cawg_codes(r: &Reader) -> (Vec<String>, Vec<String>, Vec<String>) {
    let (mut s, mut i, mut f) = (vec![], vec![], vec![]);
    if let Some(res) = r.validation_results() {
        if let Some(a) = res.active_manifest() {
            s.extend(a.success().iter().map(|x| x.code().to_string()).filter(|c| c.starts_with("cawg.")));
            i.extend(a.informational().iter().map(|x| x.code().to_string()).filter(|c| c.starts_with("cawg.")));
            f.extend(a.failure().iter().map(|x| x.code().to_string()).filter(|c| c.starts_with("cawg.")));
        }
    }
    s.sort();
    i.sort();
    f.sort();
    (s, i, f)
}

/// Return the first failure whose signature is not a registered known finding (so that a known defect never
/// hides a new one on the same case), else the first one.
fn first_unknown(run: &Run, fails: Vec<Fail>) -> CaseResult {
    if fails.is_empty() {
        return Ok(());
    }
    let i = fails.iter().position(|f| !run.is_known(&f.signature)).unwrap_or(0);
    Err(fails[i].clone())
}

fn judge(run: &Run, env: &Env, c: &Case) -> CaseResult {
    let asset = &env.assets[c.asset as usize % env.assets.len()];
    let mname = mutation_name(&c.mutation);
    let notes = Arc::new(Mutex::new(Notes::default()));

    // ---- baseline: the same definition without an identity assertion ------------------------------
    let base = vh::catch(|| sign_case(c, asset, false, &notes).and_then(|b| read_case(c, asset, &b)));
    let (base_state, base_fail) = match base {
        Ok(Ok(r)) => (sdk::state_name(r.validation_state()), sdk::failure_codes(&r)),
        Ok(Err(e)) => {
            run.count("baseline_failed");
            return Err(Fail::new("C33:harness-baseline-sign-or-read-failed", format!("{}: {e}", asset.label)));
        }
        Err(p) => return Err(Fail::new(format!("C33:panic:{}", vh::core::panic_site(&p)), format!("baseline: {p}"))),
    };
    if base_state == "Invalid" {
        return Err(Fail::new("C33:harness-baseline-invalid", format!("{}: baseline manifest is Invalid", asset.label)));
    }

    // ---- with the (possibly mutated) identity assertion -------------------------------------------
    let signed = match vh::catch(|| sign_case(c, asset, true, &notes)) {
        Ok(Ok(b)) => b,
        Ok(Err(e)) => {
            if c.mutation == Mutation::None {
                return Err(Fail::new("C33:unmutated-identity-sign-failed", format!("{}: {e}", asset.label)));
            }
            run.count(&format!("sign_rejected:{mname}"));
            return Ok(());
        }
        Err(p) => return Err(Fail::new(format!("C33:panic:{}", vh::core::panic_site(&p)), format!("sign ({mname}): {p}"))),
    };
    let (not_applied, size_given, nrefs, urls) = {
        let n = notes.lock().unwrap();
        (n.not_applied, n.size_given, n.refs, n.urls.clone())
    };
    let multi = multi_instance(&urls);
    let want_refs = referenced_labels(c);
    let missing_refs = want_refs.iter().filter(|l| !urls.iter().any(|u| u.rsplit('/').next() == Some(**l))).count();
    if missing_refs > 0 {
        // a requested label did not exist in the claim under that name (generator / label-scheme drift)
        run.count("requested_reference_not_in_claim");
    }
    let mutated = c.mutation != Mutation::None && !not_applied;
    if not_applied {
        run.count(&format!("mutation_not_applicable:{mname}"));
    }
    run.count(&format!("size_given:{size_given:?}"));
    run.count(&format!("refs:{nrefs}"));
    run.count(&format!("ingredients:{}", c.n_ingredients.min(3)));

    let reader = match vh::catch(|| read_case(c, asset, &signed)) {
        Ok(Ok(r)) => r,
        Ok(Err(e)) => {
            // the C2PA layer is intact: the store must stay readable whatever the identity assertion contains
            return Err(Fail::new(
                format!("C33:read-error-with-identity-assertion:{}", if mutated { mname } else { "none" }),
                format!("{}: {e}", asset.label),
            ));
        }
        Err(p) => return Err(Fail::new(format!("C33:panic:{}", vh::core::panic_site(&p)), format!("read ({mname}): {p}"))),
    };
    let state = sdk::state_name(reader.validation_state());
    let (succ, info, mut fail) = cawg_codes(&reader);
    let all_fail = sdk::failure_codes(&reader);
    match env.selftest.as_deref() {
        // sensitivity: pretend the SDK reported no CAWG failure at all
        Some("drop-failures") => fail.clear(),
        // sensitivity: pretend the SDK reported a failure for an untouched assertion
        Some("spurious-failure") if !mutated => fail.push("cawg.x509.signature.mismatch".into()),
        // sensitivity: a duplicate test that compares base labels instead of whole URLs
        Some("dup-on-multi") if multi => fail.push("cawg.identity.assertion.duplicate".into()),
        _ => {}
    }
    if env.debug {
        eprintln!("{mname} trust={} read={} async={} size={size_given:?} refs={nrefs} -> {state} (base {base_state}) S{succ:?} I{info:?} F{fail:?} allF{all_fail:?}", c.cawg_trust % 3, c.read_mode % 3, c.async_sign);
    }
    let shown = if mutated { mname } else { "none" };
    run.count(&format!("mutation:{shown}"));
    run.count(&format!("state:{base_state}->{state}"));
    run.count(&format!("read_mode:{}", c.read_mode % 3));
    run.count(&format!("cawg_trust:{}", c.cawg_trust % 3));
    run.count(if c.async_sign { "sign:async" } else { "sign:sync" });
    if multi {
        run.count("multi_instance_refs");
        run.count(&format!("multi_instance_refs:{shown}"));
        let mut bases: Vec<String> = urls.iter().map(|u| base_label(u)).collect();
        bases.sort();
        bases.dedup();
        for b in bases.iter().filter(|b| urls.iter().filter(|u| &base_label(u) == *b).count() > 1) {
            run.count(&format!("multi_instance_base:{b}:x{}", urls.iter().filter(|u| &base_label(u) == b).count()));
        }
    }
    const DUP: &str = "cawg.identity.assertion.duplicate";
    for f in &fail {
        run.count(&format!("code:{shown}:{f}"));
    }
    let untrusted_cfg = c.cawg_trust % 3 == 1;
    let mut fails: Vec<Fail> = vec![];

    // ---- (3) the C2PA manifest never becomes Invalid because of the identity assertion -------------
    if state == "Invalid" {
        // failures that the same manifest does not have without the identity assertion
        let new_non_cawg: Vec<&String> = all_fail.iter().filter(|f| !f.starts_with("cawg.") && !base_fail.contains(f)).collect();
        let sig = if let Some(f) = new_non_cawg.first() {
            format!("C33:manifest-invalid-with-identity-assertion:{f}")
        } else {
            // the SDK documents the `cawg.x509.` family as tolerated: name the first family that is not
            let fam = fail
                .iter()
                .map(|f| f.split('.').take(2).collect::<Vec<_>>().join("."))
                .find(|f| f != "cawg.x509")
                .unwrap_or_else(|| if fail.is_empty() { "no-cawg-failure".to_string() } else { "cawg.x509".to_string() });
            format!("C33:cawg-failure-makes-manifest-invalid:{fam}")
        };
        fails.push(Fail::new(
            sig,
            format!("{} ({shown}): state {base_state} without the identity assertion, Invalid with it; failures {all_fail:?}", asset.label),
        ));
    }

    if !mutated {
        // ---- (1) an SDK-created X.509 identity assertion validates -------------------------------------
        let allowed: &[&str] = if untrusted_cfg { &["cawg.x509.credential.untrusted"] } else { &[] };
        let unexpected: Vec<&String> = fail.iter().filter(|f| !allowed.contains(&f.as_str())).collect();
        if multi && unexpected.iter().any(|f| f.as_str() == DUP) {
            fails.push(Fail::new(
                "C33:distinct-instances-reported-as-duplicate",
                format!("{}: valid identity assertion referencing {urls:?} (all different) is reported with {DUP}; state {state}", asset.label),
            ));
        } else if !unexpected.is_empty() {
            fails.push(Fail::new(
                format!("C33:unmutated-identity-reports-failure:{}", unexpected[0]),
                format!("{}: cawg failures {fail:?} (trust config {})", asset.label, c.cawg_trust % 3),
            ));
        }
        for need in ["cawg.x509.signature.validated", "cawg.identity.well-formed"] {
            if !succ.iter().any(|s| s == need) {
                fails.push(Fail::new(
                    format!("C33:unmutated-identity-missing-success:{need}"),
                    format!("{}: cawg success {succ:?}, informational {info:?}, failures {fail:?}, trust config {}, read mode {}", asset.label, c.cawg_trust % 3, c.read_mode % 3),
                ));
                break;
            }
        }
        if c.cawg_trust % 3 == 0 && !succ.iter().any(|s| s == "cawg.x509.credential.trusted") {
            run.count("trusted_config_without_trusted_code");
        }
        if untrusted_cfg && !fail.iter().any(|f| f == "cawg.x509.credential.untrusted") {
            run.count("untrusted_config_without_untrusted_code");
        }
        return first_unknown(run, fails);
    }

    // ---- (2) every mutation is reported with a cawg failure code -----------------------------------------
    if !untrusted_cfg {
        run.nontrivial(c);
    }
    if fail.is_empty() {
        fails.push(Fail::new(
            format!("C33:mutation-not-reported:{mname}"),
            format!(
                "{} ({mname}, cawg trust config {}, read mode {}): no cawg.* failure code; cawg success {succ:?}, informational {info:?}",
                asset.label,
                c.cawg_trust % 3,
                c.read_mode % 3
            ),
        ));
    } else if untrusted_cfg && fail.iter().all(|f| f == "cawg.x509.credential.untrusted") {
        // only the (configuration-caused) untrusted code: the mutation itself left no trace
        run.count(&format!("only_untrusted_code:{mname}"));
    }
    // the duplicate code belongs to a genuine duplicate (the same URL twice) and to nothing else
    let has_dup = fail.iter().any(|f| f == DUP);
    if matches!(c.mutation, Mutation::RefDup { .. }) {
        if !has_dup && !fail.is_empty() {
            fails.push(Fail::new(
                "C33:duplicate-reference-not-reported-as-duplicate",
                format!("{}: a reference was appended twice but the failures are {fail:?}", asset.label),
            ));
        }
    } else if has_dup {
        fails.push(Fail::new(
            if multi { "C33:distinct-instances-reported-as-duplicate" } else { "C33:duplicate-code-without-duplicate" },
            format!("{} ({mname}): {DUP} although no referenced URL occurs twice (built references {urls:?})", asset.label),
        ));
    }
    first_unknown(run, fails)
}

// =====================================================================================================
// generators
// =====================================================================================================

fn mutation_strategy() -> impl Strategy<Value = Mutation> {
    // index-mapped (Sync, and shrinking moves towards `None` / small parameters)
    (0u8..17, 0u16..2000, 0u8..64, 0u8..8).prop_map(|(k, a, b, bit)| match k {
        0 | 1 => Mutation::None,
        2 => Mutation::FlipSig { from_end: b % 48, bit },
        3 => Mutation::SignOtherPayload { kind: b % 4 },
        4 => Mutation::WrongSigType { which: b % 4 },
        5 => Mutation::Pad1 { pos: a, val: b.max(1) },
        6 => Mutation::Pad2 { pos: a % 8, val: b.max(1) },
        7 | 8 => Mutation::RefHash { idx: (a % 6) as u8, pos: b, bit },
        9 => Mutation::RefDrop { idx: b % 6 },
        10 => Mutation::RefDup { idx: b % 6 },
        11 => Mutation::RefAddMissing,
        12 => Mutation::RefAddUnsigned,
        13 => Mutation::RefSwap { i: b % 6, j: (a % 6) as u8 },
        14 => Mutation::Role { which: b % 5 },
        15 => Mutation::SigTypeRewrite { which: b % 4 },
        _ => Mutation::SigRewrite { from_end: b % 48, bit },
    })
}

fn case_strategy(n_assets: usize) -> impl Strategy<Value = Case> {
    (
        (0..n_assets as u8, 0u8..5, 0u8..5, 1u8..=5, 0u8..64),
        proptest::collection::vec(0u8..5, 0..3),
        (any::<bool>(), 0u8..3, any::<bool>(), 0u8..3),
        mutation_strategy(),
        (0usize..8, 0u8..8, 0usize..6, 0u8..4, any::<bool>()),
    )
        .prop_map(|((asset, c2pa_alg, cawg_alg, n_assertions, ref_mask), roles, (c2pa_trusted, cawg_trust, async_sign, read_mode), mutation, (ni, ing_ref_mask, nc, copy_ref_mask, plain))| {
            // index-mapped so that shrinking moves towards no ingredients / no copies
            let n_ingredients = [0u8, 0, 0, 1, 2, 2, 3, 3][ni];
            let extra_copies = [0u8, 0, 0, 1, 1, 2][nc];
            let mut ref_mask = ref_mask;
            // a swap needs two references: the hard binding is always there, ask for one more
            if matches!(mutation, Mutation::RefSwap { .. }) && ref_mask & ((1 << n_assertions) - 1) == 0 {
                ref_mask |= 1;
            }
            let ing_ref_mask = ing_ref_mask & ((1 << n_ingredients) - 1);
            let copy_ref_mask = copy_ref_mask & ((1 << extra_copies) - 1);
            // half of the cases that reference several instances of one label stay unmutated (valid assertion class)
            let several = ing_ref_mask.count_ones() >= 2 || copy_ref_mask.count_ones() + (ref_mask & 1) as u32 >= 2;
            let mutation = if plain && several { Mutation::None } else { mutation };
            Case {
                asset,
                c2pa_alg,
                cawg_alg,
                n_assertions,
                ref_mask,
                roles,
                c2pa_trusted,
                cawg_trust,
                async_sign,
                read_mode,
                mutation,
                n_ingredients,
                ing_ref_mask,
                extra_copies,
                copy_ref_mask,
            }
        })
}

/// One case per mutation kind x trust configuration x read mode x sync/async on the simplest asset.
fn matrix() -> Vec<Case> {
    let muts = vec![
        Mutation::None,
        Mutation::FlipSig { from_end: 0, bit: 0 },
        Mutation::SignOtherPayload { kind: 0 },
        Mutation::SignOtherPayload { kind: 1 },
        Mutation::SignOtherPayload { kind: 2 },
        Mutation::SignOtherPayload { kind: 3 },
        Mutation::WrongSigType { which: 0 },
        Mutation::WrongSigType { which: 2 },
        Mutation::WrongSigType { which: 3 },
        Mutation::Pad1 { pos: 0, val: 1 },
        Mutation::Pad2 { pos: 0, val: 1 },
        Mutation::RefHash { idx: 0, pos: 0, bit: 0 },
        Mutation::RefHash { idx: 1, pos: 31, bit: 7 },
        Mutation::RefDrop { idx: 0 },
        Mutation::RefDrop { idx: 1 },
        Mutation::RefDup { idx: 0 },
        Mutation::RefAddMissing,
        Mutation::RefAddUnsigned,
        Mutation::RefSwap { i: 0, j: 1 },
        Mutation::Role { which: 0 },
        Mutation::SigTypeRewrite { which: 1 },
        Mutation::SigTypeRewrite { which: 2 },
        Mutation::SigRewrite { from_end: 3, bit: 4 },
    ];
    let mut out = vec![];
    for (k, m) in muts.iter().enumerate() {
        for cawg_trust in 0..3u8 {
            let read_mode = ((k as u8) + cawg_trust) % 3;
            out.push(Case {
                asset: (k % 2) as u8,
                c2pa_alg: (k % 5) as u8,
                cawg_alg: ((k + 1) % 5) as u8,
                n_assertions: 2,
                ref_mask: 0b01,
                roles: if k % 2 == 0 { vec![0] } else { vec![] },
                c2pa_trusted: k % 2 == 0,
                cawg_trust,
                async_sign: (k + cawg_trust as usize) % 2 == 1,
                read_mode,
                mutation: m.clone(),
                n_ingredients: 0,
                ing_ref_mask: 0,
                extra_copies: 0,
                copy_ref_mask: 0,
            });
        }
    }
    // ---- several instances of one base label among the references: every subset of the instance labels ----
    // (n_ingredients, ingredient subset, extra copies of org.verif.alpha, base-instance referenced, copy subset)
    let mut sets: Vec<(u8, u8, u8, bool, u8)> = vec![];
    for n_ing in 2..=3u8 {
        for mask in 1..(1u8 << n_ing) {
            sets.push((n_ing, mask, 0, false, 0));
        }
    }
    for copies in 1..=2u8 {
        for sub in 1..(1u8 << (copies + 1)) {
            sets.push((0, 0, copies, sub & 1 != 0, sub >> 1));
        }
    }
    for (mask, sub) in [(0b11u8, 0b011u8), (0b111, 0b111), (0b101, 0b110), (0b110, 0b101)] {
        sets.push((3, mask, 2, sub & 1 != 0, sub >> 1));
    }
    for (k, (n_ingredients, ing_ref_mask, extra_copies, base_ref, copy_ref_mask)) in sets.into_iter().enumerate() {
        let several = ing_ref_mask.count_ones() >= 2 || (copy_ref_mask.count_ones() + base_ref as u32) >= 2;
        let mut ms = vec![Mutation::None];
        if several {
            ms.push(Mutation::RefDup { idx: (k % 4) as u8 });
            ms.push(if k % 2 == 0 { Mutation::RefSwap { i: 1, j: 2 } } else { Mutation::Pad1 { pos: 0, val: 1 } });
        }
        for (j, m) in ms.into_iter().enumerate() {
            out.push(Case {
                asset: (k % 2) as u8,
                c2pa_alg: (k % 5) as u8,
                cawg_alg: ((k + 2) % 5) as u8,
                n_assertions: 1 + (k % 3) as u8,
                ref_mask: (base_ref as u8) | if k % 4 == 0 { 0x20 } else { 0 },
                roles: vec![],
                c2pa_trusted: k % 2 == 1,
                cawg_trust: if (k + j) % 2 == 0 { 0 } else { 2 },
                async_sign: (k + j) % 2 == 1,
                read_mode: ((k + j) % 3) as u8,
                mutation: m,
                n_ingredients,
                ing_ref_mask,
                extra_copies,
                copy_ref_mask,
            });
        }
    }
    out
}

fn asset_pool(run: &Run) -> Vec<Asset> {
    let mut v = vec![];
    for (label, format, file) in [("jpeg", "image/jpeg", "no_manifest.jpg"), ("png", "image/png", "libpng-test.png")] {
        v.push(Asset { label: format!("fixture:{label}"), format: format.to_string(), bytes: sdk::fixture(file) });
    }
    let mut rng = vh::rng::SplitMix64::new(run.seed ^ 0xC33);
    let kinds: &[&str] = if run.quick() {
        &["jpeg", "png", "mp4", "gif", "tiff", "wav", "svg"]
    } else {
        vh::assets::KINDS
    };
    for k in kinds {
        let reps = run.scale(1, 2);
        for _ in 0..reps {
            let s = vh::assets::synth(k, &mut rng, 0);
            v.push(Asset { label: format!("synth:{k}"), format: s.format.to_string(), bytes: s.bytes });
        }
    }
    v
}

fn main() {
    vh::quiet_panics();
    let run = Run::from_args("C33", "exploration");
    run.set_rule("case = (asset, C2PA signer alg, CAWG credential alg, definition with 1..5 assertions, requested referenced subset (the SDK builder always adds the hard binding), 0..2 roles, C2PA trust on/off, CAWG trust {anchors configured, none, verify_trust_list=false}, sync/async signing flow, read mode {sync, async, decode off + post_validate_async(CawgValidator)}, one mutation out of 14 kinds or none). A deterministic matrix (every mutation kind x 3 trust configurations; every subset of the instance labels of 2-3 ingredient assertions and of 2-3 same-label custom assertions, unmutated and with a genuine duplicate / another mutation) runs first, then random cases with 0-3 ingredients and 0-2 extra same-label assertions (class multi_instance_refs = at least two different referenced assertions share a base label). Non-trivial = the mutation was really applied and the CAWG trust configuration does not by itself produce a cawg failure.");
    run.assume("the fixture C2PA credentials double as CAWG X.509 credentials (as in the SDK's own identity tests); cawg_trust.trust_anchors = the fixture root bundle makes them trusted");
    run.assume("mutations are applied before the C2PA claim is signed, through wrappers around the SDK's CredentialHolder / DynamicAssertion objects; the rewritten CBOR keeps the reserved size by resizing pad1/pad2");
    run.assume("a failed signing call for a mutated assertion is not judged (nothing to read)");
    let env = Env {
        assets: asset_pool(&run),
        selftest: std::env::var("VERIF_SELFTEST").ok(),
        debug: std::env::var("VERIF_C33_DEBUG").is_ok(),
    };
    let mut by_label: BTreeMap<String, usize> = BTreeMap::new();
    for a in &env.assets {
        *by_label.entry(a.label.clone()).or_insert(0) += 1;
    }
    run.extra("asset_pool", json!(by_label));

    let threads = run.scale(4, 12);
    run.drive_enum_par("matrix", matrix(), threads, |c| judge(&run, &env, c));
    let n = run.scale(400, 15000);
    run.drive_par("random", n, threads, case_strategy(env.assets.len()), |c| judge(&run, &env, c));
    run.finish();
}
