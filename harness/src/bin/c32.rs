//! C32 — c2patool never clobbers outputs and its signed files validate.
//!
//! The binary is built from the repository's working tree (plain build, no hooks cfg) and run on generated
//! command lines, each in a fresh directory with decoy files. Oracle = the real file system before/after:
//!   * without `-f/--force` every pre-existing entry (file: type, size, sha256, mtime; symlink: target;
//!     directory: still a directory) is unchanged and still present;
//!   * with force only the paths the command line names as outputs (output file, its `.c2pa` sidecar when
//!     `--sidecar` is given, the report folder) may change; everything else (input when the output is another
//!     file, decoys, manifest definition) stays unchanged;
//!   * a refusal message goes with a non-zero exit status;
//!   * exit 0 from a signing command => the output (with its sidecar for `--sidecar`) reads back Valid or
//!     Trusted through the *library*.

use std::{
    collections::BTreeMap,
    io::Cursor,
    os::unix::fs::MetadataExt,
    path::{Component, Path, PathBuf},
    process::{Command, Stdio},
    sync::atomic::{AtomicU64, Ordering},
};

use c2pa::Reader;
use serde::{Deserialize, Serialize};
use serde_json::json;
use sha2::{Digest, Sha256};
use vh::{rng::SplitMix64, CaseResult, Fail, Run};

const WORK: &str = "/verif/work/C32";
const REMOTE_URL: &str = "http://127.0.0.1:1/verif/manifest.c2pa";

#[derive(Clone, Debug, Serialize, Deserialize, PartialEq, Eq, Hash)]
struct Case {
    /// fixture file (relative to the repository), copied into the case directory as `in.<ext>`
    input: String,
    /// "sign" | "report" | "detailed" | "ingredient"
    mode: String,
    /// "m" = -m file, "c" = -c inline JSON, "manifest-long" = --manifest file
    manifest: String,
    /// output layout (see `setup`)
    out: String,
    /// "" | "-f" | "--force"
    force: String,
    sidecar: bool,
    /// state of `<output>.c2pa` before the run: "none" | "file" | "dir" | "link"
    sidecar_pre: String,
    remote: bool,
    /// "" | "create" | "parent"
    intent: String,
    /// pass `--settings settings.json` with automatic thumbnails off (smallest possible new manifest)
    #[serde(default)]
    no_thumb: bool,
}

// ------------------------------------------------------------------------------------------------------
// snapshots
// ------------------------------------------------------------------------------------------------------

#[derive(Clone, Debug, PartialEq, Eq)]
enum Entry {
    File { size: u64, sha: String, mtime: (i64, i64) },
    Dir,
    Link(String),
    Other,
}

type Snap = BTreeMap<String, Entry>;

fn snapshot(dir: &Path, rel: &str, out: &mut Snap) {
    let Ok(rd) = std::fs::read_dir(dir) else { return };
    let mut names: Vec<_> = rd.filter_map(|e| e.ok()).map(|e| e.file_name()).collect();
    names.sort();
    for n in names {
        let p = dir.join(&n);
        let r = if rel.is_empty() { n.to_string_lossy().to_string() } else { format!("{rel}/{}", n.to_string_lossy()) };
        let Ok(md) = std::fs::symlink_metadata(&p) else { continue };
        let ft = md.file_type();
        if ft.is_symlink() {
            out.insert(r, Entry::Link(std::fs::read_link(&p).map(|t| t.to_string_lossy().to_string()).unwrap_or_default()));
        } else if ft.is_dir() {
            out.insert(r.clone(), Entry::Dir);
            snapshot(&p, &r, out);
        } else if ft.is_file() {
            let body = std::fs::read(&p).unwrap_or_default();
            out.insert(
                r,
                Entry::File { size: md.len(), sha: hex::encode(Sha256::digest(&body)), mtime: (md.mtime(), md.mtime_nsec()) },
            );
        } else {
            out.insert(r, Entry::Other);
        }
    }
}

fn snap(dir: &Path) -> Snap {
    let mut s = Snap::new();
    snapshot(dir, "", &mut s);
    s
}

/// Lexical normalisation of a command-line path to a key of the snapshot (relative to the case directory).
fn key_of(case_dir: &Path, p: &str) -> Option<String> {
    let pb = PathBuf::from(p);
    let abs = if pb.is_absolute() { pb } else { case_dir.join(pb) };
    let mut out = PathBuf::new();
    for c in abs.components() {
        match c {
            Component::RootDir => out.push("/"),
            Component::CurDir => {}
            Component::ParentDir => {
                out.pop();
            }
            Component::Normal(s) => out.push(s),
            Component::Prefix(_) => {}
        }
    }
    out.strip_prefix(case_dir).ok().map(|r| r.to_string_lossy().to_string())
}

// ------------------------------------------------------------------------------------------------------
// case set-up
// ------------------------------------------------------------------------------------------------------

static CASE_NO: AtomicU64 = AtomicU64::new(0);

struct Setup {
    dir: PathBuf,
    args: Vec<String>,
    /// output argument as given on the command line
    out_arg: String,
    /// snapshot keys that may change when force is given
    may_change: Vec<String>,
    /// some would-be-written path exists before the run
    target_preexists: bool,
    in_name: String,
}

fn ext_of(input: &str) -> String {
    Path::new(input).extension().map(|e| e.to_string_lossy().to_string()).unwrap_or_default()
}

fn manifest_json(repo: &str, with_thumb_ref: bool) -> serde_json::Value {
    let mut v = json!({
        "alg": "es256",
        "private_key": format!("{repo}/cli/sample/es256_private.key"),
        "sign_cert": format!("{repo}/cli/sample/es256_certs.pem"),
        "claim_generator_info": [{ "name": "verif-harness", "version": "0.1" }],
        "title": "C32 case",
        "assertions": [{ "label": "org.verif.note", "data": { "n": 1 } }]
    });
    if with_thumb_ref {
        v["thumbnail"] = json!({"format": "image/png", "identifier": "thumb.png"});
    }
    v
}

fn setup(c: &Case, replay: bool) -> Result<Setup, String> {
    let repo = vh::sdk::repo_dir();
    let n = CASE_NO.fetch_add(1, Ordering::SeqCst);
    let dir = PathBuf::from(WORK).join(if replay { format!("replay-{n}") } else { format!("case-{n}") });
    let _ = std::fs::remove_dir_all(&dir);
    let e = |what: &str, e: std::io::Error| format!("{what}: {e}");
    std::fs::create_dir_all(dir.join("home")).map_err(|x| e("mkdir", x))?;
    let ext = ext_of(&c.input);
    let in_name = format!("in.{ext}");
    std::fs::copy(format!("{repo}/{}", c.input), dir.join(&in_name)).map_err(|x| e("copy input", x))?;
    // decoys
    std::fs::write(dir.join("decoy.txt"), b"decoy file, must never change\n").map_err(|x| e("decoy", x))?;
    std::fs::create_dir_all(dir.join("keep")).map_err(|x| e("keep", x))?;
    std::fs::write(dir.join("keep/inner.txt"), b"inner decoy\n").map_err(|x| e("keep/inner", x))?;
    std::fs::write(dir.join(format!("keep/other.{ext}")), b"not an asset, just a decoy with the same extension\n")
        .map_err(|x| e("keep/other", x))?;
    std::fs::copy(format!("{repo}/sdk/tests/fixtures/libpng-test.png"), dir.join("thumb.png")).map_err(|x| e("thumb", x))?;

    let mut args: Vec<String> = vec![in_name.clone()];
    if c.no_thumb {
        std::fs::write(dir.join("settings.json"), br#"{"builder": {"thumbnail": {"enabled": false}}}"#).map_err(|x| e("settings", x))?;
        args.push("--settings".into());
        args.push("settings.json".into());
    }
    let mut may_change: Vec<String> = vec![];
    let target_preexists;
    let decoy_body = b"PRE-EXISTING OUTPUT (decoy, not a valid asset)\n".to_vec();
    let other_ext = if ext == "png" { "jpg" } else { "png" };

    let out_arg: String;
    if c.mode == "sign" {
        // ---- manifest definition
        match c.manifest.as_str() {
            "c" => {
                args.push("-c".into());
                args.push(manifest_json(&repo, false).to_string());
            }
            m => {
                std::fs::write(dir.join("m.json"), manifest_json(&repo, true).to_string()).map_err(|x| e("m.json", x))?;
                args.push(if m == "m" { "-m".into() } else { "--manifest".into() });
                args.push("m.json".into());
            }
        }
        // ---- output layout
        let mk_file = |p: &str| -> Result<(), String> {
            if let Some(par) = dir.join(p).parent() {
                std::fs::create_dir_all(par).map_err(|x| e("mkdir", x))?;
            }
            std::fs::write(dir.join(p), &decoy_body).map_err(|x| e("pre-existing output", x))
        };
        out_arg = match c.out.as_str() {
            "absent" => format!("out.{ext}"),
            "existing-file" => {
                mk_file(&format!("out.{ext}"))?;
                format!("out.{ext}")
            }
            "existing-file-dot-slash" => {
                mk_file(&format!("out.{ext}"))?;
                format!("./out.{ext}")
            }
            "existing-file-abs" => {
                mk_file(&format!("out.{ext}"))?;
                dir.join(format!("out.{ext}")).to_string_lossy().to_string()
            }
            "existing-file-in-dir" => {
                mk_file(&format!("keep/out.{ext}"))?;
                format!("keep/out.{ext}")
            }
            "existing-copy-of-input" => {
                std::fs::copy(dir.join(&in_name), dir.join(format!("out.{ext}"))).map_err(|x| e("copy", x))?;
                format!("out.{ext}")
            }
            "existing-dir" => {
                std::fs::create_dir_all(dir.join(format!("out.{ext}"))).map_err(|x| e("mkdir", x))?;
                std::fs::write(dir.join(format!("out.{ext}/inside.txt")), b"inside\n").map_err(|x| e("write", x))?;
                format!("out.{ext}")
            }
            "existing-dir-noext" => {
                std::fs::create_dir_all(dir.join("outdir")).map_err(|x| e("mkdir", x))?;
                std::fs::write(dir.join("outdir/inside.txt"), b"inside\n").map_err(|x| e("write", x))?;
                "outdir".into()
            }
            "same-as-input" => in_name.clone(),
            "same-dot-slash" => format!("./{in_name}"),
            "same-abs" => dir.join(&in_name).to_string_lossy().to_string(),
            "same-via-dir-dotdot" => format!("keep/../{in_name}"),
            "symlink-to-input" => {
                std::os::unix::fs::symlink(&in_name, dir.join(format!("link.{ext}"))).map_err(|x| e("symlink", x))?;
                format!("link.{ext}")
            }
            "symlink-to-decoy" => {
                std::os::unix::fs::symlink("decoy.txt", dir.join(format!("out.{ext}"))).map_err(|x| e("symlink", x))?;
                format!("out.{ext}")
            }
            "dangling-symlink" => {
                std::os::unix::fs::symlink(format!("ghost.{ext}"), dir.join(format!("out.{ext}"))).map_err(|x| e("symlink", x))?;
                format!("out.{ext}")
            }
            "nested-missing" => format!("a/b/out.{ext}"),
            "wrong-ext" => format!("out.{other_ext}"),
            "wrong-ext-existing" => {
                mk_file(&format!("out.{other_ext}"))?;
                format!("out.{other_ext}")
            }
            "no-ext-existing" => {
                mk_file("out")?;
                "out".into()
            }
            "equiv-ext-existing" => {
                let e2 = match ext.as_str() {
                    "jpg" => "jpeg",
                    "jpeg" => "jpg",
                    "tiff" => "tif",
                    o => o,
                };
                mk_file(&format!("out.{e2}"))?;
                format!("out.{e2}")
            }
            "upper-ext-existing" => {
                mk_file(&format!("out.{}", ext.to_uppercase()))?;
                format!("out.{}", ext.to_uppercase())
            }
            other => return Err(format!("unknown out layout {other}")),
        };
        args.push("-o".into());
        args.push(out_arg.clone());
        let out_key = key_of(&dir, &out_arg).ok_or("output outside the case directory")?;
        // the sidecar path is derived exactly as documented: output file name with a .c2pa extension
        let side_key = key_of(&dir, &PathBuf::from(&out_arg).with_extension("c2pa").to_string_lossy()).ok_or("sidecar key")?;
        // pre-existing state of the sidecar path (only where its directory exists)
        let side_parent_exists = dir.join(&side_key).parent().map(|p| p.exists()).unwrap_or(false);
        if side_parent_exists && std::fs::symlink_metadata(dir.join(&side_key)).is_err() {
            match c.sidecar_pre.as_str() {
                "file" => std::fs::write(dir.join(&side_key), b"PRE-EXISTING SIDECAR (decoy)\n").map_err(|x| e("sidecar", x))?,
                "dir" => {
                    std::fs::create_dir_all(dir.join(&side_key).join("sub")).map_err(|x| e("sidecar dir", x))?;
                    std::fs::write(dir.join(&side_key).join("sub/x.txt"), b"x\n").map_err(|x| e("sidecar dir", x))?;
                }
                "link" => {
                    let up = "../".repeat(side_key.matches('/').count());
                    std::os::unix::fs::symlink(format!("{up}decoy.txt"), dir.join(&side_key)).map_err(|x| e("sidecar link", x))?;
                }
                _ => {}
            }
        }
        if c.sidecar {
            args.push(if c.remote { "-s".into() } else { "--sidecar".into() });
        }
        if c.remote {
            args.push("-r".into());
            args.push(REMOTE_URL.into());
        }
        match c.intent.as_str() {
            "create" => {
                args.push("--create".into());
                args.push("digitalCapture".into());
            }
            "parent" => {
                args.push("-p".into());
                args.push(in_name.clone());
            }
            _ => {}
        }
        // what force may touch: the output path, what it resolves to when it is a symlink, and the sidecar
        may_change.push(out_key.clone());
        if c.sidecar {
            may_change.push(side_key.clone());
        }
        target_preexists = std::fs::symlink_metadata(dir.join(&out_key)).is_ok()
            || (c.sidecar && std::fs::symlink_metadata(dir.join(&side_key)).is_ok());
    } else {
        // ---- folder-output modes
        out_arg = match c.out.as_str() {
            "absent" => "rep".into(),
            "existing-empty-dir" => {
                std::fs::create_dir_all(dir.join("rep")).map_err(|x| e("mkdir", x))?;
                "rep".into()
            }
            "existing-dir-with-files" => {
                std::fs::create_dir_all(dir.join("rep/old")).map_err(|x| e("mkdir", x))?;
                std::fs::write(dir.join("rep/old/x.txt"), b"old\n").map_err(|x| e("write", x))?;
                std::fs::write(dir.join("rep/manifest_store.json"), b"{\"old\": true}\n").map_err(|x| e("write", x))?;
                std::fs::write(dir.join("rep/ingredient.json"), b"{\"old\": true}\n").map_err(|x| e("write", x))?;
                "rep".into()
            }
            "existing-dir-dot-slash" => {
                std::fs::create_dir_all(dir.join("rep")).map_err(|x| e("mkdir", x))?;
                std::fs::write(dir.join("rep/manifest_store.json"), b"{\"old\": true}\n").map_err(|x| e("write", x))?;
                "./rep/".into()
            }
            "existing-file" => {
                std::fs::write(dir.join("rep"), b"a file where a folder is expected\n").map_err(|x| e("write", x))?;
                "rep".into()
            }
            "existing-decoy-dir" => "keep".into(),
            "same-as-input" => in_name.clone(),
            "cwd" => ".".into(),
            "symlink-to-dir" => {
                std::os::unix::fs::symlink("keep", dir.join("rep")).map_err(|x| e("symlink", x))?;
                "rep".into()
            }
            "nested-missing" => "a/b/rep".into(),
            other => return Err(format!("unknown folder layout {other}")),
        };
        match c.mode.as_str() {
            "detailed" => args.push("-d".into()),
            "ingredient" => args.push("--ingredient".into()),
            _ => {}
        }
        args.push("-o".into());
        args.push(out_arg.clone());
        let k = key_of(&dir, &out_arg).ok_or("folder outside the case directory")?;
        target_preexists = k.is_empty() || std::fs::symlink_metadata(dir.join(&k)).is_ok();
        may_change.push(k);
    }
    if !c.force.is_empty() {
        args.push(c.force.clone());
    }
    // a named output that is a symlink: force also covers what the link resolves to
    let real_dir = std::fs::canonicalize(&dir).unwrap_or(dir.clone());
    for k in may_change.clone() {
        if let Ok(t) = std::fs::canonicalize(dir.join(&k)) {
            if let Ok(r) = t.strip_prefix(&real_dir) {
                let r = r.to_string_lossy().to_string();
                if !may_change.contains(&r) {
                    may_change.push(r);
                }
            }
        }
    }
    Ok(Setup { dir, args, out_arg, may_change, target_preexists, in_name })
}

// ------------------------------------------------------------------------------------------------------
// judge
// ------------------------------------------------------------------------------------------------------

fn tool_path() -> PathBuf {
    PathBuf::from(vh::sdk::repo_target_dir()).join("debug/c2patool")
}

fn selftest() -> u32 {
    std::env::var("VERIF_SELFTEST").ok().and_then(|s| s.parse().ok()).unwrap_or(0)
}

fn allowed(key: &str, may: &[String]) -> bool {
    may.iter().any(|m| m.is_empty() || key == m || key.starts_with(&format!("{m}/")))
}

fn judge(run: &Run, c: &Case) -> CaseResult {
    let su = match setup(c, run.replay.is_some()) {
        Ok(s) => s,
        Err(e) => {
            run.count("harness_setup_error");
            run.note(format!("setup failed: {e}"));
            return Ok(());
        }
    };
    let r = judge_live(run, c, &su);
    let _ = std::fs::remove_dir_all(&su.dir);
    r
}

fn judge_live(run: &Run, c: &Case, su: &Setup) -> CaseResult {
    run.count(&format!("mode:{}", c.mode));
    run.count(&format!("out:{}:{}", if c.mode == "sign" { "sign" } else { "folder" }, c.out));
    run.count(if c.force.is_empty() { "force:no" } else { "force:yes" });
    if c.mode == "sign" {
        run.count(&format!("sidecar:{}:pre={}", c.sidecar, c.sidecar_pre));
        run.count(&format!("remote:{}", c.remote));
        run.count(&format!("format:{}", ext_of(&c.input)));
    }
    if su.target_preexists {
        run.nontrivial(c);
        run.count("target_preexists");
    }
    let before = snap(&su.dir);
    let cmdline = format!("c2patool {}", su.args.iter().map(|a| if a.contains(' ') || a.contains('{') { format!("'{a}'") } else { a.clone() }).collect::<Vec<_>>().join(" "));

    let out = Command::new(tool_path())
        .args(&su.args)
        .current_dir(&su.dir)
        .env_clear()
        .env("PATH", "/usr/bin:/bin")
        .env("HOME", su.dir.join("home"))
        .env("XDG_CONFIG_HOME", su.dir.join("home/.config"))
        .env("RUST_BACKTRACE", "0")
        .stdin(Stdio::null())
        .output();
    let out = match out {
        Ok(o) => o,
        Err(e) => {
            run.inconclusive(format!("cannot run c2patool: {e}"));
            return Ok(());
        }
    };
    let code = out.status.code();
    let stderr = String::from_utf8_lossy(&out.stderr).to_string();
    let mut err_line: String = stderr.lines().find(|l| l.starts_with("Error")).unwrap_or("").chars().take(100).collect();
    if let Some(i) = stderr.find("Caused by:") {
        let cause: String = stderr[i + 10..].lines().map(|l| l.trim()).find(|l| !l.is_empty()).unwrap_or("").chars().take(80).collect();
        err_line = format!("{err_line} <- {cause}");
    }
    let ok = code == Some(0);
    run.count(&format!("exit:{}:{}", c.mode, code.map(|c| c.to_string()).unwrap_or("signal".into())));
    if !ok {
        let kind: String = err_line.chars().take(110).collect();
        run.count(&format!("err:{kind}"));
    }
    if std::env::var("VERIF_DEBUG").is_ok() {
        eprintln!("DEBUG exit={code:?} out={} force={:?} :: {cmdline} :: {err_line}", c.out, c.force);
    }
    if code.is_none() {
        return Err(Fail::new("C32:tool-killed-by-signal", format!("{cmdline}: terminated by a signal; stderr: {}", stderr.chars().take(300).collect::<String>())));
    }

    if selftest() == 1 && c.force.is_empty() {
        // deliberately broken "tool": touch a decoy
        let _ = std::fs::write(su.dir.join("keep/inner.txt"), b"clobbered by selftest\n");
    }

    // observation (not judged: force was requested and nothing is reported as signed): forced in-place signing
    // under another spelling of the input path removes the input and then fails
    if !c.force.is_empty() && c.mode == "sign" && !ok && std::fs::symlink_metadata(su.dir.join(&su.in_name)).is_err() {
        run.count("observed:forced-same-file-other-spelling-deletes-input");
    }

    // ---- 1. pre-existing entries ------------------------------------------------------------------------
    let after = snap(&su.dir);
    let forced = !c.force.is_empty();
    let mut changed: Vec<String> = vec![];
    for (k, v) in &before {
        let same = match (v, after.get(k)) {
            (_, None) => false,
            (Entry::Dir, Some(Entry::Dir)) => true,
            (a, Some(b)) => a == b,
        };
        if !same && !(forced && allowed(k, &su.may_change)) {
            let now = after.get(k).map(|e| format!("{e:?}")).unwrap_or("deleted".into());
            changed.push(format!("{k}: {v:?} => {now}"));
        }
    }
    if !changed.is_empty() {
        // name the vector
        let first_key = changed[0].split(':').next().unwrap_or("").to_string();
        let side = PathBuf::from(&su.out_arg).with_extension("c2pa");
        let side_key = key_of(&su.dir, &side.to_string_lossy()).unwrap_or_default();
        let out_key = key_of(&su.dir, &su.out_arg).unwrap_or_default();
        let sig = if forced {
            "C32:force-changes-unrelated-path".to_string()
        } else if c.mode == "sign" && c.sidecar && (first_key == side_key || (c.sidecar_pre == "link" && first_key == "decoy.txt")) {
            "C32:sidecar-overwritten-without-force".to_string()
        } else if c.mode == "sign" && c.sidecar && first_key.starts_with(&format!("{side_key}/")) {
            "C32:sidecar-dir-changed-without-force".to_string()
        } else if c.mode == "sign" && (first_key == out_key || su.may_change.contains(&first_key)) {
            "C32:output-overwritten-without-force".to_string()
        } else if c.mode != "sign" && allowed(&first_key, &su.may_change) {
            "C32:output-folder-changed-without-force".to_string()
        } else {
            "C32:unrelated-path-changed".to_string()
        };
        return Err(Fail::new(
            sig,
            format!("`{cmdline}` (exit {code:?}) changed pre-existing entries{}: {}", if forced { " other than its outputs" } else { " without force" }, changed.join("; ")),
        ));
    }

    // ---- 2. refusal <=> non-zero exit -------------------------------------------------------------------
    let refusal = ["already exists", "must be a folder", "must be a directory", "Output type must match"];
    if ok && refusal.iter().any(|m| stderr.contains(m)) {
        return Err(Fail::new("C32:refused-but-exit-0", format!("`{cmdline}` printed a refusal but exited 0: {err_line}")));
    }

    // ---- 3. exit 0 from a signing command => output reads back Valid ----------------------------------------
    if ok && c.mode == "sign" {
        run.count("signed_exit0");
        // non-vacuity of the "new store smaller than the old one" in-place cases
        if let (Some(Entry::File { size: a, .. }), Some(Entry::File { size: b, .. })) = (before.get(&su.in_name), after.get(&su.in_name)) {
            if a != b {
                run.count(if b < a { "inplace_signed_input_shrank" } else { "inplace_signed_input_grew" });
            }
        }
        let out_path = if Path::new(&su.out_arg).is_absolute() { PathBuf::from(&su.out_arg) } else { su.dir.join(&su.out_arg) };
        let Ok(asset) = std::fs::read(&out_path) else {
            return Err(Fail::new("C32:signed-output-missing", format!("`{cmdline}` exited 0 but {} cannot be read", su.out_arg)));
        };
        let format = ext_of(&su.out_arg).to_lowercase();
        let ctx = vh::sdk::context();
        let mut asset_for_read = asset.clone();
        if selftest() == 2 {
            // deliberately corrupted answer: flip a byte in the middle of the signed file
            let mid = asset_for_read.len() / 2;
            asset_for_read[mid] ^= 0x55;
        }
        let res = vh::catch(|| -> Result<(String, Vec<String>), String> {
            let reader = if c.sidecar {
                let side = out_path.with_extension("c2pa");
                let data = std::fs::read(&side).map_err(|e| format!("sidecar {side:?} unreadable: {e}"))?;
                Reader::from_context(ctx).with_manifest_data_and_stream(&data, &format, Cursor::new(asset_for_read.clone()))
            } else {
                vh::sdk::read_with(ctx, &format, &asset_for_read)
            }
            .map_err(|e| format!("library read failed: {e}"))?;
            Ok((vh::sdk::state_name(reader.validation_state()).to_string(), vh::sdk::failure_codes(&reader)))
        });
        let res = match res {
            Ok(r) => r,
            Err(p) => Err(format!("library panicked: {p}")),
        };
        match res {
            Ok((state, codes)) => {
                run.count(&format!("readback:{state}"));
                if state == "Invalid" {
                    return Err(Fail::new(
                        if c.sidecar { "C32:sidecar-output-not-valid" } else { "C32:signed-output-not-valid" },
                        format!("`{cmdline}` exited 0 but the output reads back Invalid through the library: {codes:?}"),
                    ));
                }
            }
            Err(e) => {
                return Err(Fail::new(
                    if c.sidecar { "C32:sidecar-output-unreadable" } else { "C32:signed-output-unreadable" },
                    format!("`{cmdline}` exited 0 but: {e}"),
                ));
            }
        }
        // the input must be untouched unless it is the output
        let _ = &su.in_name;
    }
    if ok && c.mode != "sign" {
        run.count("report_exit0");
    }
    Ok(())
}

// ------------------------------------------------------------------------------------------------------
// generation
// ------------------------------------------------------------------------------------------------------

const SIGN_OUTS: [&str; 22] = [
    "absent",
    "existing-file",
    "existing-file",
    "existing-file-dot-slash",
    "existing-file-abs",
    "existing-file-in-dir",
    "existing-copy-of-input",
    "existing-dir",
    "existing-dir-noext",
    "same-as-input",
    "same-dot-slash",
    "same-abs",
    "same-via-dir-dotdot",
    "symlink-to-input",
    "symlink-to-decoy",
    "dangling-symlink",
    "nested-missing",
    "wrong-ext",
    "wrong-ext-existing",
    "no-ext-existing",
    "equiv-ext-existing",
    "upper-ext-existing",
];

const FOLDER_OUTS: [&str; 10] = [
    "absent",
    "existing-empty-dir",
    "existing-dir-with-files",
    "existing-dir-dot-slash",
    "existing-file",
    "existing-decoy-dir",
    "same-as-input",
    "cwd",
    "symlink-to-dir",
    "nested-missing",
];

fn gen_case(r: &mut SplitMix64, thorough: bool) -> Case {
    let small_inputs = [
        "cli/tests/fixtures/earth_apollo17.jpg",
        "cli/tests/fixtures/C.jpg",
        "cli/tests/fixtures/libpng-test.png",
        "cli/tests/fixtures/libpng-test.png",
        "cli/tests/fixtures/sample1.svg",
        "sdk/tests/fixtures/test.webp",
        "sdk/tests/fixtures/MultiPage.tif",
        "sdk/tests/fixtures/no_manifest.jpg",
        "cli/tests/fixtures/verify.jpeg",
    ];
    let big_inputs = [
        "sdk/tests/fixtures/sample1.gif",
        "sdk/tests/fixtures/sample1.wav",
        "sdk/tests/fixtures/video1_no_manifest.mp4",
        "sdk/tests/fixtures/sample1.avif",
        "sdk/tests/fixtures/sample1.mp3",
    ];
    let force = match r.below(10) {
        0..=5 => "",
        6..=8 => "-f",
        _ => "--force",
    }
    .to_string();
    if r.chance(3, 4) {
        let input = if thorough && r.chance(1, 6) { r.pick(&big_inputs).to_string() } else { r.pick(&small_inputs).to_string() };
        let sidecar = r.chance(1, 2);
        let sidecar_pre = if sidecar {
            ["none", "file", "file", "file", "dir", "link"][r.usize(6)]
        } else {
            ["none", "none", "file"][r.usize(3)]
        }
        .to_string();
        Case {
            input,
            mode: "sign".into(),
            manifest: ["m", "m", "c", "manifest-long"][r.usize(4)].into(),
            // one third of the signing commands write to a path that does not exist yet (the sidecar / decoy
            // clauses are only reachable when the output itself is acceptable)
            out: if r.chance(1, 3) { ["absent", "absent", "absent", "nested-missing", "dangling-symlink"][r.usize(5)].to_string() } else { r.pick(&SIGN_OUTS).to_string() },
            force,
            sidecar,
            sidecar_pre,
            remote: r.chance(1, 4),
            intent: ["", "", "", "create", "parent"][r.usize(5)].into(),
            no_thumb: r.chance(1, 8),
        }
    } else {
        let with_manifest = ["cli/tests/fixtures/C.jpg", "cli/tests/fixtures/verify.jpeg", "cli/tests/fixtures/C_with_CAWG_data.jpg"];
        let input = if r.chance(4, 5) { r.pick(&with_manifest).to_string() } else { "cli/tests/fixtures/libpng-test.png".to_string() };
        let mut out = r.pick(&FOLDER_OUTS).to_string();
        if out == "cwd" && !force.is_empty() {
            // `-o . -f` asks the tool to delete its own working directory: allowed by force, uninformative
            out = "existing-dir-with-files".into();
        }
        Case {
            input,
            mode: ["report", "detailed", "ingredient"][r.usize(3)].into(),
            manifest: String::new(),
            out,
            force,
            sidecar: false,
            sidecar_pre: "none".into(),
            remote: false,
            intent: String::new(),
            no_thumb: false,
        }
    }
}

/// Deterministic core matrix (runs in every tier before the random invocations): the overwrite decision per
/// (output, sidecar, force, input) combination, plus forced in-place signing of an input whose manifest store
/// is larger than the new one.
fn core_matrix() -> Vec<Case> {
    let mut v = vec![];
    let unsigned = "cli/tests/fixtures/earth_apollo17.jpg";
    let signed = "cli/tests/fixtures/C.jpg";
    for input in [unsigned, signed] {
        for out in ["absent", "existing-file", "same-as-input", "same-dot-slash", "same-abs", "symlink-to-input"] {
            for (sidecar, pre) in [(false, "none"), (true, "none"), (true, "file")] {
                for force in ["", "-f"] {
                    v.push(Case {
                        input: input.into(),
                        mode: "sign".into(),
                        manifest: "m".into(),
                        out: out.into(),
                        force: force.into(),
                        sidecar,
                        sidecar_pre: pre.into(),
                        remote: false,
                        intent: String::new(),
                        no_thumb: false,
                    });
                }
            }
        }
    }
    // smallest new manifest (--create, inline definition, thumbnails off) over an input that carries a large store
    for out in ["same-as-input", "same-dot-slash", "same-abs", "symlink-to-input", "existing-copy-of-input", "absent"] {
        for (sidecar, pre) in [(false, "none"), (true, "none")] {
            for force in ["-f", ""] {
                v.push(Case {
                    input: signed.into(),
                    mode: "sign".into(),
                    manifest: "c".into(),
                    out: out.into(),
                    force: force.into(),
                    sidecar,
                    sidecar_pre: pre.into(),
                    remote: false,
                    intent: "create".into(),
                    no_thumb: true,
                });
            }
        }
    }
    v
}

fn build_tool(run: &Run) -> bool {
    let repo = vh::sdk::repo_dir();
    let target = vh::sdk::repo_target_dir();
    let _ = std::fs::create_dir_all(&target);
    // Plain build (no hooks cfg): run cargo from the repository so that the harness' .cargo/config.toml
    // (rustflags, target-dir) is not picked up, and drop flag-carrying environment variables.
    let st = Command::new("cargo")
        .args(["build", "--offline", "-p", "c2patool", "--manifest-path"])
        .arg(format!("{repo}/Cargo.toml"))
        .arg("--target-dir")
        .arg(&target)
        .current_dir(&repo)
        .env("CARGO_NET_OFFLINE", "true")
        .env_remove("RUSTFLAGS")
        .env_remove("CARGO_ENCODED_RUSTFLAGS")
        .env_remove("CARGO_BUILD_RUSTFLAGS")
        .env_remove("CARGO_TARGET_DIR")
        .env_remove("CARGO_BUILD_TARGET_DIR")
        .stdin(Stdio::null())
        .output();
    match st {
        Ok(o) if o.status.success() && tool_path().exists() => true,
        Ok(o) => {
            let tail: String = String::from_utf8_lossy(&o.stderr).lines().rev().take(15).collect::<Vec<_>>().into_iter().rev().collect::<Vec<_>>().join("\n");
            run.inconclusive(format!("c2patool build failed ({:?}):\n{tail}", o.status.code()));
            false
        }
        Err(e) => {
            run.inconclusive(format!("cannot run cargo: {e}"));
            false
        }
    }
}

fn main() {
    vh::quiet_panics();
    let run = Run::from_args("C32", "exploration");
    run.set_rule("case = c2patool command line run in a fresh directory (input copied as in.<ext>, decoy files, private HOME): signing commands = input fixture (jpg with/without manifest, png, svg, webp, tiff; thorough adds gif, wav, mp4, avif, mp3) x manifest (-m / --manifest file with a resource reference, -c inline JSON; local es256 sample key, no TSA) x 21 output layouts (absent, existing file via plain/./absolute spelling or in a sub-directory, existing copy of the input, existing directory with/without extension, same as input via plain/./absolute/dir/.. spelling, symlink to the input / to a decoy / dangling, nested missing directories, wrong / missing / equivalent / upper-case extension) x force (none, -f, --force) x --sidecar with the .c2pa absent / file / directory / symlink x --remote x intent (--create, -p); folder commands = report / detailed / ingredient with -o over 10 folder layouts (absent, empty, populated, ./ spelling, a file, a decoy directory, the input, the working directory, a symlink to a directory, nested missing). Non-trivial = a would-be-written path (output, sidecar, folder) exists before the run.");
    run.assume("the tool is built with `cargo build -p c2patool` (dev profile, no hooks cfg) from the repository's working tree");
    run.assume("documented behaviour: an existing output file is an error without --force (docs/usage.md 'Forced overwrite'); the docs are silent on sidecars and report folders, so the property text governs");
    run.assume("read-back uses the library with the fixture trust anchors and remote fetching off; Valid or Trusted both pass");
    run.assume("--remote together with --sidecar always ends with a failed fetch (no server in the sandbox), so that combination only exercises the no-clobber part");

    if run.replay.is_none() || !tool_path().exists() {
        if !build_tool(&run) {
            run.finish();
        }
    }
    let _ = std::fs::remove_dir_all(WORK);
    if let Err(e) = std::fs::create_dir_all(WORK) {
        run.inconclusive(format!("cannot create {WORK}: {e}"));
        run.finish();
    }
    let thorough = !run.quick();
    let mut rng = SplitMix64::new(run.seed ^ 0xC32);
    let core = core_matrix();
    run.extra("core_matrix_cases", json!(core.len()));
    run.drive_enum_par("core_matrix", core, run.scale(8, 16), |c| {
        run.count("core_matrix");
        judge(&run, c)
    });
    let n = run.scale(160, 4000);
    let cases: Vec<Case> = (0..n).map(|_| gen_case(&mut rng, thorough)).collect();
    run.drive_enum_par("cli", cases, run.scale(8, 16), |c| judge(&run, c));
    let _ = std::fs::remove_dir_all(WORK);
    run.finish();
}
