//! C04 — validation state is derived soundly from validation codes.
//!
//! Oracle: a reference decision function written from the property text; the SDK's
//! `ValidationResults::validation_state()` / `Reader::validation_state()` must agree with it, and adding a
//! non-tolerated failure must never raise the state.

use c2pa::{
    status_tracker::LogKind,
    validation_results::{ValidationResults, ValidationState},
    validation_status::ValidationStatus,
    Reader,
};
use proptest::prelude::*;
use serde::{Deserialize, Serialize};
use vh::{CaseResult, Fail, Run};

#[derive(Clone, Debug, Serialize, Deserialize, PartialEq, Eq, Hash)]
struct Item {
    code: String,
    /// 0 success, 1 informational, 2 failure
    kind: u8,
    /// 0 active manifest, 1.. ingredient delta n
    place: u8,
}

#[derive(Clone, Debug, Serialize, Deserialize, PartialEq, Eq, Hash)]
struct Case {
    items: Vec<Item>,
    /// extra non-tolerated failure added for the monotonicity law (code, place)
    extra_failure: Option<(String, u8)>,
}

fn kind_of(k: u8) -> LogKind {
    match k {
        0 => LogKind::Success,
        1 => LogKind::Informational,
        _ => LogKind::Failure,
    }
}

fn status(it: &Item) -> ValidationStatus {
    let mut s: ValidationStatus = serde_json::from_value(serde_json::json!({ "code": it.code })).expect("status json");
    s = s.set_kind(kind_of(it.kind));
    if it.place > 0 {
        s = s.set_ingredient_uri(format!("self#jumbf=c2pa.assertions/c2pa.ingredient.v3__{}", it.place));
    }
    s
}

fn build(items: &[Item]) -> ValidationResults {
    let mut r = ValidationResults::default();
    for it in items {
        r.add_status(status(it));
    }
    r
}

// ---------- reference model (from the property text; no SDK logic) ----------
fn tolerated(code: &str) -> bool {
    code == "signingCredential.untrusted" || code.starts_with("cawg.x509.")
}

/// 0 Invalid, 1 Valid, 2 Trusted
fn reference(items: &[Item]) -> u8 {
    let act_succ = |c: &str| items.iter().any(|i| i.place == 0 && i.kind == 0 && i.code == c);
    let failures: Vec<&Item> = items.iter().filter(|i| i.kind == 2).collect();
    let valid = act_succ("claimSignature.validated")
        && act_succ("claimSignature.insideValidity")
        && failures.iter().all(|f| tolerated(&f.code));
    let trusted = valid && act_succ("signingCredential.trusted") && failures.is_empty();
    if trusted {
        2
    } else if valid {
        1
    } else {
        0
    }
}

fn rank(s: ValidationState) -> u8 {
    match s {
        ValidationState::Invalid => 0,
        ValidationState::Valid => 1,
        ValidationState::Trusted => 2,
    }
}

fn judge(run: &Run, c: &Case) -> CaseResult {
    let got = rank(build(&c.items).validation_state());
    let want = reference(&c.items);
    run.count(&format!("state_{want}"));
    // non-trivial: removing or re-placing one item changes the reference state (Hamming distance 1 of a change)
    let mut near = false;
    for i in 0..c.items.len() {
        let mut v = c.items.clone();
        v.remove(i);
        if reference(&v) != want {
            near = true;
            break;
        }
    }
    if near {
        run.nontrivial(c);
    }
    if got > want {
        return Err(Fail::new(
            "C04:state-too-high",
            format!("SDK state {got} but the codes only justify {want}"),
        ));
    }
    if got < want {
        return Err(Fail::new(
            "C04:state-too-low",
            format!("SDK state {got} although the codes justify {want}"),
        ));
    }
    if let Some((code, place)) = &c.extra_failure {
        if !tolerated(code) {
            let mut v = c.items.clone();
            v.push(Item { code: code.clone(), kind: 2, place: *place });
            let got2 = rank(build(&v).validation_state());
            run.eval();
            if got2 > got || got2 != 0 {
                return Err(Fail::new(
                    "C04:failure-raises-state",
                    format!("adding failure {code}@{place} gives state {got2} (was {got})"),
                ));
            }
        }
    }
    Ok(())
}

/// All string constants of `validation_codes` in the SDK source (so new codes are picked up).
fn sdk_codes() -> Vec<String> {
    let mut out = vec![];
    if let Ok(src) = std::fs::read_to_string(format!("{}/sdk/src/validation_results.rs", vh::sdk::repo_dir())) {
        if let Some(i) = src.find("pub mod validation_codes") {
            for line in src[i..].lines() {
                let l = line.trim();
                if l.starts_with("pub const") && l.contains(": &str") {
                    if let (Some(a), Some(b)) = (l.find('"'), l.rfind('"')) {
                        if b > a {
                            out.push(l[a + 1..b].to_string());
                        }
                    }
                }
            }
        }
    }
    if out.len() < 30 {
        out = [
            "claimSignature.validated",
            "claimSignature.insideValidity",
            "signingCredential.trusted",
            "signingCredential.untrusted",
            "signingCredential.invalid",
            "signingCredential.expired",
            "assertion.dataHash.mismatch",
            "assertion.hashedURI.mismatch",
            "claimSignature.mismatch",
            "timeStamp.mismatch",
        ]
        .iter()
        .map(|s| s.to_string())
        .collect();
    }
    out.sort();
    out.dedup();
    out
}

fn legacy_json(codes: &[String], with_results: bool) -> String {
    let st: Vec<serde_json::Value> = codes.iter().map(|c| serde_json::json!({"code": c})).collect();
    let mut v = serde_json::json!({ "manifests": {}, "validation_status": st });
    if with_results {
        v["validation_results"] = serde_json::json!({"activeManifest": {"success": [], "informational": [], "failure": st}});
    }
    v.to_string()
}

fn main() {
    vh::quiet_panics();
    let run = Run::from_args("C04", "exploration");
    run.set_rule("cases = multisets of (code, kind, placement) turned into ValidationResults through the public add_status; exhaustive part: every assignment of 9 critical items to {absent, active, delta1, delta2} (4^9); random part: 0..12 items over all SDK validation codes + unknown/look-alike codes; legacy part: Reader::from_json status lists. Non-trivial = removing one item changes the reference state (distance 1 from a state change).");
    run.assume("ValidationResults are built through the public add_status/set_kind/set_ingredient_uri API");
    run.assume("tolerated codes are exactly signingCredential.untrusted and the cawg.x509.* family (property text + doc comment)");

    // ---- (a) exhaustive critical alphabet --------------------------------------------------------
    let alphabet: Vec<(&str, u8)> = vec![
        ("claimSignature.validated", 0),
        ("claimSignature.insideValidity", 0),
        ("signingCredential.trusted", 0),
        ("signingCredential.untrusted", 2),
        ("cawg.x509.untrusted", 2),
        ("assertion.dataHash.mismatch", 2),
        ("timeStamp.mismatch", 1),
        ("claimSignature.validated", 2),
        ("signingCredential.trusted", 1),
    ];
    let n = alphabet.len() as u32;
    let total = 4u64.pow(n);
    let cases = (0..total).map(|mut code| {
        let mut items = vec![];
        for (c, k) in &alphabet {
            let p = (code % 4) as u8;
            code /= 4;
            if p > 0 {
                items.push(Item { code: c.to_string(), kind: *k, place: p - 1 });
            }
        }
        Case { items, extra_failure: None }
    });
    run.drive_enum("exhaustive_alphabet", cases, |c| judge(&run, c));
    run.set_exhaustive(true);
    run.extra("exhaustive_states", serde_json::json!(total));

    // ---- (b) random over the full alphabet ---------------------------------------------------------
    let mut codes = sdk_codes();
    run.extra("sdk_codes_seen", serde_json::json!(codes.len()));
    for extra in [
        "cawg.x509.signing_credential.untrusted",
        "cawg.x509.",
        "cawg.x509",
        "cawg.x5090.foo",
        "cawg.ica.untrusted_issuer",
        "cawg.identity.well-formed",
        "cawg.identity.cbor.invalid",
        "signingCredential.untrusted2",
        "SigningCredential.untrusted",
        "xsigningCredential.untrusted",
        "",
        "com.example.unknown",
    ] {
        codes.push(extra.to_string());
    }
    let ncodes = codes.len();
    let codes2 = codes.clone();
    let item = (0..ncodes * 3, 0u8..3, 0u8..3).prop_map(move |(ci, k, p)| {
        // one third of the draws come from the 6 critical codes so that Valid/Trusted states are common
        let crit = [
            "claimSignature.validated",
            "claimSignature.insideValidity",
            "signingCredential.trusted",
            "signingCredential.untrusted",
            "cawg.x509.untrusted",
            "claimSignature.mismatch",
        ];
        if ci >= ncodes {
            let c = crit[ci % crit.len()];
            let kind = if c.contains("untrusted") || c.contains("mismatch") { 2 } else { 0 };
            // critical successes mostly on the active manifest
            Item { code: c.to_string(), kind: if k == 1 { kind } else { kind }, place: if ci % 5 == 0 { p } else { 0 } }
        } else {
            Item { code: codes2[ci].clone(), kind: k, place: p }
        }
    });
    let codes3 = codes.clone();
    let strat = (proptest::collection::vec(item, 0..12), proptest::option::of((0..ncodes, 0u8..3))).prop_map(
        move |(items, extra)| Case { items, extra_failure: extra.map(|(i, p)| (codes3[i].clone(), p)) },
    );
    run.drive("random_alphabet", run.scale(20_000, 500_000), strat, |c| judge(&run, c));

    // ---- (c) legacy status-list fallback ------------------------------------------------------------
    // Reader::from_json documents without validation_results: the state comes from the error list alone.
    let idx = proptest::collection::vec(0..ncodes + 6, 0..4);
    let codes4 = codes.clone();
    let strat = idx.prop_map(move |v| {
        v.into_iter()
            .map(|i| if i >= codes4.len() { "signingCredential.untrusted".to_string() } else { codes4[i].clone() })
            .collect::<Vec<String>>()
    });
    run.drive("legacy_status_list", run.scale(3_000, 60_000), strat, |list| {
        let reader = match Reader::from_json(&legacy_json(list, false)) {
            Ok(r) => r,
            Err(e) => return Err(Fail::new("C04:legacy-json-rejected", format!("{e}"))),
        };
        let got = rank(reader.validation_state());
        let any_non_tolerated = list.iter().any(|c| !tolerated(c));
        if !list.is_empty() {
            run.nontrivial(list);
        }
        run.count(&format!("legacy_state_{got}"));
        if any_non_tolerated && got != 0 {
            return Err(Fail::new(
                "C04:legacy-nontolerated-not-invalid",
                format!("status list {list:?} gives state {got}"),
            ));
        }
        if got == 2 && !list.is_empty() {
            let sig = if list.iter().all(|c| c == "signingCredential.untrusted") {
                "C04:legacy-untrusted-reported-trusted"
            } else {
                "C04:legacy-trusted-with-failures"
            };
            return Err(Fail::new(sig, format!("status list {list:?} (failures present) is reported Trusted")));
        }
        Ok(())
    });
    run.finish();
}
