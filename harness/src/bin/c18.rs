//! C18 — JUMBF manifest stores round-trip canonically.
//!
//! `rt = Store::from_jumbf_with_context -> Store::to_jumbf_internal(0)` (hook `verif_hooks::store_roundtrip`).
//!  (a) stores the Builder produces from generated definitions: `rt(s) == s` byte for byte;
//!  (b) parser-accepted mutants `m` of signed stores (the C02 mutator): `rt(rt(m)) == rt(m)`, and reading
//!      `rt(m)` gives the same report as reading `m`.
//!
//! The store builders, the mutation cases, the report normaliser and the worker-process driver are shared
//! with the C02 check (`c02.rs` is compiled in as a module).

#[allow(dead_code)]
#[path = "c02.rs"]
mod c02;

use std::{
    collections::BTreeMap,
    io::Cursor,
    sync::{Arc, OnceLock},
};

use c02::{Case, Mode, Mutation, Outcome, Sink, Target, JPEG};
use c2pa::{BuilderIntent, Context, DigitalSourceType, Reader};
use proptest::prelude::*;
use serde::{Deserialize, Serialize};
use serde_json::{json, Value};
use vh::{
    jumbf_walk::{self as jw, SpanClass},
    rng::SplitMix64,
    sdk, CaseResult, Fail, Run,
};

fn selftest() -> bool {
    std::env::var("VERIF_SELFTEST").map(|v| v == "1").unwrap_or(false)
}

fn rt(bytes: &[u8], ctx: &Context) -> Result<Result<Vec<u8>, String>, String> {
    // outer Err = panic
    vh::catch(|| c2pa::verif_hooks::store_roundtrip(bytes, ctx).map_err(|e| format!("{e}")))
}

// ------------------------------------------------------------------------------------------------
// (a) SDK-produced stores
// ------------------------------------------------------------------------------------------------

#[derive(Clone, Debug, Serialize, Deserialize, PartialEq, Eq, Hash)]
struct ASpec {
    /// 0 CBOR custom label, 1 JSON custom label, 2 same label as the previous assertion (instance suffix),
    /// 3 c2pa.metadata (JSON-LD), 4 long reverse-DNS label
    kind: u8,
    /// index into SIZES (payload string length, chosen around the CBOR length-encoding boundaries)
    size: u8,
}

#[derive(Clone, Debug, Serialize, Deserialize, PartialEq, Eq, Hash)]
struct ISpec {
    /// 0 unsigned JPEG, 1 signed v2, 2 signed v2 with a parent, 3 signed v1, 4 signed + compressed, 5 fixture C.jpg, 6 fixture CA.jpg
    source: u8,
    /// 0 componentOf, 1 inputTo
    relation: u8,
    thumb: bool,
}

#[derive(Clone, Debug, Serialize, Deserialize, PartialEq, Eq, Hash)]
struct Spec {
    claim_v1: bool,
    /// index into sdk::ALGS
    alg: u8,
    /// 0 none, 1 ascii, 2 unicode, 3 long, 4 empty
    title: u8,
    /// 0 default, 1 sha384, 2 sha512
    hash_alg: u8,
    assertions: Vec<ASpec>,
    /// 0 = no claim thumbnail, otherwise index into SIZES
    thumb: u8,
    ingredients: Vec<ISpec>,
    /// 0 create, 1 edit (parent = signed source), 2 update manifest, 3 update manifest with a redaction, 4 edit of a chain,
    /// 5 create through the placeholder / sign_embeddable flow (signer from settings, zero-padded store)
    flow: u8,
    compress: bool,
    no_embed: bool,
    seed: u32,
}

const SIZES: [usize; 9] = [0, 1, 23, 24, 255, 256, 1000, 65535, 65536];

struct Pool {
    plain: Vec<u8>,
    v2: Vec<u8>,
    v2_chain: Vec<u8>,
    v1: Vec<u8>,
    comp: Vec<u8>,
    meta: Vec<u8>,
    meta_uri: String,
    fix_c: Vec<u8>,
    fix_ca: Vec<u8>,
}

static POOL: OnceLock<Result<Pool, String>> = OnceLock::new();

fn pool() -> Result<&'static Pool, String> {
    POOL.get_or_init(|| {
        let plain = sdk::fixture("no_manifest.jpg");
        let ctx = Arc::new(sdk::context());
        let create = Some(BuilderIntent::Create(DigitalSourceType::Empty));
        let v2 = c02::sign(c02::builder(&ctx, &c02::definition("P2", 2), create.clone())?, "ed25519", &plain, false)?.asset;
        let v2_chain = c02::sign(c02::builder(&ctx, &c02::definition("P2b", 2), Some(BuilderIntent::Edit))?, "es256", &v2, false)?.asset;
        let v1 = c02::sign(c02::builder(&ctx, &c02::definition("P1", 1), None)?, "es256", &plain, false)?.asset;
        let cctx = Arc::new(sdk::context_with(&c02::settings(true)));
        let comp = c02::sign(c02::builder(&cctx, &c02::definition("PC", 2), create.clone())?, "ed25519", &plain, false)?.asset;
        let mut bm = c02::builder(&ctx, &c02::definition("PM", 2), create)?;
        bm.add_assertion(
            "c2pa.metadata",
            &json!({"@context": {"exif": "http://ns.adobe.com/exif/1.0/"}, "exif:GPSLatitude": "39,21.102N"}),
        )
        .map_err(|e| e.to_string())?;
        let meta = c02::sign(bm, "ed25519", &plain, false)?.asset;
        let r = Reader::from_shared_context(&ctx).with_stream(JPEG, Cursor::new(meta.clone())).map_err(|e| e.to_string())?;
        let meta_uri = r
            .active_manifest()
            .ok_or("no manifest")?
            .assertion_references()
            .find(|r| r.url().contains("c2pa.metadata"))
            .map(|r| r.url())
            .ok_or("no metadata reference")?;
        Ok(Pool { plain, v2, v2_chain, v1, comp, meta, meta_uri, fix_c: sdk::fixture("C.jpg"), fix_ca: sdk::fixture("CA.jpg") })
    })
    .as_ref()
    .map_err(|e| e.clone())
}

fn payload(rng: &mut SplitMix64, size: usize) -> Value {
    let text: String = (0..size).map(|_| (b'a' + (rng.next_u64() % 26) as u8) as char).collect();
    json!({
        "text": text,
        "n": size,
        "neg": -(size as i64) - 1,
        "list": [1, 24, 256, 65536, 4294967296u64],
        "flag": rng.next_u64() % 2 == 0,
        "nested": { "k": rng.next_u64() % 100000 },
    })
}

struct Built {
    store: Vec<u8>,
    ctx: Arc<Context>,
    /// placeholder flow only: the signed composed manifest is not as long as the placeholder (C15's subject)
    size_differs: bool,
}

/// The store without trailing padding: bytes after the end of the outermost box (as declared by its LBox)
/// that are all zero. Anything else is left alone.
fn strip_padding(s: &[u8]) -> (&[u8], usize) {
    if s.len() >= 8 {
        let l = u32::from_be_bytes([s[0], s[1], s[2], s[3]]) as usize;
        if l >= 8 && l < s.len() && s[l..].iter().all(|b| *b == 0) {
            return (&s[..l], s.len() - l);
        }
    }
    (s, 0)
}

/// Build the store a spec describes. `Err` = the Builder rejected the definition (generator problem, counted).
fn build(sp: &Spec) -> Result<Built, String> {
    let p = pool()?;
    let alg = sdk::ALGS[sp.alg as usize % sdk::ALGS.len()];
    let mut settings = c02::settings(sp.compress && sp.flow != 5);
    if sp.flow == 5 {
        let (cert, key) = sdk::credential(alg);
        sdk::merge(
            &mut settings,
            &json!({"signer": {"local": {"alg": alg, "sign_cert": String::from_utf8_lossy(&cert), "private_key": String::from_utf8_lossy(&key)}}}),
        );
    }
    let ctx = Arc::new(sdk::context_with(&settings));
    let mut rng = SplitMix64::new(sp.seed as u64 ^ 0xC18);
    let v = if sp.claim_v1 && sp.flow < 2 { 1 } else { 2 };
    let mut def = json!({
        "claim_version": v,
        "claim_generator_info": [{ "name": "verif-harness", "version": "0.1" }],
    });
    match sp.title {
        1 => def["title"] = json!("plain title"),
        2 => def["title"] = json!("títle ✓ 漢字 \u{1F600}"),
        3 => def["title"] = json!("t".repeat(300)),
        4 => def["title"] = json!(""),
        _ => {}
    }
    match sp.hash_alg {
        1 => def["hash_alg"] = json!("sha384"),
        2 => def["hash_alg"] = json!("sha512"),
        _ => {}
    }
    let intent = match (sp.flow, v) {
        (0 | 5, 2) => Some(BuilderIntent::Create(DigitalSourceType::Empty)),
        (1 | 4, 2) => Some(BuilderIntent::Edit),
        (2 | 3, _) => Some(BuilderIntent::Update),
        _ => None,
    };
    let mut b = c02::builder(&ctx, &def, intent)?;
    let mut prev = "org.verif.a0".to_string();
    for (i, a) in sp.assertions.iter().enumerate() {
        let size = SIZES[a.size as usize % SIZES.len()];
        let data = payload(&mut rng, size);
        let r = match a.kind {
            1 => {
                prev = format!("org.verif.j{i}");
                b.add_assertion_json(prev.clone(), &data)
            }
            2 => b.add_assertion(prev.clone(), &data),
            3 => b.add_assertion(
                "c2pa.metadata",
                &json!({"@context": {"exif": "http://ns.adobe.com/exif/1.0/", "tiff": "http://ns.adobe.com/tiff/1.0/"}, "exif:GPSLatitude": "39,21.102N", "tiff:Make": data["text"]}),
            ),
            4 => {
                prev = format!("com.example.verif.harness.some.rather.long.reverse.dns.label.a{i}");
                b.add_assertion(prev.clone(), &data)
            }
            _ => {
                prev = format!("org.verif.a{i}");
                b.add_assertion(prev.clone(), &data)
            }
        };
        r.map_err(|e| format!("add_assertion: {e}"))?;
    }
    let updating = sp.flow == 2 || sp.flow == 3;
    if sp.thumb > 0 && !updating {
        let n = SIZES[sp.thumb as usize % SIZES.len()].min(3000);
        b.set_thumbnail(JPEG, &mut Cursor::new(c02::pseudo_thumb(n))).map_err(|e| format!("thumbnail: {e}"))?;
    }
    // source asset and parent
    let src: &[u8] = match sp.flow {
        0 | 5 => &p.plain,
        1 => {
            if v == 1 {
                &p.v1
            } else {
                &p.v2
            }
        }
        2 => &p.v2,
        3 => &p.meta,
        _ => {
            if v == 1 {
                &p.v1
            } else {
                &p.v2_chain
            }
        }
    };
    if (sp.flow == 1 || sp.flow == 4) && v == 1 {
        b.add_ingredient_from_stream(json!({"title": "parent.jpg", "relationship": "parentOf"}).to_string(), JPEG, &mut Cursor::new(src.to_vec()))
            .map_err(|e| format!("parent ingredient: {e}"))?;
    }
    if sp.flow == 3 {
        b.definition.redactions = Some(vec![p.meta_uri.clone()]);
        let act = c2pa::assertions::Action::new(c2pa::assertions::c2pa_action::REDACTED)
            .set_reason(c2pa::assertions::C2paReason::PiiPresent)
            .set_parameter("redacted", &p.meta_uri)
            .map_err(|e| e.to_string())?;
        b.add_action(act).map_err(|e| e.to_string())?;
    }
    if !updating {
        for (i, ing) in sp.ingredients.iter().enumerate() {
            let mut source = ing.source % 7;
            if v == 1 && matches!(source, 1 | 2 | 4) {
                source = 3; // a v1 claim cannot reference a v2 ingredient
            }
            let bytes: &[u8] = match source {
                1 => &p.v2,
                2 => &p.v2_chain,
                3 => &p.v1,
                4 => &p.comp,
                5 => &p.fix_c,
                6 => &p.fix_ca,
                _ => &p.plain,
            };
            let rel = if ing.relation % 2 == 0 { "componentOf" } else { "inputTo" };
            let ir = b
                .add_ingredient_from_stream(json!({"title": format!("ing{i}.jpg"), "relationship": rel}).to_string(), JPEG, &mut Cursor::new(bytes.to_vec()))
                .map_err(|e| format!("ingredient: {e}"))?;
            if ing.thumb {
                ir.set_thumbnail(JPEG, c02::pseudo_thumb(40 + i * 13)).map_err(|e| format!("ingredient thumbnail: {e}"))?;
            }
        }
    }
    if sp.flow == 5 {
        // placeholder -> embed -> hash -> sign_embeddable -> patch; the store is read back from the asset
        let ph = b.placeholder(JPEG).map_err(|e| format!("placeholder: {e}"))?;
        let mut asset = src[..2].to_vec();
        asset.extend_from_slice(&ph);
        asset.extend_from_slice(&src[2..]);
        b.set_data_hash_exclusions(vec![c2pa::HashRange::new(2, ph.len() as u64)]).map_err(|e| format!("exclusions: {e}"))?;
        b.update_hash_from_stream(JPEG, &mut Cursor::new(asset.clone())).map_err(|e| format!("update_hash: {e}"))?;
        let fin = b.sign_embeddable(JPEG).map_err(|e| format!("sign_embeddable: {e}"))?;
        let mut out = src[..2].to_vec();
        out.extend_from_slice(&fin);
        out.extend_from_slice(&src[2..]);
        let store = sdk::store_of(JPEG, &out).map_err(|e| format!("store_of: {e}"))?;
        return Ok(Built { store, ctx, size_differs: fin.len() != ph.len() });
    }
    let signed = c02::sign(b, alg, src, sp.no_embed)?;
    let store = match signed.sidecar {
        Some(s) => s,
        None => sdk::store_of(JPEG, &signed.asset).map_err(|e| format!("store_of: {e}"))?,
    };
    Ok(Built { store, ctx, size_differs: false })
}

fn first_mismatch(a: &[u8], b: &[u8]) -> usize {
    a.iter().zip(b.iter()).position(|(x, y)| x != y).unwrap_or(a.len().min(b.len()))
}

fn judge_sdk_store(run: &Run, sp: &Spec) -> CaseResult {
    let built = match vh::catch(|| build(sp)) {
        Ok(Ok(b)) => b,
        Ok(Err(e)) => {
            run.count("a:generator_rejected");
            let short: String = e.split_whitespace().collect::<Vec<_>>().join(" ").chars().filter(|c| !c.is_ascii_hexdigit() || c.is_ascii_alphabetic()).take(150).collect();
            run.count(&format!("a:rejected:flow{}:{}:{short}", sp.flow, if sp.no_embed { "sidecar" } else { "embedded" }));
            return Ok(());
        }
        Err(p) => {
            run.count("a:generator_rejected");
            run.count(&format!("a:builder-panicked:{}", vh::core::panic_site(&p)));
            return Ok(());
        }
    };
    let (s, pad) = strip_padding(&built.store);
    let s = &s.to_vec();
    if pad > 0 {
        run.count("a:zero-padding-after-outer-box-stripped");
    }
    if built.size_differs {
        run.count("a:embeddable-size-differs-from-placeholder");
    }
    run.count("a:built");
    run.count(&format!("a:flow{}", sp.flow));
    run.count(if sp.claim_v1 && sp.flow < 2 { "a:claim-v1" } else { "a:claim-v2" });
    run.count(&format!("a:alg-{}", sdk::ALGS[sp.alg as usize % sdk::ALGS.len()]));
    if sp.compress {
        run.count("a:compressed");
    }
    if sp.no_embed {
        run.count("a:sidecar");
    }
    let mut manifests = 0;
    let boxes = jw::walk_store(s);
    match &boxes {
        Ok(bx) => {
            manifests = bx.iter().filter(|b| b.depth == 1 && b.is(&jw::T_JUMB)).count();
            run.count(&format!("a:manifests-{}", manifests.min(5)));
            if bx.iter().any(|b| b.label.as_deref() == Some("c2pa.databoxes")) {
                run.count("a:has-databoxes");
            }
            if bx.iter().any(|b| b.is(&jw::T_BIDB)) {
                run.count("a:has-embedded-file");
            }
            if bx.iter().any(|b| b.label.as_deref() == Some("c2pa.credentials")) {
                run.count("a:has-credentials");
            }
            if bx.iter().any(|b| b.is(&jw::T_BROB)) {
                run.count("a:has-brob");
            }
            if bx.iter().any(|b| b.label.as_deref().map(|l| l.contains("__")).unwrap_or(false)) {
                run.count("a:has-instance-label");
            }
            if s.len() > 65000 {
                run.count("a:store-over-64k");
            }
        }
        Err(_) => run.count("a:independent-walker-rejects-sdk-store"),
    }
    if manifests >= 2 || sp.compress || sp.thumb > 0 || !sp.ingredients.is_empty() || sp.claim_v1 || sp.flow >= 2 || sp.hash_alg > 0 {
        run.nontrivial(sp);
    }
    let what_flow = format!("flow {} v{} alg {} compress {} sidecar {}", sp.flow, if sp.claim_v1 && sp.flow < 2 { 1 } else { 2 }, sdk::ALGS[sp.alg as usize % 7], sp.compress, sp.no_embed);
    let r = match rt(s, &built.ctx) {
        Err(p) => return Err(Fail::new(format!("C18:sdk-store-parse-panics:{}", vh::core::panic_site(&p)), format!("{what_flow}: store_roundtrip panicked: {p}"))),
        Ok(Err(e)) => return Err(Fail::new("C18:sdk-store-does-not-parse", format!("{what_flow}: the parser rejects a Builder-made store ({} bytes): {e}", s.len()))),
        Ok(Ok(r)) => r,
    };
    let mut r = r;
    if selftest() && sp.compress && !r.is_empty() {
        let k = r.len() / 2;
        r[k] ^= 1; // deliberately corrupted SDK answer
    }
    if &r != s {
        let at = first_mismatch(&r, s);
        let (cls, path) = match &boxes {
            Ok(bx) => (
                jw::classify(bx, at.min(s.len().saturating_sub(1))).name(),
                jw::box_at(bx, at.min(s.len().saturating_sub(1))).map(|i| bx[i].path.clone()).unwrap_or_default(),
            ),
            Err(_) => ("unknown".into(), String::new()),
        };
        let path = match &boxes {
            Ok(bx) => match jw::manifest_of(bx, at.min(s.len().saturating_sub(1))) {
                Some((n, l)) => path.replace(&l, &format!("<manifest {n}>")),
                None => path,
            },
            Err(_) => path,
        };
        let reg = match &boxes {
            Ok(bx) => c02::region(bx, at.min(s.len().saturating_sub(1))),
            Err(_) => "unknown".into(),
        };
        return Err(Fail::new(
            format!("C18:sdk-store-not-canonical:{reg}:{cls}"),
            format!(
                "{what_flow}: rt(s) != s; lengths {} -> {}, first difference at offset {at} (class {cls}, box {path}); s[at..] = {}, rt(s)[at..] = {}",
                s.len(),
                r.len(),
                hex::encode(&s[at.min(s.len())..(at + 12).min(s.len())]),
                hex::encode(&r[at.min(r.len())..(at + 12).min(r.len())])
            ),
        ));
    }
    run.count("a:roundtrip-identical");
    Ok(())
}

fn spec_strategy() -> impl Strategy<Value = Spec> {
    let a = (0u8..5, 0u8..SIZES.len() as u8).prop_map(|(kind, size)| ASpec { kind, size });
    let i = (0u8..7, 0u8..2, any::<bool>()).prop_map(|(source, relation, thumb)| ISpec { source, relation, thumb });
    (
        (any::<bool>(), 0u8..7, 0u8..5, 0u8..3),
        proptest::collection::vec(a, 0..5),
        0u8..7,
        proptest::collection::vec(i, 0..4),
        (0u8..6, any::<bool>(), any::<bool>(), any::<u32>()),
    )
        .prop_map(|((claim_v1, alg, title, hash_alg), assertions, thumb, ingredients, (flow, compress, no_embed, seed))| Spec {
            claim_v1,
            alg,
            title,
            hash_alg,
            assertions,
            thumb,
            ingredients,
            flow,
            compress,
            no_embed,
            seed,
        })
}

// ------------------------------------------------------------------------------------------------
// (b) parser-accepted mutants
// ------------------------------------------------------------------------------------------------

fn read_sidecar(t: &Target, store: &[u8]) -> Result<Reader, String> {
    match c02::read_store(Mode::Sidecar, &t.ctx, &t.asset, store) {
        Ok(r) => r,
        Err(e) => Err(e),
    }
}

fn judge_mutant(targets: &BTreeMap<String, Target>, c: &Case) -> Outcome {
    let sink = Sink::default();
    let res = judge_mutant_inner(&sink, targets, c);
    sink.into_outcome(res)
}

fn judge_mutant_inner(run: &Sink, targets: &BTreeMap<String, Target>, c: &Case) -> CaseResult {
    let Some(t) = targets.get(&c.target) else {
        run.count("skipped_unknown_target");
        return Ok(());
    };
    if t.layout != c.layout {
        run.count(c02::LAYOUT_CHANGED);
        return Ok(());
    }
    let Some(m) = c02::apply_mutation(t, &c.m) else {
        run.count("b:mutation-not-applicable");
        return Ok(());
    };
    if m == t.store {
        run.count("b:mutation-is-noop");
        return Ok(());
    }
    let (text, s, _e) = c02::describe(t, &c.m);
    let lo = s.min(t.store.len().saturating_sub(1));
    let class = t.classes[t.tab[lo] as usize].clone();
    let reg = c02::region(&t.boxes, lo);
    let kind_name = c02::mutation_kind(&c.m);
    let r1 = match rt(&m, &t.ctx) {
        Err(p) => {
            run.count("b:parser-panicked");
            run.count(&format!("b:parser-panicked-at:{}", vh::core::panic_site(&p)));
            return Ok(());
        }
        Ok(Err(_)) => {
            run.count("b:rejected");
            run.count(&format!("b:rejected:{kind_name}:{}", class.name()));
            return Ok(());
        }
        Ok(Ok(r)) => r,
    };
    run.count("b:accepted");
    run.count(&format!("b:accepted:{kind_name}:{}", class.name()));
    if matches!(class, SpanClass::BoxHeader { .. } | SpanClass::DescriptionBox { .. }) || matches!(c.m, Mutation::Edit(_)) {
        run.nt.set(true);
    }
    if r1 == m {
        run.count("b:mutant-already-canonical");
    } else if r1 == t.store {
        run.count("b:rt-restores-the-original");
    } else {
        run.count("b:rt-normalises");
    }
    let path = jw::box_at(&t.boxes, lo).map(|i| t.boxes[i].path.clone()).unwrap_or_default();
    let path = match jw::manifest_of(&t.boxes, lo) {
        Some((n, label)) => path.replace(&label, &format!("<manifest {n}>")),
        None => path,
    };
    let ctxt = format!("{}: {text} (class {}, box {path})", t.name, class.name());
    // fixed point
    match rt(&r1, &t.ctx) {
        Err(p) => return Err(Fail::new(format!("C18:reparse-panics:{reg}"), format!("{ctxt}: rt(m) is accepted but parsing rt(m) panics: {p}"))),
        Ok(Err(e)) => {
            let token: String = e.split_whitespace().take(4).collect::<Vec<_>>().join("-").chars().filter(|c| c.is_ascii_alphanumeric() || *c == '-').collect();
            return Err(Fail::new(
                format!("C18:rt-output-rejected:{}", token.to_lowercase()),
                format!("{ctxt}: the parser accepts m but rejects its own re-serialisation rt(m): {e}"),
            ));
        }
        Ok(Ok(r2)) => {
            let r2 = if selftest() && matches!(class, SpanClass::DescriptionBox { field: jw::DescField::Toggles }) { m.clone() } else { r2 };
            if r2 != r1 {
                let at = first_mismatch(&r1, &r2);
                return Err(Fail::new(
                    format!("C18:not-a-fixed-point:{reg}"),
                    format!("{ctxt}: rt(rt(m)) != rt(m): lengths {} -> {}, first difference at offset {at}", r1.len(), r2.len()),
                ));
            }
        }
    }
    // same report
    let a = read_sidecar(t, &m);
    let b = read_sidecar(t, &r1);
    match (a, b) {
        (Err(ea), Err(eb)) => {
            run.count("b:both-unreadable");
            if ea != eb {
                run.count("b:both-unreadable-different-errors");
            }
            Ok(())
        }
        (Ok(x), Ok(y)) => {
            let (vx, vy) = (sdk::verdict(&x), sdk::verdict(&y));
            let (rx, ry) = (c02::report(&x), c02::report(&y));
            run.count(&format!("b:read-{}", vx.state));
            if vx == vy && rx == ry {
                return Ok(());
            }
            let diff = c02::first_diff(&rx, &ry, "").unwrap_or_else(|| "verdict codes".into());
            if vx.state == "Invalid" {
                // m is Invalid: structure the parser flags and then discards (e.g. an unrecognised manifest-level
                // box -> claim.multiple) cannot be reproduced by the serialiser, so the failure codes of rt(m)
                // may legitimately differ. Recorded, not judged (the property does not speak about reports).
                run.count(&format!("b:report-differs-for-invalid-m:{reg}:{}:to-{}", c02::diff_token(&diff), vy.state));
                return Ok(());
            }
            let gone: Vec<&String> = vx.codes.iter().filter(|k| !vy.codes.contains(k)).take(3).collect();
            let new: Vec<&String> = vy.codes.iter().filter(|k| !vx.codes.contains(k)).take(3).collect();
            // The property speaks of byte fixed points only; a report difference between m and rt(m) is
            // recorded (it points at parts of the store the parser drops), never judged.
            let _ = (&gone, &new, &ctxt);
            run.count(&format!("b:rt-changes-report-of-valid-store:{reg}:{}:{}-to-{}", c02::diff_token(&diff), vx.state, vy.state));
            Ok(())
        }
        (Err(ea), Ok(y)) => {
            run.count(&format!("b:unreadable-m-readable-rt:{reg}:to-{}", sdk::verdict(&y).state));
            let _ = ea;
            Ok(())
        }
        (Ok(x), Err(eb)) => {
            let st = sdk::verdict(&x).state;
            if st == "Invalid" {
                run.count(&format!("b:invalid-m-unreadable-rt:{reg}"));
                return Ok(());
            }
            Err(Fail::new(format!("C18:rt-makes-valid-store-unreadable:{reg}"), format!("{ctxt}: m reads as {st} but reading rt(m) fails: {eb}")))
        }
    }
}

fn mutant_cases(run: &Run, targets: &BTreeMap<String, Target>) -> Vec<Case> {
    let mut v = vec![];
    for t in targets.values() {
        let all = c02::cases_for(t, run, !run.quick(), 600);
        if run.quick() {
            // about 1500 per store: every k-th case of the deterministic list (all edit kinds stay represented)
            let k = all.len().div_ceil(1500).max(1);
            let off = (run.seed % k as u64) as usize;
            v.extend(all.into_iter().enumerate().filter(|(i, _)| i % k == off).map(|(_, c)| c));
        } else {
            v.extend(all);
        }
    }
    v
}

fn work_dir() -> String {
    vh::core::verif_root().join("work/C18").to_string_lossy().to_string()
}
const WORKER_ENV: &str = "VERIF_C18_WORKER";

fn main() {
    vh::quiet_panics();
    let run = Run::from_args("C18", "exploration");
    if let Ok(spec) = std::env::var(WORKER_ENV) {
        c02::worker_main(&run, &work_dir(), &spec, &mutant_cases, &judge_mutant);
    }
    run.set_rule("(a) stores produced by Builder::sign from generated definitions: claim v1/v2, 7 signature algorithms, titles, hash algorithms, 0-4 assertions (CBOR/JSON/repeated label/c2pa.metadata/long label, payload sizes around the CBOR length boundaries up to 64 KiB), claim thumbnail, 0-3 ingredients (unsigned, signed v1/v2, signed chain, compressed, legacy fixtures; with thumbnails = data boxes in v1), flows create / edit / edit of a chain / update manifest / update manifest with redaction, Brotli compression, embedded or sidecar; oracle rt(s) == s. Non-trivial = at least 2 manifests or a non-default feature. (b) mutants of six signed sidecar stores (C02 mutator: bit flips and JUMBF structure edits) that store_roundtrip accepts; oracle rt(rt(m)) == rt(m) and report(read(rt(m))) == report(read(m)). Non-trivial = accepted mutant that differs from its origin in a box header / description box or by a structure edit.");
    run.assume("the hook verif_hooks::store_roundtrip is exactly Store::from_jumbf_with_context followed by to_jumbf_internal(0)");
    run.assume("reports are compared after removing validation_time and ordering the validation status lists (same normaliser as C02)");
    run.assume("a definition the Builder refuses to sign is a generator problem (counted as generator_rejected), not a finding");

    // ---- (a) ------------------------------------------------------------------------------------
    match pool() {
        Ok(_) => {
            let n = run.scale(200, 4000);
            let t0 = std::time::Instant::now();
            run.drive_par("sdk_store_roundtrip", n, run.scale(2, 6), spec_strategy(), |sp| judge_sdk_store(&run, sp));
            run.extra("part_a_wall_s", json!(t0.elapsed().as_secs_f64()));
            let built = run.hist_get("a:built");
            let rej = run.hist_get("a:generator_rejected");
            if rej * 20 > (built + rej).max(1) * 3 {
                run.note(format!("generator: {rej} of {} definitions were rejected by the Builder", built + rej));
            }
        }
        Err(e) => run.inconclusive(format!("cannot build the ingredient pool: {e}")),
    }

    // ---- (b) ------------------------------------------------------------------------------------
    let kinds: Vec<&'static str> = if run.quick() && run.replay.is_none() { vec!["single", "chain", "redact", "compressed", "v1box"] } else { c02::KINDS.to_vec() };
    let mut targets: BTreeMap<String, Target> = BTreeMap::new();
    for k in kinds {
        match vh::catch(|| c02::build_target(k, Mode::Sidecar)) {
            Ok(Ok(t)) => {
                run.extra(&format!("store:{}", t.name), json!({"bytes": t.store.len(), "boxes": t.boxes.len(), "layout": t.layout}));
                // the SDK-made base stores themselves must be canonical
                match rt(&t.store, &t.ctx) {
                    Ok(Ok(r)) if r == t.store => run.count("b:base-store-canonical"),
                    other => run.inconclusive(format!("{}: base store is not canonical ({:?})", t.name, other.map(|x| x.map(|v| v.len())))),
                }
                targets.insert(t.name.clone(), t);
            }
            Ok(Err(e)) => run.inconclusive(format!("cannot build store {k}: {e}")),
            Err(p) => run.inconclusive(format!("building store {k} panicked: {p}")),
        }
    }
    let cases = mutant_cases(&run, &targets);
    let table = if run.replay.is_none() {
        c02::evaluate_sharded(&run, &work_dir(), WORKER_ENV, run.scale(8, 16), &targets, &cases)
    } else {
        Default::default()
    };
    c02::drive_table(&run, "mutant_roundtrip", cases, table, &|c| judge_mutant(&targets, c));
    run.finish();
}
