//! C36 — time-stamps are used only when they match the signature.
//!
//! A harness TSA answers `Signer::send_timestamp_request`: RFC 3161 responses come from `openssl ts -reply`
//! (CLI, genTime = now) for a TimeStampReq over SHA-256 of the message the SDK hands to the signer (or over a
//! different message). Back-/forward-dated tokens take the TSTInfo of such a response, patch genTime and sign it
//! again — with `openssl cms -sign -cades` (CLI; its signingTime attribute is "now") or with a CMS SignedData
//! assembled here (signingTime attribute = genTime, or absent). Corruptions flip bytes of the finished token.
//! TSA / signing certificates come from `vh::pki` with arbitrary validity windows.
//!
//! Oracle (from the property, not from the SDK): see `judge`.

use std::{
    cell::RefCell,
    path::{Path, PathBuf},
    process::Command,
    sync::{
        atomic::{AtomicUsize, Ordering},
        Arc, Mutex,
    },
};

use base64::Engine;
use c2pa::{BuilderIntent, DigitalSourceType};
use openssl::pkey::{PKey, Private};
use serde::{Deserialize, Serialize};
use serde_json::json;
use sha2::Digest;
use vh::{
    pki::{self, der, oids, CertSpec, ChainSpec, Issuer, KeyKind, PkiSigner, SigDigest},
    rng::SplitMix64,
    sdk, CaseResult, Fail, Run,
};

const DAY: i64 = 86_400;
const WORK: &str = "/verif/work/C36";

// ------------------------------------------------------------------------------------------------------
// case
// ------------------------------------------------------------------------------------------------------

#[derive(Clone, Debug, Serialize, Deserialize, PartialEq, Eq, Hash)]
struct Case {
    /// good | wrong_msg | sig_flip | tst_flip_hash | tst_flip_time | tst_flip_serial | untrusted | outside_tsa |
    /// no_eku_email / no_eku_ocsp / no_eku_other / no_eku_absent (TSA certificate whose EKU is emailProtection,
    /// OCSPSigning, documentSigning, or missing)
    token: String,
    /// genTime: now | back_in (inside the "expired" window) | fwd_in (inside the "notyet" window) | far_back
    date: String,
    /// how a re-dated / re-signed token is signed: ts (openssl ts, only date=now) | cms (openssl cms CLI,
    /// signingTime attribute = now) | native (assembled here, signingTime attribute = genTime) | native_noattr |
    /// native_attr_inwin (genTime = now, signingTime attribute moved inside the signing certificate's window)
    route: String,
    /// signing certificate: valid | expired | notyet (relative to now)
    cert: String,
    claim_v: u8,
    /// verify.verify_timestamp_trust
    ts_trust: bool,
    /// TSA key: p256 | p384 | rsa
    tsa_key: String,
    var: u64,
}

fn b64(d: &[u8]) -> String {
    base64::engine::general_purpose::STANDARD.encode(d)
}

// ------------------------------------------------------------------------------------------------------
// DER walking (definite lengths only)
// ------------------------------------------------------------------------------------------------------

/// (tag, content start, content length) of the TLV at `off`.
fn tlv(buf: &[u8], off: usize) -> Result<(u8, usize, usize), String> {
    let rest = buf.get(off..).ok_or("offset out of range")?;
    let (tag, content, _) = der::read_tlv(rest).ok_or_else(|| format!("bad TLV at {off}"))?;
    let hdr = content.as_ptr() as usize - rest.as_ptr() as usize;
    Ok((tag, off + hdr, content.len()))
}

/// Offsets of the children of the constructed TLV at `off`.
fn kids(buf: &[u8], off: usize) -> Result<Vec<usize>, String> {
    let (_, cs, cl) = tlv(buf, off)?;
    let mut v = vec![];
    let mut p = cs;
    while p < cs + cl {
        let (_, s, l) = tlv(buf, p)?;
        v.push(p);
        p = s + l;
    }
    Ok(v)
}

#[derive(Clone, Debug)]
struct Loc {
    /// TSTInfo DER (start, len)
    tst: (usize, usize),
    /// genTime content
    gen: (usize, usize),
    /// hashedMessage content
    hash: (usize, usize),
    /// serialNumber content
    serial: (usize, usize),
    /// SignerInfo.signature content
    sig: (usize, usize),
    /// signingTime signed attribute (epoch), if present
    attr_time: Option<i64>,
}

/// Locate the interesting spans of a TimeStampResp (`is_resp`) or bare TimeStampToken.
fn locate(buf: &[u8], is_resp: bool) -> Result<Loc, String> {
    let tok = if is_resp { *kids(buf, 0)?.get(1).ok_or("response without token")? } else { 0 };
    let kt = kids(buf, tok)?;
    let sd = *kids(buf, *kt.get(1).ok_or("no content")?)?.first().ok_or("no SignedData")?;
    let ks = kids(buf, sd)?;
    let encap = *ks.get(2).ok_or("no encapContentInfo")?;
    let ke = kids(buf, encap)?;
    let oct = *kids(buf, *ke.get(1).ok_or("no eContent")?)?.first().ok_or("empty eContent")?;
    let (t, cs, cl) = tlv(buf, oct)?;
    if t != 0x04 {
        return Err(format!("eContent is not a primitive OCTET STRING (tag {t:#x})"));
    }
    let ktst = kids(buf, cs)?;
    if ktst.len() < 5 {
        return Err("short TSTInfo".into());
    }
    let (gt, gs, gl) = tlv(buf, ktst[4])?;
    if gt != 0x18 {
        return Err("genTime not found".into());
    }
    let imp = kids(buf, ktst[2])?;
    let (_, hs, hl) = tlv(buf, *imp.get(1).ok_or("no hashedMessage")?)?;
    let (_, ss, sl) = tlv(buf, ktst[3])?;
    let sis = *ks.last().unwrap();
    let si = *kids(buf, sis)?.first().ok_or("no SignerInfo")?;
    let ksi = kids(buf, si)?;
    let mut sig = None;
    let mut attr_time = None;
    for k in &ksi {
        let (t, s, l) = tlv(buf, *k)?;
        if t == 0x04 {
            sig = Some((s, l));
        }
        if t == 0xA0 {
            // signed attributes
            for a in kids(buf, *k)? {
                let ka = kids(buf, a)?;
                let (_, os, ol) = tlv(buf, ka[0])?;
                // 1.2.840.113549.1.9.5 signingTime
                if buf[os..os + ol] == [0x2a, 0x86, 0x48, 0x86, 0xf7, 0x0d, 0x01, 0x09, 0x05] {
                    let v = *kids(buf, ka[1])?.first().ok_or("empty signingTime")?;
                    let (tt, ts, tl) = tlv(buf, v)?;
                    attr_time = parse_asn1_time(tt, &buf[ts..ts + tl]);
                }
            }
        }
    }
    Ok(Loc { tst: (cs, cl), gen: (gs, gl), hash: (hs, hl), serial: (ss, sl), sig: sig.ok_or("no signature")?, attr_time })
}

fn days_from_civil(y: i64, m: i64, d: i64) -> i64 {
    let y = if m <= 2 { y - 1 } else { y };
    let era = y.div_euclid(400);
    let yoe = y.rem_euclid(400);
    let mp = (m + 9) % 12;
    let doy = (153 * mp + 2) / 5 + d - 1;
    let doe = yoe * 365 + yoe / 4 - yoe / 100 + doy;
    era * 146097 + doe - 719468
}

fn num(s: &[u8]) -> Option<i64> {
    std::str::from_utf8(s).ok()?.parse().ok()
}

/// UTCTime (0x17) / GeneralizedTime (0x18) `…Z` without fractions -> epoch.
fn parse_asn1_time(tag: u8, s: &[u8]) -> Option<i64> {
    let (y, rest) = match tag {
        0x17 if s.len() >= 13 => {
            let yy = num(&s[0..2])?;
            (if yy >= 50 { 1900 + yy } else { 2000 + yy }, &s[2..])
        }
        0x18 if s.len() >= 15 => (num(&s[0..4])?, &s[4..]),
        _ => return None,
    };
    let f = |i: usize| num(&rest[i..i + 2]);
    Some(days_from_civil(y, f(0)?, f(2)?) * DAY + f(4)? * 3600 + f(6)? * 60 + f(8)?)
}

/// RFC 3339 text as the SDK prints it (`2026-09-22T02:37:26+00:00`) -> epoch.
fn parse_rfc3339(s: &str) -> Option<i64> {
    let b = s.as_bytes();
    if b.len() < 19 {
        return None;
    }
    let n = |a: usize, z: usize| num(&b[a..z]);
    let mut t = days_from_civil(n(0, 4)?, n(5, 7)?, n(8, 10)?) * DAY + n(11, 13)? * 3600 + n(14, 16)? * 60 + n(17, 19)?;
    let mut i = 19;
    if b.get(i) == Some(&b'.') {
        i += 1;
        while i < b.len() && b[i].is_ascii_digit() {
            i += 1;
        }
    }
    match b.get(i) {
        Some(b'Z') | Some(b'z') | None => {}
        Some(sign @ (b'+' | b'-')) => {
            let off = n(i + 1, i + 3)? * 3600 + n(i + 4, i + 6)? * 60;
            t += if *sign == b'+' { -off } else { off };
        }
        _ => return None,
    }
    Some(t)
}

// ------------------------------------------------------------------------------------------------------
// world: hierarchies and TSA identities
// ------------------------------------------------------------------------------------------------------

struct Tsa {
    name: &'static str,
    cert: Vec<u8>,
    key: PKey<Private>,
    kind: KeyKind,
    /// certificate of the issuing root
    root: Vec<u8>,
    /// message digest used by the CLI / native signer
    md: &'static str,
}

struct SignChain {
    kind: KeyKind,
    key: PKey<Private>,
    inter: Vec<u8>,
    root: Vec<u8>,
    inter_key: PKey<Private>,
    inter_spec: CertSpec,
}

struct World {
    now: i64,
    chains: Vec<SignChain>,
    tsas: Vec<Tsa>,
    anchors_pem: String,
    src: Vec<u8>,
}

fn wide(mut s: CertSpec) -> CertSpec {
    s.not_before_off = -4000 * DAY;
    s.not_after_off = 4000 * DAY;
    s
}

fn build_world(now: i64) -> Result<World, String> {
    // signing hierarchies (EE key kinds P-256 and Ed25519), CA certificates valid for +-4000 days
    let mut chains = vec![];
    for (i, kind) in [KeyKind::P256, KeyKind::Ed25519].into_iter().enumerate() {
        let mut cs = ChainSpec::simple(2, kind, KeyKind::P256, &format!("c36-{}", kind.name()));
        cs.slot_base = 400 + 10 * i;
        cs.cas = cs.cas.into_iter().map(wide).collect();
        let ch = pki::make_chain(&cs, now)?;
        chains.push(SignChain {
            kind,
            key: ch.keys[0].clone(),
            inter: ch.all_der[1].clone(),
            root: ch.all_der[2].clone(),
            inter_key: ch.keys[1].clone(),
            inter_spec: cs.cas[0].clone(),
        });
    }
    // TSA roots
    let mk_root = |cn: &str, slot: usize| -> Result<(Vec<u8>, PKey<Private>, CertSpec), String> {
        let k = pki::pool_key(KeyKind::P256, slot)?;
        let mut s = wide(CertSpec::ca(cn));
        s.serial_hex = format!("0b{:02x}", slot & 0xff);
        let d = pki::make_cert(&s, &k, KeyKind::P256, None, now)?;
        Ok((d, k, s))
    };
    let (troot, troot_key, troot_spec) = mk_root("Verif TSA Root", 450)?;
    let (uroot, uroot_key, uroot_spec) = mk_root("Verif Unrelated TSA Root", 451)?;
    let issue = |spec: &CertSpec, kind: KeyKind, slot: usize, root_key: &PKey<Private>, root_spec: &CertSpec| -> Result<(Vec<u8>, PKey<Private>), String> {
        let k = pki::pool_key(kind, slot)?;
        let iss = Issuer {
            name_der: pki::name_der(&root_spec.cn, root_spec.org.as_deref()),
            key: root_key,
            key_kind: KeyKind::P256,
            ski: pki::key_id(root_key)?,
        };
        Ok((pki::make_cert(spec, &k, kind, Some(&iss), now)?, k))
    };
    let mut tsas = vec![];
    let mut add = |name: &'static str, spec: CertSpec, kind: KeyKind, slot: usize, trusted: bool, md: &'static str| -> Result<(), String> {
        let (rk, rs, rd) = if trusted { (&troot_key, &troot_spec, &troot) } else { (&uroot_key, &uroot_spec, &uroot) };
        let (cert, key) = issue(&spec, kind, slot, rk, rs)?;
        tsas.push(Tsa { name, cert, key, kind, root: rd.clone(), md });
        Ok(())
    };
    let ser = |mut s: CertSpec, n: u8| {
        s.serial_hex = format!("7a{:02x}", n);
        s
    };
    add("good_p256", ser(wide(CertSpec::tsa("Verif TSA p256")), 1), KeyKind::P256, 460, true, "sha256")?;
    add("good_p384", ser(wide(CertSpec::tsa("Verif TSA p384")), 2), KeyKind::P384, 461, true, "sha384")?;
    add("good_rsa", ser(wide(CertSpec::tsa("Verif TSA rsa")), 3), KeyKind::Rsa2048, 462, true, "sha256")?;
    add("untrusted", ser(wide(CertSpec::tsa("Verif TSA unrelated")), 4), KeyKind::P256, 463, false, "sha256")?;
    for (i, (name, eku)) in [
        ("no_eku_email", Some(oids::EKU_EMAIL_PROTECTION)),
        ("no_eku_ocsp", Some(oids::EKU_OCSP_SIGNING)),
        ("no_eku_other", Some(oids::EKU_DOCUMENT_SIGNING)),
        ("no_eku_absent", None),
    ]
    .into_iter()
    .enumerate()
    {
        let mut s = wide(CertSpec::tsa(&format!("Verif TSA {name}")));
        s.eku = eku.map(|e| vec![e.to_string()]);
        s.eku_critical = false;
        add(name, ser(s, 0x10 + i as u8), KeyKind::P256, 470 + i, true, "sha256")?;
    }
    // TSA certificate whose validity ended 20 days ago (genTime = now is outside)
    let mut narrow = CertSpec::tsa("Verif TSA narrow");
    narrow.not_before_off = -60 * DAY;
    narrow.not_after_off = -20 * DAY;
    add("narrow", ser(narrow, 6), KeyKind::P256, 465, true, "sha256")?;

    let mut anchors = String::new();
    for c in &chains {
        anchors.push_str(&pki::pem_of(&c.root));
    }
    anchors.push_str(&pki::pem_of(&troot));
    Ok(World { now, chains, tsas, anchors_pem: anchors, src: sdk::fixture("no_manifest.jpg") })
}

impl World {
    fn tsa(&self, name: &str) -> &Tsa {
        self.tsas.iter().find(|t| t.name == name).expect("tsa identity")
    }
}

// ------------------------------------------------------------------------------------------------------
// per-thread CLI work directory
// ------------------------------------------------------------------------------------------------------

static NEXT_DIR: AtomicUsize = AtomicUsize::new(0);
thread_local! {
    static TDIR: RefCell<Option<PathBuf>> = const { RefCell::new(None) };
}

fn thread_dir(w: &World) -> Result<PathBuf, String> {
    TDIR.with(|d| {
        if let Some(p) = d.borrow().as_ref() {
            return Ok(p.clone());
        }
        let p = PathBuf::from(format!("{WORK}/t{}", NEXT_DIR.fetch_add(1, Ordering::SeqCst)));
        std::fs::create_dir_all(&p).map_err(|e| e.to_string())?;
        let mut cnf = String::new();
        for t in &w.tsas {
            let f = |ext: &str| p.join(format!("{}.{ext}", t.name));
            std::fs::write(f("pem"), pki::pem_of(&t.cert)).map_err(|e| e.to_string())?;
            std::fs::write(f("key"), pki::key_pem(&t.key)?).map_err(|e| e.to_string())?;
            std::fs::write(f("chain"), pki::pem_of(&t.root)).map_err(|e| e.to_string())?;
            cnf.push_str(&format!(
                "[{n}]\ndir = {d}\nserial = $dir/serial\ncrypto_device = builtin\nsigner_cert = $dir/{n}.pem\ncerts = $dir/{n}.chain\nsigner_key = $dir/{n}.key\nsigner_digest = {md}\ndefault_policy = 1.2.3.4.1\nother_policies = 1.2.3.4.5.6\ndigests = sha256, sha384, sha512\naccuracy = secs:1\nordering = no\ntsa_name = no\ness_cert_id_chain = no\ness_cert_id_alg = sha256\n\n",
                n = t.name,
                d = p.display(),
                md = t.md
            ));
        }
        std::fs::write(p.join("ts.cnf"), cnf).map_err(|e| e.to_string())?;
        std::fs::write(p.join("serial"), "01\n").map_err(|e| e.to_string())?;
        *d.borrow_mut() = Some(p.clone());
        Ok(p)
    })
}

fn cli(dir: &Path, args: &[&str]) -> Result<(), String> {
    let out = Command::new(pki::OPENSSL_CLI)
        .current_dir(dir)
        .args(args)
        .env_remove("OPENSSL_CONF")
        .output()
        .map_err(|e| format!("cannot run openssl: {e}"))?;
    if out.status.success() {
        Ok(())
    } else {
        Err(format!("openssl {} failed: {}", args.first().unwrap_or(&""), String::from_utf8_lossy(&out.stderr).trim()))
    }
}

// ------------------------------------------------------------------------------------------------------
// token production
// ------------------------------------------------------------------------------------------------------

fn sha256(d: &[u8]) -> Vec<u8> {
    sha2::Sha256::digest(d).to_vec()
}

/// TimeStampReq (version 1, SHA-256/384/512 imprint, certReq TRUE, no nonce).
fn ts_query(message: &[u8], imprint_alg: u64) -> Vec<u8> {
    let (o, h) = match imprint_alg {
        2 => ("2.16.840.1.101.3.4.2.2", sha2::Sha384::digest(message).to_vec()),
        3 => ("2.16.840.1.101.3.4.2.3", sha2::Sha512::digest(message).to_vec()),
        _ => ("2.16.840.1.101.3.4.2.1", sha256(message)),
    };
    let alg = der::seq(&[der::oid(o), der::null()]);
    der::seq(&[der::int_u64(1), der::seq(&[alg, der::octet(&h)]), der::boolean(true)])
}

/// `openssl ts -reply` for `message` by the TSA identity `tsa`: raw TimeStampResp DER.
fn cli_reply(w: &World, tsa: &str, message: &[u8], imprint_alg: u64) -> Result<Vec<u8>, String> {
    let dir = thread_dir(w)?;
    std::fs::write(dir.join("q.tsq"), ts_query(message, imprint_alg)).map_err(|e| e.to_string())?;
    let _ = std::fs::remove_file(dir.join("r.tsr"));
    cli(&dir, &["ts", "-reply", "-config", "ts.cnf", "-section", tsa, "-queryfile", "q.tsq", "-out", "r.tsr"])?;
    std::fs::read(dir.join("r.tsr")).map_err(|e| e.to_string())
}

/// `openssl cms -sign -cades` over a TSTInfo: bare TimeStampToken (ContentInfo) DER.
fn cli_cms(w: &World, tsa: &str, tst: &[u8]) -> Result<Vec<u8>, String> {
    let dir = thread_dir(w)?;
    let t = w.tsa(tsa);
    std::fs::write(dir.join("tst.der"), tst).map_err(|e| e.to_string())?;
    let _ = std::fs::remove_file(dir.join("tok.der"));
    cli(
        &dir,
        &[
            "cms", "-sign", "-cades", "-nodetach", "-binary", "-econtent_type", "1.2.840.113549.1.9.16.1.4", "-in", "tst.der",
            "-outform", "DER", "-out", "tok.der", "-signer", &format!("{tsa}.pem"), "-inkey", &format!("{tsa}.key"),
            "-certfile", &format!("{tsa}.chain"), "-md", t.md,
        ],
    )?;
    std::fs::read(dir.join("tok.der")).map_err(|e| e.to_string())
}

fn wrap_resp(token: &[u8]) -> Vec<u8> {
    der::seq(&[der::seq(&[der::int_u64(0)]), token.to_vec()])
}

/// CMS SignedData over `tst` assembled here; `attr_time` = value of the signingTime signed attribute.
fn native_token(t: &Tsa, tst: &[u8], attr_time: Option<i64>) -> Result<Vec<u8>, String> {
    let (md_oid, digest, sd): (&str, Vec<u8>, SigDigest) = match t.md {
        "sha384" => ("2.16.840.1.101.3.4.2.2", sha2::Sha384::digest(tst).to_vec(), SigDigest::Sha384),
        _ => ("2.16.840.1.101.3.4.2.1", sha256(tst), SigDigest::Sha256),
    };
    let attr = |o: &str, v: Vec<u8>| der::seq(&[der::oid(o), der::set(&[v])]);
    let mut attrs = vec![
        attr("1.2.840.113549.1.9.3", der::oid("1.2.840.113549.1.9.16.1.4")),
        attr("1.2.840.113549.1.9.4", der::octet(&digest)),
        // ESS signingCertificateV2 (SHA-256 default algorithm, certHash only)
        attr("1.2.840.113549.1.9.16.2.47", der::seq(&[der::seq(&[der::seq(&[der::octet(&sha256(&t.cert))])])])),
    ];
    if let Some(at) = attr_time {
        attrs.push(attr("1.2.840.113549.1.9.5", der::time(at)));
    }
    attrs.sort(); // DER SET OF
    let body = attrs.concat();
    let to_sign = der::tlv(0x31, &body);
    let sig = pki::sign_x509(&t.key, t.kind, sd, false, &to_sign)?;
    // issuer + serial of the TSA certificate
    let tbs = kids(&t.cert, 0)?[0];
    let kt = kids(&t.cert, tbs)?;
    let span = |o: usize| -> Result<Vec<u8>, String> {
        let (_, s, l) = tlv(&t.cert, o)?;
        Ok(t.cert[o..s + l].to_vec())
    };
    let sid = der::seq(&[span(kt[3])?, span(kt[1])?]);
    let dalg = der::seq(&[der::oid(md_oid)]);
    let salg = if t.kind.is_rsa() {
        der::seq(&[der::oid("1.2.840.113549.1.1.1"), der::null()])
    } else {
        der::seq(&[der::oid(if t.md == "sha384" { "1.2.840.10045.4.3.3" } else { "1.2.840.10045.4.3.2" })])
    };
    let si = der::seq(&[der::int_u64(1), sid, dalg.clone(), der::tlv(0xA0, &body), salg, der::octet(&sig)]);
    let encap = der::seq(&[der::oid("1.2.840.113549.1.9.16.1.4"), der::ctx(0, true, &der::octet(tst))]);
    let certs = der::tlv(0xA0, &[t.cert.clone(), t.root.clone()].concat());
    let sdata = der::seq(&[der::int_u64(3), der::set(&[dalg]), encap, certs, der::set(&[si])]);
    Ok(der::seq(&[der::oid("1.2.840.113549.1.7.2"), der::ctx(0, true, &sdata)]))
}

/// What the harness TSA handed to the SDK.
#[derive(Clone, Debug, Default)]
struct Produced {
    resp: Vec<u8>,
    /// genTime inside the delivered token
    gen: i64,
    /// genTime of the pristine token before a `tst_flip_time` corruption
    gen_orig: i64,
    attr: Option<i64>,
    message: Vec<u8>,
}

fn gen_offset(date: &str, r: &mut SplitMix64) -> i64 {
    match date {
        "back_in" => -(200 * DAY + r.below(400 * DAY as u64) as i64),
        "fwd_in" => 200 * DAY + r.below(400 * DAY as u64) as i64,
        "far_back" => -(1500 * DAY + r.below(1000 * DAY as u64) as i64),
        _ => 0,
    }
}

fn produce(w: &World, c: &Case, message: &[u8]) -> Result<Produced, String> {
    let mut r = SplitMix64::new(c.var ^ 0x70CE);
    let good = match c.tsa_key.as_str() {
        "p384" => "good_p384",
        "rsa" => "good_rsa",
        _ => "good_p256",
    };
    // who signs the final token
    let identity = match c.token.as_str() {
        "no_eku_email" => "no_eku_email",
        "no_eku_ocsp" => "no_eku_ocsp",
        "no_eku_other" => "no_eku_other",
        "no_eku_absent" => "no_eku_absent",
        "untrusted" => "untrusted",
        "outside_tsa" => "narrow",
        _ => good,
    };
    // message the TSA is asked about
    let asked: Vec<u8> = if c.token == "wrong_msg" {
        if r.bool() {
            b"a different message".to_vec()
        } else {
            let mut m = message.to_vec();
            let i = r.usize(m.len().max(1));
            if m.is_empty() {
                m.push(1);
            } else {
                m[i] ^= 1 << r.below(8);
            }
            m
        }
    } else {
        message.to_vec()
    };
    let off = gen_offset(&c.date, &mut r);
    // base response: by the final identity when the CLI accepts it as a TSA, else by the good TSA
    let direct = c.route == "ts" && off == 0;
    let base_identity = if identity.starts_with("no_eku") || !direct { good } else { identity };
    let imprint_alg = (c.var >> 8) % 4; // 0,1 sha256; 2 sha384; 3 sha512
    let base = cli_reply(w, base_identity, &asked, imprint_alg)?;
    let loc = locate(&base, true)?;
    let base_gen = parse_asn1_time(0x18, &base[loc.gen.0..loc.gen.0 + loc.gen.1]).ok_or("genTime unparsable")?;
    let mut resp;
    let mut gen = base_gen;
    if direct && identity == base_identity {
        resp = base;
    } else {
        let mut tst = base[loc.tst.0..loc.tst.0 + loc.tst.1].to_vec();
        if off != 0 {
            gen = w.now + off;
            let g = der::generalized_time(gen);
            let rel = loc.gen.0 - loc.tst.0;
            if g.len() - 2 != loc.gen.1 {
                return Err("genTime length differs".into());
            }
            tst[rel..rel + loc.gen.1].copy_from_slice(&g[2..]);
        }
        let token = match c.route.as_str() {
            "native" => native_token(w.tsa(identity), &tst, Some(gen))?,
            "native_attr_inwin" => {
                let span = 200 * DAY + r.below(400 * DAY as u64) as i64;
                let shift = match c.cert.as_str() {
                    "expired" => -span,
                    "notyet" => span,
                    _ => -(1500 * DAY + span),
                };
                native_token(w.tsa(identity), &tst, Some(w.now + shift))?
            }
            "native_noattr" => native_token(w.tsa(identity), &tst, None)?,
            _ => cli_cms(w, identity, &tst)?,
        };
        resp = wrap_resp(&token);
    }
    let loc = locate(&resp, true)?;
    let gen_orig = gen;
    // corruptions of the finished token
    match c.token.as_str() {
        "sig_flip" => {
            let i = loc.sig.0 + 8 + r.usize(loc.sig.1.saturating_sub(16).max(1));
            resp[i] ^= 1 << r.below(8);
        }
        "tst_flip_hash" => {
            let i = loc.hash.0 + r.usize(loc.hash.1);
            resp[i] ^= 1 << r.below(8);
        }
        "tst_flip_serial" => {
            let i = loc.serial.0 + loc.serial.1 - 1;
            resp[i] ^= 0x01;
        }
        "tst_flip_time" => {
            // rewrite the year without signing again: one year earlier or later
            let s = &mut resp[loc.gen.0..loc.gen.0 + 4];
            let y = num(s).ok_or("year")? + if r.bool() { -1 } else { 1 };
            s.copy_from_slice(format!("{y:04}").as_bytes());
            gen = parse_asn1_time(0x18, &resp[loc.gen.0..loc.gen.0 + loc.gen.1]).ok_or("tampered genTime unparsable")?;
        }
        _ => {}
    }
    Ok(Produced { resp, gen, gen_orig, attr: loc.attr_time, message: message.to_vec() })
}

// ------------------------------------------------------------------------------------------------------
// signing / reading
// ------------------------------------------------------------------------------------------------------

#[derive(Clone, Debug, Default, Serialize)]
struct Obs {
    state: String,
    succ: Vec<String>,
    info: Vec<String>,
    fail: Vec<String>,
    time: Option<i64>,
    time_text: Option<String>,
    read_err: Option<String>,
}

impl Obs {
    fn has(&self, list: &[String], code: &str) -> bool {
        list.iter().any(|c| c == code)
    }
    fn accepted(&self) -> bool {
        self.read_err.is_none() && (self.state == "Valid" || self.state == "Trusted")
    }
    /// everything that is not about the time-stamp itself
    fn cert_verdict(&self) -> (String, Vec<String>, bool, bool, Option<String>) {
        let nf: Vec<String> = self.fail.iter().filter(|c| !c.starts_with("timeStamp.")).cloned().collect();
        (
            self.state.clone(),
            nf,
            self.has(&self.succ, "signingCredential.trusted"),
            self.has(&self.succ, "claimSignature.validated"),
            self.read_err.clone(),
        )
    }
    fn ts_codes(&self) -> Vec<String> {
        let mut v = vec![];
        for (k, l) in [("S", &self.succ), ("I", &self.info), ("F", &self.fail)] {
            for c in l.iter().filter(|c| c.starts_with("timeStamp.")) {
                v.push(format!("{k}:{c}"));
            }
        }
        v
    }
}

const BAD_FAMILY: [&str; 4] = ["timeStamp.mismatch", "timeStamp.untrusted", "timeStamp.outsideValidity", "timeStamp.malformed"];

fn settings(w: &World, c: &Case) -> serde_json::Value {
    let mut s = sdk::base_settings(false);
    sdk::merge(
        &mut s,
        &json!({
            "trust": { "trust_anchors": w.anchors_pem },
            "verify": { "verify_after_sign": false, "verify_timestamp_trust": c.ts_trust }
        }),
    );
    s
}

fn definition(c: &Case) -> (serde_json::Value, Option<BuilderIntent>) {
    let mut d = sdk::simple_definition("c36");
    if c.claim_v == 1 {
        d["claim_version"] = json!(1);
        (d, None)
    } else {
        (d, Some(BuilderIntent::Create(DigitalSourceType::Empty)))
    }
}

fn observe(w: &World, c: &Case, bytes: &[u8]) -> Result<Obs, String> {
    let read = vh::catch(|| sdk::read_with(sdk::context_with(&settings(w, c)), "image/jpeg", bytes))?;
    let mut o = Obs::default();
    match read {
        Err(e) => {
            o.state = "ReadError".into();
            o.read_err = Some(format!("{e:?}").chars().take(80).collect());
        }
        Ok(r) => {
            o.state = sdk::state_name(r.validation_state()).to_string();
            if let Some(a) = r.validation_results().and_then(|v| v.active_manifest()) {
                o.succ = a.success().iter().map(|s| s.code().to_string()).collect();
                o.info = a.informational().iter().map(|s| s.code().to_string()).collect();
                o.fail = a.failure().iter().map(|s| s.code().to_string()).collect();
                o.succ.sort();
                o.info.sort();
                o.fail.sort();
            }
            o.time_text = r.active_manifest().and_then(|m| m.time());
            o.time = o.time_text.as_deref().and_then(parse_rfc3339);
        }
    }
    Ok(o)
}

/// Signing certificate window (offsets from now) for a class, with seeded jitter; margins of >= 50 days to every
/// genTime class and to now.
fn cert_window(class: &str, r: &mut SplitMix64) -> (i64, i64) {
    let j = |r: &mut SplitMix64| r.below(40 * DAY as u64) as i64;
    match class {
        "expired" => (-(700 * DAY + j(r)), -(60 * DAY + j(r))),
        "notyet" => (60 * DAY + j(r), 700 * DAY + j(r)),
        _ => (-(60 * DAY + j(r)), 100 * DAY + j(r)),
    }
}

struct Signed {
    bytes: Vec<u8>,
    produced: Option<Produced>,
    hook_calls: usize,
}

fn sign_case(w: &'static World, c: &Case, ee: &[u8], ee_now: &[u8], ch: &SignChain, with_token: bool) -> Result<Result<Signed, String>, String> {
    let slot: Arc<Mutex<(usize, Option<Result<Produced, String>>)>> = Arc::new(Mutex::new((0, None)));
    let mut signer = PkiSigner::new(ch.key.clone(), ch.kind, vec![ee.to_vec(), ch.inter.clone()])
        .with_first_answer(vec![ee_now.to_vec(), ch.inter.clone()], 1);
    if with_token {
        let slot2 = slot.clone();
        let case = c.clone();
        signer = signer.with_timestamper(Box::new(move |msg: &[u8]| {
            let p = produce(w, &case, msg);
            let mut g = slot2.lock().unwrap();
            g.0 += 1;
            let out = p.as_ref().map(|p| p.resp.clone()).map_err(|e| e.clone());
            g.1 = Some(p);
            Some(out)
        }));
    }
    let (def, intent) = definition(c);
    let res = vh::catch(|| sdk::sign_with(sdk::context_with(&settings(w, c)), &def, intent, &signer, "image/jpeg", &w.src))?;
    let g = slot.lock().unwrap();
    let produced = match &g.1 {
        Some(Ok(p)) => Some(p.clone()),
        Some(Err(e)) => return Ok(Err(format!("harness TSA failed: {e}"))),
        None => None,
    };
    match res {
        Ok(_) if signer.calls() != 2 => Ok(Err(format!("Signer::certs() called {} times (recipe assumes 2)", signer.calls()))),
        Ok(bytes) => Ok(Ok(Signed { bytes, produced, hook_calls: g.0 })),
        Err(e) => Err(format!("sign error: {e:?}")),
    }
}

fn selftest() -> String {
    std::env::var("VERIF_SELFTEST").unwrap_or_default()
}

fn judge(run: &Run, w: &'static World, c: &Case) -> CaseResult {
    let trace = std::env::var("VERIF_C36_TRACE").is_ok();
    let mut r = SplitMix64::new(c.var ^ 0xCE27);
    let ch = &w.chains[(c.var % w.chains.len() as u64) as usize];
    let (nb, na) = cert_window(&c.cert, &mut r);
    let gen_err = |e: String| {
        run.count("generator_error");
        run.inconclusive(format!("generator failed for {c:?}: {e}"));
        Ok(())
    };
    // end-entity certificates: the judged one, and one valid now (same key) for the pre-sign self-check
    let mk_ee = |nb: i64, na: i64| -> Result<Vec<u8>, String> {
        let mut s = CertSpec::ee(&format!("C36 signer {:x}", c.var & 0xffff));
        s.not_before_off = nb;
        s.not_after_off = na;
        s.serial_hex = format!("51{:06x}", c.var & 0xff_ffff);
        let iss = Issuer {
            name_der: pki::name_der(&ch.inter_spec.cn, ch.inter_spec.org.as_deref()),
            key: &ch.inter_key,
            key_kind: KeyKind::P256,
            ski: pki::key_id(&ch.inter_key)?,
        };
        pki::make_cert(&s, &ch.key, ch.kind, Some(&iss), w.now)
    };
    let (ee, ee_now) = match (mk_ee(nb, na), mk_ee(-30 * DAY, 300 * DAY)) {
        (Ok(a), Ok(b)) => (a, b),
        (Err(e), _) | (_, Err(e)) => return gen_err(e),
    };

    // control: same certificate, no token
    let control = match sign_case(w, c, &ee, &ee_now, ch, false) {
        Ok(Ok(s)) => s,
        Ok(Err(e)) | Err(e) => return gen_err(format!("control: {e}")),
    };
    let o0 = match observe(w, c, &control.bytes) {
        Ok(o) => o,
        Err(p) => return Err(Fail::new(format!("C36:panic-{}", vh::core::panic_site(&p)), format!("read of the control panicked: {p}"))),
    };
    // the control itself must behave: valid now -> accepted, else rejected with signingCredential.expired
    let control_ok = if c.cert == "valid" { o0.accepted() } else { !o0.accepted() && o0.has(&o0.fail, "signingCredential.expired") };
    if !control_ok || o0.time.is_some() {
        return Err(Fail::new(
            format!("C36:control-{}-unexpected", c.cert),
            format!("no-token control with a {} signing certificate: {:?}\ncert={}", c.cert, o0, b64(&ee)),
        ));
    }

    // with the token
    let signed = match sign_case(w, c, &ee, &ee_now, ch, true) {
        Ok(Ok(s)) => s,
        Ok(Err(e)) => return gen_err(e),
        Err(e) if e.starts_with("sign error") => {
            // sign-time rejection: acceptable for bad tokens only
            run.count(&format!("sign_rejected:{}", c.token));
            if c.token == "good" {
                return Err(Fail::new("C36:good-token-sign-rejected", format!("signing with a good token failed: {e}")));
            }
            run.nontrivial(c);
            return Ok(());
        }
        Err(p) => return Err(Fail::new(format!("C36:panic-{}", vh::core::panic_site(&p)), format!("sign panicked: {p}"))),
    };
    let Some(p) = signed.produced.clone() else {
        return gen_err("send_timestamp_request was never called".into());
    };
    if signed.hook_calls != 1 {
        run.count("hook_called_more_than_once");
    }
    let mut o = match observe(w, c, &signed.bytes) {
        Ok(o) => o,
        Err(pn) => {
            return Err(Fail::new(
                format!("C36:panic-{}", vh::core::panic_site(&pn)),
                format!("read panicked: {pn}\ntoken={}", b64(&p.resp)),
            ))
        }
    };

    // ---- classification (independent of the SDK) ----
    let trust_on = c.ts_trust && c.claim_v >= 2;
    let imprint_ok = !matches!(c.token.as_str(), "wrong_msg" | "tst_flip_hash");
    let cms_ok = !matches!(c.token.as_str(), "sig_flip" | "tst_flip_hash" | "tst_flip_time" | "tst_flip_serial");
    let literal_good = imprint_ok && cms_ok;
    let tsa_ok = match c.token.as_str() {
        t if t.starts_with("no_eku") => !trust_on,
        "untrusted" => !trust_on,
        "outside_tsa" => false,
        _ => true,
    };
    // TSA-certificate classes with TSA trust switched off (setting, or v1 claim): the property demands neither
    // acceptance nor rejection; the SDK's own answer (timeStamp.trusted or a failure code) selects which of the two
    // complete rule sets the case is held to.
    let tsa_cert_class = c.token.starts_with("no_eku") || c.token == "untrusted";
    let sdk_took_it = o.has(&o.succ, "timeStamp.trusted") && !BAD_FAMILY.iter().any(|b| o.has(&o.info, b) || o.has(&o.fail, b));
    let good = literal_good && if tsa_cert_class && !trust_on { sdk_took_it } else { tsa_ok };
    if tsa_cert_class && !trust_on {
        run.count(&format!("trust-off:{}:{}", c.token, if sdk_took_it { "used" } else { "refused" }));
    }
    let nontrivial = !good || c.cert != "valid";
    let in_window = p.gen >= w.now + nb && p.gen <= w.now + na;
    let attr_differs = p.attr.map(|a| (a - p.gen).abs() > 2).unwrap_or(false);

    // ---- self-test: corrupt the SDK's answer ----
    match selftest().as_str() {
        "usebad" if c.token == "wrong_msg" => {
            o.time = Some(p.gen);
            o.succ.push("timeStamp.validated".into());
            o.succ.push("timeStamp.trusted".into());
            o.info.retain(|x| !x.starts_with("timeStamp."));
        }
        "expired_ok" if good && c.cert == "expired" && !in_window => {
            o.state = "Trusted".into();
            o.fail.clear();
            o.read_err = None;
        }
        _ => {}
    }

    let class = format!("{}:{}:{}:v{}:{}", c.token, c.date, c.cert, c.claim_v, if trust_on { "tsatrust" } else { "notsatrust" });
    run.count(&format!("token:{}", c.token));
    run.count(&format!("date:{}", c.date));
    run.count(&format!("route:{}", c.route));
    run.count(&format!("cert:{}", c.cert));
    run.count(&format!("claim_v{}", c.claim_v));
    run.count(&format!("tsa_key:{}", c.tsa_key));
    run.count(if good { "class:good-token" } else { "class:bad-token" });
    run.count(&format!(
        "answer:{}:{}:{} -> {} time={} {}",
        c.token,
        if good { if in_window { "good-in-window" } else { "good-out-of-window" } } else { "bad" },
        c.cert,
        o.state,
        match o.time {
            None => "none",
            Some(t) if t == p.gen => "genTime",
            Some(t) if Some(t) == p.attr => "signingTimeAttr",
            Some(_) => "other",
        },
        o.ts_codes().join(",")
    ));
    if nontrivial {
        run.nontrivial(c);
    }
    if trace {
        eprintln!("{class} route={} gen_off={}d attr_differs={attr_differs} in_window={in_window}\n   control={:?}\n   obs={:?}", c.route, (p.gen - w.now) / DAY, o0, o);
    }
    let art = || {
        format!(
            "case={c:?}\nobserved={}\ncontrol={}\ngenTime={} signingTimeAttr={:?} now={} cert_window=[{},{}]\ntoken_b64={}\nmessage_b64={}\nsigning_cert_b64={}\nsigning_intermediate_b64={}",
            serde_json::to_string(&o).unwrap_or_default(),
            serde_json::to_string(&o0).unwrap_or_default(),
            p.gen,
            p.attr,
            w.now,
            w.now + nb,
            w.now + na,
            b64(&p.resp),
            b64(&p.message),
            b64(&ee),
            b64(&ch.inter)
        )
    };
    let bad_code = BAD_FAMILY.iter().any(|b| o.has(&o.info, b) || o.has(&o.fail, b));

    if good {
        // (1) reported as validated (and trusted: the TSA is anchored or trust is not asked for)
        if !o.has(&o.succ, "timeStamp.validated") || bad_code {
            return Err(Fail::new(
                format!("C36:good-token-not-validated-{}", c.route),
                format!("a token with matching imprint and verifying CMS signature is not reported timeStamp.validated (codes {:?})\n{}", o.ts_codes(), art()),
            ));
        }
        if !o.has(&o.succ, "timeStamp.trusted") {
            return Err(Fail::new(
                format!("C36:good-token-not-trusted-{}", c.route),
                format!("good token from an acceptable TSA lacks timeStamp.trusted (codes {:?})\n{}", o.ts_codes(), art()),
            ));
        }
        // (openssl ts stamps genTime and the signingTime attribute at two instants: they can differ by a second)
        let time_is_attr = p.attr.is_some() && o.time == p.attr && p.attr != Some(p.gen);
        // (2) an expired / not-yet-valid certificate is accepted only if genTime lies inside its validity
        if !in_window && c.cert != "valid" && o.accepted() {
            let sig = if time_is_attr {
                format!("C36:{}-cert-accepted-via-cms-signingtime-attribute", c.cert)
            } else {
                format!("C36:{}-cert-accepted-with-token-outside-window", c.cert)
            };
            return Err(Fail::new(
                sig,
                format!("{} signing certificate accepted ({}) although the token's genTime {} lies outside the certificate validity (signature_info.time {:?}, CMS signingTime attribute {:?})\n{}", c.cert, o.state, p.gen, o.time_text, p.attr, art()),
            ));
        }
        // (3) signing time == genTime
        if o.time != Some(p.gen) {
            let sig = if time_is_attr {
                "C36:signing-time-from-cms-attribute-not-gentime".to_string()
            } else {
                format!("C36:good-token-time-not-gentime-{}", c.route)
            };
            return Err(Fail::new(
                sig,
                format!("signature_info.time = {:?} ({:?}) but the token's genTime is {} (signingTime attribute {:?})\n{}", o.time_text, o.time, p.gen, p.attr, art()),
            ));
        }
        // (4) certificate validity is judged at genTime
        match (c.cert.as_str(), in_window) {
            ("valid", true) | ("expired", true) => {
                if !o.accepted() || o.has(&o.fail, "signingCredential.expired") {
                    return Err(Fail::new(
                        format!("C36:{}-cert-good-token-in-window-rejected", c.cert),
                        format!("{} signing certificate, good token with genTime inside its validity: state {} failures {:?}\n{}", c.cert, o.state, o.fail, art()),
                    ));
                }
            }
            ("expired", false) | ("notyet", false) => {} // checked in (2)
            _ => {
                // valid now but not at genTime / not-yet-valid accepted at a future genTime: not stated, recorded
                run.count(&format!("recorded:{}:{}:{}", c.cert, if in_window { "in" } else { "out" }, o.state));
            }
        }
        Ok(())
    } else {
        // (0) a certificate without the timeStamping EKU must not be accepted as a TSA
        if c.token.starts_with("no_eku") && !bad_code && o.has(&o.succ, "timeStamp.trusted") {
            return Err(Fail::new(
                format!("C36:tsa-cert-{}-accepted-as-tsa", c.token),
                format!("verify_timestamp_trust is on, the token is signed by a certificate whose EKU is not timeStamping ({}), yet it is reported timeStamp.trusted; state {} (control {}), signature_info.time {:?}\n{}", c.token, o.state, o0.state, o.time_text, art()),
            ));
        }
        // (1) a failure / informational code of the time-stamp family
        if !bad_code {
            return Err(Fail::new(
                format!("C36:bad-token-{}-no-timestamp-code", c.token),
                format!("bad token ({}) but no timeStamp.mismatch/untrusted/outsideValidity/malformed code (codes {:?})\n{}", c.token, o.ts_codes(), art()),
            ));
        }
        if o.has(&o.succ, "timeStamp.trusted") || (!literal_good && o.has(&o.succ, "timeStamp.validated")) {
            return Err(Fail::new(
                format!("C36:bad-token-{}-reported-validated", c.token),
                format!("bad token ({}) reported with a time-stamp success code (codes {:?})\n{}", c.token, o.ts_codes(), art()),
            ));
        }
        // (2) the signing time is not taken from it
        if !literal_good {
            if let Some(t) = o.time {
                if t == p.gen || t == p.gen_orig || Some(t) == p.attr {
                    return Err(Fail::new(
                        format!("C36:bad-token-{}-time-used", c.token),
                        format!("signature_info.time = {:?} is taken from a token that does not match / verify ({})\n{}", o.time_text, c.token, art()),
                    ));
                }
            }
        } else {
            run.count(&format!("recorded:time-of-{}:{}", c.token, if o.time.is_some() { "shown" } else { "absent" }));
        }
        // (3) certificate verdict identical to the no-token control
        if o.cert_verdict() != o0.cert_verdict() {
            let (v, v0) = (o.cert_verdict(), o0.cert_verdict());
            let only_extra_cred_failures = v0.1.iter().all(|f| v.1.contains(f))
                && v.1.iter().filter(|f| !v0.1.contains(f)).all(|f| f.starts_with("signingCredential."))
                && v.1.len() > v0.1.len();
            let tsa_problem = c.token.starts_with("no_eku") || c.token == "untrusted" || c.token == "outside_tsa";
            let sig = if tsa_problem && only_extra_cred_failures {
                // the TSA certificate's own profile failure is logged as a failure of the manifest
                "C36:tsa-cert-failure-leaks-into-signing-credential-verdict".to_string()
            } else if o.accepted() && !o0.accepted() {
                format!("C36:bad-token-{}-rescues-{}-cert", c.token, c.cert)
            } else {
                format!("C36:bad-token-{}-changes-verdict", c.token)
            };
            return Err(Fail::new(
                sig,
                format!("verdict with a bad token ({}) differs from the no-token control: {:?} vs {:?}\n{}", c.token, o.cert_verdict(), o0.cert_verdict(), art()),
            ));
        }
        Ok(())
    }
}


// ------------------------------------------------------------------------------------------------------
// history stream: a genuine token of signature A replayed on signature B, read in generated orders on one thread
// ------------------------------------------------------------------------------------------------------

#[derive(Clone, Debug, Serialize, Deserialize, PartialEq, Eq, Hash)]
struct HistCase {
    /// read order on one thread: 0 = asset A (genuine token T_A), 1 = asset B (carries a replay of T_A)
    order: Vec<u8>,
    /// per read: use the async reader (block_on of a current-thread runtime, same thread)
    async_read: Vec<bool>,
    /// now (A: certificate valid now, openssl ts token) | back (A: expired certificate, genTime inside its window)
    mode: String,
    /// B's signing certificate: valid | expired (mode back: always expired, window contains T_A's genTime)
    b_cert: String,
    /// B signed with the same key / hierarchy as A (fresh certificate) or with the other hierarchy
    same_cred: bool,
    claim_v: u8,
    ts_trust: bool,
    tsa_key: String,
    var: u64,
}

fn make_ee(w: &World, ch: &SignChain, tag: u64, nb: i64, na: i64) -> Result<Vec<u8>, String> {
    let mut s = CertSpec::ee(&format!("C36 signer {:x}", tag & 0xffff));
    s.not_before_off = nb;
    s.not_after_off = na;
    s.serial_hex = format!("51{:06x}", tag & 0xff_ffff);
    let iss = Issuer {
        name_der: pki::name_der(&ch.inter_spec.cn, ch.inter_spec.org.as_deref()),
        key: &ch.inter_key,
        key_kind: KeyKind::P256,
        ski: pki::key_id(&ch.inter_key)?,
    };
    pki::make_cert(&s, &ch.key, ch.kind, Some(&iss), w.now)
}

enum Tok {
    None,
    Fresh,
    Replay(Vec<u8>),
}

/// Sign with the judged certificate `ee`; the hook answers nothing / a fresh token per `c` / a stored response.
fn sign_hist(w: &'static World, c: &Case, title: &str, ch: &SignChain, ee: &[u8], tok: Tok) -> Result<(Vec<u8>, Option<Produced>), String> {
    let ee_now = make_ee(w, ch, c.var ^ 0x77, -30 * DAY, 300 * DAY)?;
    let slot: Arc<Mutex<Option<Result<Produced, String>>>> = Arc::new(Mutex::new(None));
    let mut signer = PkiSigner::new(ch.key.clone(), ch.kind, vec![ee.to_vec(), ch.inter.clone()])
        .with_first_answer(vec![ee_now, ch.inter.clone()], 1);
    match tok {
        Tok::None => {}
        Tok::Fresh => {
            let (slot2, case) = (slot.clone(), c.clone());
            signer = signer.with_timestamper(Box::new(move |msg: &[u8]| {
                let p = produce(w, &case, msg);
                let out = p.as_ref().map(|p| p.resp.clone()).map_err(|e| e.clone());
                *slot2.lock().unwrap() = Some(p);
                Some(out)
            }));
        }
        Tok::Replay(resp) => {
            signer = signer.with_timestamper(Box::new(move |_msg: &[u8]| Some(Ok(resp.clone()))));
        }
    }
    let (mut def, intent) = definition(c);
    def["title"] = json!(title);
    let res = vh::catch(|| sdk::sign_with(sdk::context_with(&settings(w, c)), &def, intent, &signer, "image/jpeg", &w.src))
        .map_err(|p| format!("sign panicked: {p}"))?;
    let produced = match slot.lock().unwrap().take() {
        Some(Ok(p)) => Some(p),
        Some(Err(e)) => return Err(format!("harness TSA failed: {e}")),
        None => None,
    };
    let bytes = res.map_err(|e| format!("sign failed: {e:?}"))?;
    if signer.calls() != 2 {
        return Err(format!("Signer::certs() called {} times (recipe assumes 2)", signer.calls()));
    }
    Ok((bytes, produced))
}

fn obs_of(read: c2pa::Result<c2pa::Reader>) -> Obs {
    let mut o = Obs::default();
    match read {
        Err(e) => {
            o.state = "ReadError".into();
            o.read_err = Some(format!("{e:?}").chars().take(80).collect());
        }
        Ok(r) => {
            o.state = sdk::state_name(r.validation_state()).to_string();
            if let Some(a) = r.validation_results().and_then(|v| v.active_manifest()) {
                o.succ = a.success().iter().map(|s| s.code().to_string()).collect();
                o.info = a.informational().iter().map(|s| s.code().to_string()).collect();
                o.fail = a.failure().iter().map(|s| s.code().to_string()).collect();
                o.succ.sort();
                o.info.sort();
                o.fail.sort();
            }
            o.time_text = r.active_manifest().and_then(|m| m.time());
            o.time = o.time_text.as_deref().and_then(parse_rfc3339);
        }
    }
    o
}

/// Async reader driven to completion on the calling thread.
fn observe_async(w: &World, c: &Case, bytes: &[u8]) -> Result<Obs, String> {
    let rt = tokio::runtime::Builder::new_current_thread().build().map_err(|e| e.to_string())?;
    let read = vh::catch(|| {
        rt.block_on(async {
            c2pa::Reader::from_context(sdk::context_with(&settings(w, c)))
                .with_stream_async("image/jpeg", std::io::Cursor::new(bytes.to_vec()))
                .await
        })
    })?;
    Ok(obs_of(read))
}

fn judge_history(run: &Run, w: &'static World, h: &HistCase) -> CaseResult {
    let trace = std::env::var("VERIF_C36_TRACE").is_ok();
    let mut r = SplitMix64::new(h.var ^ 0x4157);
    let gen_err = |e: String| {
        run.count("generator_error");
        run.inconclusive(format!("generator failed for {h:?}: {e}"));
        Ok(())
    };
    if h.order.is_empty() || h.order.len() != h.async_read.len() {
        return gen_err("malformed history case".into());
    }
    let back = h.mode == "back";
    // the Case that drives settings / definition / token production of both signings
    let c = Case {
        token: "good".into(),
        date: if back { "back_in".into() } else { "now".into() },
        route: if back { "native".into() } else { "ts".into() },
        cert: if back { "expired".into() } else { "valid".into() },
        claim_v: h.claim_v,
        ts_trust: h.ts_trust,
        tsa_key: h.tsa_key.clone(),
        var: h.var,
    };
    let ia = (h.var % w.chains.len() as u64) as usize;
    let ib = if h.same_cred { ia } else { (ia + 1) % w.chains.len() };
    let (cha, chb) = (&w.chains[ia], &w.chains[ib]);
    let (a_nb, a_na) = cert_window(&c.cert, &mut r);
    let b_class = if back { "expired" } else { h.b_cert.as_str() };
    let (b_nb, b_na) = cert_window(b_class, &mut r);
    let (ee_a, ee_b) = match (make_ee(w, cha, h.var, a_nb, a_na), make_ee(w, chb, h.var ^ 0xB0B, b_nb, b_na)) {
        (Ok(a), Ok(b)) => (a, b),
        (Err(e), _) | (_, Err(e)) => return gen_err(e),
    };
    // A with its genuine token, B's control without token, B with the replay of A's response
    let (bytes_a, pa) = match sign_hist(w, &c, "c36 asset A", cha, &ee_a, Tok::Fresh) {
        Ok((b, Some(p))) => (b, p),
        Ok((_, None)) => return gen_err("send_timestamp_request was never called for A".into()),
        Err(e) => return gen_err(format!("A: {e}")),
    };
    let bytes_b0 = match sign_hist(w, &c, "c36 asset B", chb, &ee_b, Tok::None) {
        Ok((b, _)) => b,
        Err(e) => return gen_err(format!("B control: {e}")),
    };
    let bytes_b = match sign_hist(w, &c, "c36 asset B", chb, &ee_b, Tok::Replay(pa.resp.clone())) {
        Ok((b, _)) => b,
        Err(e) => {
            // a sign-time rejection of the foreign token is acceptable
            run.count("history:sign_rejected");
            if e.starts_with("sign failed") {
                run.nontrivial(h);
                return Ok(());
            }
            return gen_err(format!("B: {e}"));
        }
    };
    let panic_fail = |p: String| Fail::new(format!("C36:panic-{}", vh::core::panic_site(&p)), format!("read panicked in history {h:?}: {p}\ntoken={}", b64(&pa.resp)));
    // control of B: read before the sequence (no token inside, cannot prime anything)
    let o0 = observe(w, &c, &bytes_b0).map_err(panic_fail)?;
    let b_in_window = pa.gen >= w.now + b_nb && pa.gen <= w.now + b_na;
    run.count(&format!("history:mode:{}", h.mode));
    run.count(&format!("history:order:{}", h.order.iter().map(|x| if *x == 0 { 'A' } else { 'B' }).collect::<String>()));
    run.count(&format!("history:b_cert:{b_class}{}", if b_in_window { ":token-time-inside-window" } else { "" }));
    run.count(if h.same_cred { "history:same-credential" } else { "history:other-credential" });
    run.nontrivial(h);

    let mut seen_a: Option<Obs> = None;
    let mut trail = vec![];
    for (i, (which, asy)) in h.order.iter().zip(&h.async_read).enumerate() {
        let bytes = if *which == 0 { &bytes_a } else { &bytes_b };
        let mut o = if *asy { observe_async(w, &c, bytes) } else { observe(w, &c, bytes) }.map_err(panic_fail)?;
        run.count(if *asy { "history:read:async" } else { "history:read:sync" });
        // self-test: emulate a memo keyed on the token bytes only (a validated token is replayed on the next signature)
        if selftest() == "memo" && *which == 1 {
            if let Some(a) = &seen_a {
                o.succ.retain(|x| !x.starts_with("timeStamp."));
                o.succ.extend(a.succ.iter().filter(|x| x.starts_with("timeStamp.")).cloned());
                o.info.retain(|x| !x.starts_with("timeStamp."));
                o.time = a.time;
                o.time_text = a.time_text.clone();
                if b_in_window {
                    o.state = "Trusted".into();
                    o.fail.clear();
                }
            }
        }
        let name = if *which == 0 { "A" } else { "B" };
        trail.push(format!("{name}{}:{}[{}]t={:?}", if *asy { "(async)" } else { "" }, o.state, o.ts_codes().join(","), o.time));
        let art = |o: &Obs| {
            format!(
                "history={h:?}\nread #{i} ({name}); reads so far: {}\nobserved={}\ncontrol_B={}\nT_A genTime={} now={} B_cert_window=[{},{}]\ntoken_b64={}\nmessage_A_b64={}\ncert_A_b64={}\ncert_B_b64={}",
                trail.join(" -> "),
                serde_json::to_string(o).unwrap_or_default(),
                serde_json::to_string(&o0).unwrap_or_default(),
                pa.gen,
                w.now,
                w.now + b_nb,
                w.now + b_na,
                b64(&pa.resp),
                b64(&pa.message),
                b64(&ee_a),
                b64(&ee_b)
            )
        };
        let bad_code = BAD_FAMILY.iter().any(|b| o.has(&o.info, b) || o.has(&o.fail, b));
        if *which == 0 {
            // the good class
            if !o.has(&o.succ, "timeStamp.validated") || !o.has(&o.succ, "timeStamp.trusted") || bad_code {
                return Err(Fail::new("C36:history-genuine-token-not-validated", format!("asset A with its own token: codes {:?}\n{}", o.ts_codes(), art(&o))));
            }
            if o.time != Some(pa.gen) {
                let sig = if pa.attr.is_some() && o.time == pa.attr && pa.attr != Some(pa.gen) {
                    "C36:signing-time-from-cms-attribute-not-gentime"
                } else {
                    "C36:history-genuine-token-time-not-gentime"
                };
                return Err(Fail::new(sig, format!("asset A: signature_info.time {:?} but genTime {}\n{}", o.time_text, pa.gen, art(&o))));
            }
            if !o.accepted() || o.has(&o.fail, "signingCredential.expired") {
                return Err(Fail::new("C36:history-genuine-token-cert-rejected", format!("asset A (certificate valid at genTime): state {} failures {:?}\n{}", o.state, o.fail, art(&o))));
            }
            seen_a = Some(o);
        } else {
            // the wrong-imprint class, whatever was read before on this thread
            let after = if seen_a.is_some() { "after-A" } else { "before-A" };
            if !bad_code || o.has(&o.succ, "timeStamp.validated") || o.has(&o.succ, "timeStamp.trusted") {
                return Err(Fail::new(
                    format!("C36:history-foreign-token-accepted-{after}"),
                    format!("asset B carries the token of signature A; read {after} on the same thread it is reported {:?} (no mismatch-family code or a success code)\n{}", o.ts_codes(), art(&o)),
                ));
            }
            if let Some(t) = o.time {
                if t == pa.gen || Some(t) == pa.attr {
                    return Err(Fail::new(
                        format!("C36:history-foreign-token-time-used-{after}"),
                        format!("asset B: signature_info.time {:?} is taken from the token of signature A\n{}", o.time_text, art(&o)),
                    ));
                }
            }
            if o.cert_verdict() != o0.cert_verdict() {
                let sig = if o.accepted() && !o0.accepted() {
                    format!("C36:history-foreign-token-rescues-{b_class}-cert-{after}")
                } else {
                    format!("C36:history-foreign-token-changes-verdict-{after}")
                };
                return Err(Fail::new(sig, format!("asset B: verdict {:?} differs from its no-token control {:?}\n{}", o.cert_verdict(), o0.cert_verdict(), art(&o))));
            }
        }
    }
    if trace {
        eprintln!("history {} {} b={b_class} same={} v{}: {}", h.mode, if b_in_window { "inwin" } else { "outwin" }, h.same_cred, h.claim_v, trail.join(" -> "));
    }
    Ok(())
}

fn history_cases(seed: u64, quick: bool) -> Vec<HistCase> {
    let mut s = SplitMix64::new(seed ^ 0x4157_0123);
    let fixed: [&[u8]; 7] = [&[0, 1], &[0, 0, 1], &[1, 0, 1], &[0, 1, 0, 1], &[0, 1, 1], &[1, 0], &[0, 0, 1, 1]];
    let mut orders: Vec<Vec<u8>> = fixed.iter().map(|o| o.to_vec()).collect();
    for _ in 0..(if quick { 3 } else { 40 }) {
        let n = 2 + s.usize(3);
        let mut o: Vec<u8> = (0..n).map(|_| s.below(2) as u8).collect();
        if !o.contains(&1) {
            o[n - 1] = 1;
        }
        if !o.contains(&0) {
            o[0] = 0;
        }
        orders.push(o);
    }
    let mut v = vec![];
    let reps = if quick { 1 } else { 2 };
    for rep in 0..reps {
        for (k, order) in orders.iter().enumerate() {
            for (m, mode) in ["back", "now"].into_iter().enumerate() {
                let n = k + m + rep;
                // quick: one configuration per (order, mode), rotating; thorough: all of same/other credential x v1/v2
                let combos: Vec<(bool, u8)> = if quick { vec![(n % 2 == 0, if n % 3 == 0 { 1 } else { 2 })] } else { vec![(true, 2), (false, 2), (true, 1), (false, 1)] };
                for (same_cred, claim_v) in combos {
                    let async_read: Vec<bool> = (0..order.len()).map(|i| (n + i) % 3 == 2 || (!quick && s.chance(1, 3))).collect();
                    v.push(HistCase {
                        order: order.clone(),
                        async_read,
                        mode: mode.into(),
                        b_cert: if mode == "back" || s.bool() { "expired".into() } else { "valid".into() },
                        same_cred,
                        claim_v,
                        ts_trust: !s.chance(1, 4),
                        tsa_key: (*s.pick(&["p256", "p256", "p384", "rsa"])).into(),
                        var: s.next_u64(),
                    });
                }
            }
        }
    }
    v
}

// ------------------------------------------------------------------------------------------------------
// enumeration
// ------------------------------------------------------------------------------------------------------

const TOKENS: [&str; 12] = [
    "good", "wrong_msg", "sig_flip", "tst_flip_hash", "tst_flip_time", "tst_flip_serial", "no_eku_email", "no_eku_ocsp", "no_eku_other", "no_eku_absent",
    "untrusted", "outside_tsa",
];
const DATES: [&str; 4] = ["now", "back_in", "fwd_in", "far_back"];
const CERTS: [&str; 3] = ["valid", "expired", "notyet"];

fn routes_for(token: &str, date: &str) -> Vec<&'static str> {
    if token == "outside_tsa" {
        // narrow TSA certificate, genTime = now or anywhere else outside it
        return if date == "now" { vec!["ts", "native"] } else { vec!["native", "cms"] };
    }
    if date == "now" {
        if token.starts_with("no_eku") {
            vec!["cms", "native"]
        } else if token == "good" {
            vec!["ts", "ts", "cms", "native", "native_noattr", "native_attr_inwin"]
        } else {
            vec!["ts", "ts", "cms", "native", "native_noattr"]
        }
    } else {
        vec!["cms", "native", "native_noattr"]
    }
}

fn all_cases(seed: u64, reps: u64) -> Vec<Case> {
    let mut s = SplitMix64::new(seed ^ 0xC36);
    let mut v = vec![];
    for rep in 0..reps {
        for token in TOKENS {
            for date in DATES {
                for cert in CERTS {
                    for claim_v in [2u8, 1] {
                        for ts_trust in [true, false] {
                            let routes = routes_for(token, date);
                            let route = routes[((rep as usize) + s.usize(routes.len())) % routes.len()];
                            let tsa_key = *s.pick(&["p256", "p256", "p384", "rsa"]);
                            v.push(Case {
                                token: token.into(),
                                date: date.into(),
                                route: route.into(),
                                cert: cert.into(),
                                claim_v,
                                ts_trust,
                                tsa_key: tsa_key.into(),
                                var: s.next_u64(),
                            });
                        }
                    }
                }
            }
        }
    }
    v
}

/// The cases every run must contain (the statements of the property, one each).
fn core_cases(seed: u64) -> Vec<Case> {
    let mut s = SplitMix64::new(seed ^ 0xC0DE);
    let mut v = vec![];
    let mut push = |token: &str, date: &str, route: &str, cert: &str, claim_v: u8, ts_trust: bool, key: &str| {
        v.push(Case { token: token.into(), date: date.into(), route: route.into(), cert: cert.into(), claim_v, ts_trust, tsa_key: key.into(), var: s.next_u64() });
    };
    for claim_v in [2u8, 1] {
        push("good", "now", "ts", "valid", claim_v, true, "p256");
        push("good", "now", "ts", "expired", claim_v, true, "rsa");
        push("good", "now", "ts", "notyet", claim_v, true, "p384");
        push("good", "back_in", "native", "expired", claim_v, true, "p256");
        push("good", "back_in", "native_noattr", "expired", claim_v, true, "rsa");
        push("good", "back_in", "cms", "expired", claim_v, true, "p256");
        push("good", "far_back", "native", "expired", claim_v, true, "p384");
        push("good", "fwd_in", "native", "notyet", claim_v, true, "p256");
        push("wrong_msg", "now", "ts", "valid", claim_v, true, "p256");
        push("wrong_msg", "back_in", "native", "expired", claim_v, true, "p256");
        push("sig_flip", "back_in", "native", "expired", claim_v, true, "rsa");
        push("sig_flip", "now", "ts", "valid", claim_v, true, "p256");
        push("tst_flip_time", "now", "ts", "expired", claim_v, true, "p256");
        push("tst_flip_hash", "now", "ts", "valid", claim_v, true, "p384");
        push("tst_flip_serial", "back_in", "native", "expired", claim_v, false, "p256");
        push("good", "now", "native_attr_inwin", "expired", claim_v, true, "p256");
        push("good", "now", "native_attr_inwin", "notyet", claim_v, true, "rsa");
        push("no_eku_email", "back_in", "native", "expired", claim_v, true, "p256");
        push("no_eku_ocsp", "back_in", "native", "expired", claim_v, true, "p256");
        push("no_eku_other", "back_in", "native", "expired", claim_v, true, "p256");
        push("no_eku_absent", "back_in", "native", "expired", claim_v, true, "p256");
        push("no_eku_email", "now", "cms", "valid", claim_v, false, "p256");
        push("no_eku_other", "now", "cms", "valid", claim_v, true, "p256");
        push("no_eku_absent", "now", "native", "valid", claim_v, true, "p256");
        push("untrusted", "back_in", "native", "expired", claim_v, true, "p256");
        push("untrusted", "now", "ts", "valid", claim_v, true, "p256");
        push("untrusted", "back_in", "native", "expired", claim_v, false, "p256");
        push("outside_tsa", "now", "ts", "valid", claim_v, true, "p256");
        push("outside_tsa", "far_back", "native", "expired", claim_v, true, "p256");
    }
    v
}

fn main() {
    vh::quiet_panics();
    let run = Run::from_args("C36", "exploration");
    run.set_rule("token class (good / other message / flipped CMS signature byte / flipped TSTInfo byte: imprint, genTime year, serial / TSA certificate whose EKU is emailProtection, OCSPSigning, documentSigning or absent / TSA under an unconfigured root / genTime outside the TSA certificate) x genTime (now, inside the expired window, inside the not-yet-valid window, before every window) x signing certificate (valid, expired, not yet valid now) x claim v1 (sigTst) / v2 (sigTst2) x verify_timestamp_trust x TSA key (P-256, P-384, RSA-2048) x signing route (openssl ts, openssl cms re-sign, CMS assembled in the harness with signingTime attribute = genTime / absent / moved into the certificate window while genTime = now) x imprint digest (SHA-256/384/512); non-trivial = bad token or signing certificate not valid now. History stream: asset A signed with a genuine token T_A, asset B (same or other credential, valid or expired certificate whose window contains T_A's genTime) whose TSA answer is a replay of A's response, read on one thread in generated orders of 2-4 reads over {A,B} with the sync or async reader; every history case is non-trivial");
    run.assume("certificate windows, genTime classes and 'now' are separated by at least 50 days, so the wall clock of the machine only has to be right to within weeks");
    run.assume("the openssl 3.0 CLI (/usr/bin/openssl ts / cms) produces standard RFC 3161 / CAdES tokens; Builder::sign asks Signer::certs() exactly twice (asserted) so that a certificate valid now can pass the pre-sign check while the judged certificate (same key) is embedded");
    run.assume("history stream: the reads of one case run sequentially on one worker thread (sync reader, and the async reader driven by a current-thread tokio runtime on that same thread); state kept by the SDK per thread or per process between reads is therefore in scope, state keyed on other threads is not");
    run.assume("TSA without timeStamping EKU / TSA under an unconfigured root are 'bad' only when verify_timestamp_trust is on and the claim is v2 (the SDK documents that v1 claims and the switched-off setting skip TSA trust); their signature_info.time is recorded, not judged (the property's literal condition - imprint and CMS signature - holds for them)");

    let _ = std::fs::remove_dir_all(WORK);
    if let Err(e) = std::fs::create_dir_all(WORK) {
        run.inconclusive(format!("cannot create {WORK}: {e}"));
        run.finish();
    }
    let now = pki::now_epoch();
    let world: &'static World = match build_world(now) {
        Ok(w) => Box::leak(Box::new(w)),
        Err(e) => {
            run.inconclusive(format!("world generation failed: {e}"));
            run.finish();
        }
    };

    let mut cases = core_cases(run.seed);
    if run.quick() {
        // 60 core cases + a seeded sample of the product
        let mut all = all_cases(run.seed, 1);
        let mut s = SplitMix64::new(run.seed ^ 0x5A);
        for _ in 0..20 {
            if all.is_empty() {
                break;
            }
            let i = s.usize(all.len());
            cases.push(all.swap_remove(i));
        }
    } else {
        cases.extend(all_cases(run.seed, 3));
    }
    let threads = std::thread::available_parallelism().map(|n| n.get()).unwrap_or(4).min(run.scale(8, 16));
    run.drive_enum_par("timestamps", cases, threads, |c| judge(&run, world, c));
    // every history case runs all its reads on the one worker thread that picked it
    run.drive_enum_par("history", history_cases(run.seed, run.quick()), threads, |h| judge_history(&run, world, h));
    if run.replay.is_none() {
        for k in ["history:mode:back", "history:mode:now", "history:read:sync", "history:read:async", "history:order:AB", "history:order:BAB"] {
            if run.hist_get(k) == 0 {
                run.inconclusive(format!("history class {k} was never exercised"));
            }
        }
        for t in TOKENS {
            if run.hist_get(&format!("token:{t}")) == 0 {
                run.inconclusive(format!("token class {t} was never exercised"));
            }
        }
    }
    let _ = std::fs::remove_dir_all(WORK);
    run.finish();
}
