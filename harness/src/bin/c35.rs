//! C35 — results do not depend on stream chunking, and I/O errors are never hidden.
//!
//! (a) `Chunky` streams (pieces of 1..=k bytes, k in {1,2,3,7,random}) around the source / destination /
//!     ingredient / hashed stream of {sign, read, add ingredient, placeholder flow}: the result must equal the
//!     plain-`Cursor` run (read-back verdict, cross-run normalised report, output size, output bytes with the
//!     manifest removed; for reads the same-bytes report).
//! (b) `Faulty` streams failing the k-th I/O call, for every k up to the fault-free call count (dry run),
//!     kinds {Other, UnexpectedEof, Interrupted, WriteZero, Ok(0)} (+ sticky Other / sticky Ok(0)):
//!     the operation must return `Err(_)`, or `Ok` with a result equal to the fault-free one (the failed call
//!     was not needed / was retried); never panic. A premature `Ok(0)` *read* is an end-of-file: then an
//!     `Ok` result that differs is tolerated unless it is Valid/Trusted.

use std::{
    collections::HashMap,
    io::{self, Cursor, Read, Seek, SeekFrom, Write},
    sync::{Arc, Mutex, OnceLock},
};

use c2pa::{Builder, BuilderIntent, DigitalSourceType, HashRange, Reader};
use serde::{Deserialize, Serialize};
use serde_json::json;
use vh::{
    sdk,
    streams::{Chunky, FaultKind, FaultPlan, FaultStats, Faulty, OpKind},
    CaseResult, Fail, Run,
};

// ------------------------------------------------------------------------------------------------
// streams
// ------------------------------------------------------------------------------------------------

/// In-memory stream whose buffer stays reachable after the SDK consumed / dropped the wrapper.
#[derive(Clone)]
struct Shared(Arc<Mutex<Cursor<Vec<u8>>>>);

impl Shared {
    fn new(v: Vec<u8>) -> Self {
        Shared(Arc::new(Mutex::new(Cursor::new(v))))
    }
    fn contents(&self) -> Vec<u8> {
        self.0.lock().unwrap().get_ref().clone()
    }
}
impl Read for Shared {
    fn read(&mut self, buf: &mut [u8]) -> io::Result<usize> {
        self.0.lock().unwrap().read(buf)
    }
}
impl Write for Shared {
    fn write(&mut self, buf: &[u8]) -> io::Result<usize> {
        self.0.lock().unwrap().write(buf)
    }
    fn flush(&mut self) -> io::Result<()> {
        self.0.lock().unwrap().flush()
    }
}
impl Seek for Shared {
    fn seek(&mut self, pos: SeekFrom) -> io::Result<u64> {
        self.0.lock().unwrap().seek(pos)
    }
}

trait Rws: Read + Write + Seek + Send {}
impl<T: Read + Write + Seek + Send> Rws for T {}
type Stream = Box<dyn Rws>;

/// Self-test only: an adapter that behaves like code that ignores I/O errors (error => "end of file" /
/// "all written" / "position 0").
struct Swallow<R>(R);
impl<R: Read> Read for Swallow<R> {
    fn read(&mut self, buf: &mut [u8]) -> io::Result<usize> {
        Ok(self.0.read(buf).unwrap_or(0))
    }
}
impl<R: Write> Write for Swallow<R> {
    fn write(&mut self, buf: &[u8]) -> io::Result<usize> {
        Ok(self.0.write(buf).unwrap_or(buf.len()))
    }
    fn flush(&mut self) -> io::Result<()> {
        let _ = self.0.flush();
        Ok(())
    }
}
impl<R: Seek> Seek for Swallow<R> {
    fn seek(&mut self, pos: SeekFrom) -> io::Result<u64> {
        Ok(self.0.seek(pos).unwrap_or(0))
    }
}

#[derive(Clone, Debug, Serialize, Deserialize, PartialEq, Eq, Hash)]
enum Wrap {
    Plain,
    /// max piece (0 = drawn from the seed), seed
    Chunky(u32, u64),
    Faulty(Option<FaultPlan>),
}

/// `stats` receives the call counts of a `Wrap::Faulty` stream.
fn wrap(inner: Shared, w: &Wrap, selftest: bool, stats: &Arc<FaultStats>) -> Stream {
    match w {
        Wrap::Plain => Box::new(inner),
        Wrap::Chunky(0, seed) => {
            let mut rng = vh::rng::SplitMix64::new(*seed);
            Box::new(Chunky::random(inner, &mut rng))
        }
        Wrap::Chunky(k, seed) => Box::new(Chunky::new(inner, *k as usize, *seed)),
        Wrap::Faulty(plan) => {
            let f = Faulty::with_stats(inner, *plan, stats.clone());
            if selftest {
                Box::new(Swallow(f))
            } else {
                Box::new(f)
            }
        }
    }
}

// ------------------------------------------------------------------------------------------------
// operations
// ------------------------------------------------------------------------------------------------

#[derive(Clone, Debug, Serialize, Deserialize, PartialEq, Eq, Hash)]
struct IoOp {
    /// sign | read | ingredient | hashflow
    kind: String,
    format: String,
    /// fixture, or `signed:<fixture>|<format>` (signed by the harness)
    file: String,
}

impl IoOp {
    fn new(kind: &str, format: &str, file: &str) -> Self {
        IoOp { kind: kind.into(), format: format.into(), file: file.into() }
    }
    fn name(&self) -> String {
        format!("{}:{}", self.kind, self.file)
    }
}

fn asset(name: &str) -> Arc<Vec<u8>> {
    static CACHE: OnceLock<Mutex<HashMap<String, Arc<Vec<u8>>>>> = OnceLock::new();
    let cache = CACHE.get_or_init(|| Mutex::new(HashMap::new()));
    if let Some(a) = cache.lock().unwrap().get(name) {
        return a.clone();
    }
    let bytes = if let Some(rest) = name.strip_prefix("signed:") {
        let (file, format) = rest.split_once('|').expect("signed:<file>|<format>");
        sdk::sign_simple(format, &asset(file), "c35 prepared").unwrap_or_else(|e| panic!("prepare {name}: {e}"))
    } else if let Some(kind) = name.strip_prefix("synth:") {
        // the simplest valid instance of a container from the shared synthesiser (a few hundred bytes)
        vh::assets::synth_default(kind).bytes
    } else if let Some(rest) = name.strip_prefix("head64k:") {
        // the first 64 KiB of a large audio fixture: tag/metadata blocks intact, payload cut (copied verbatim by the SDK)
        let mut b = sdk::fixture(rest);
        b.truncate(65536);
        b
    } else {
        sdk::fixture(name)
    };
    // several threads may prepare the same asset concurrently (signing is randomised): the first insert wins
    // and everybody uses that one
    cache.lock().unwrap().entry(name.to_string()).or_insert_with(|| Arc::new(bytes)).clone()
}

/// What an operation produced, in a form comparable between runs.
#[derive(Clone, Debug, PartialEq, Eq)]
struct Res {
    /// validation state of the read / of the read-back of the produced asset ("Unreadable:<err>" if that fails)
    state: String,
    codes: Vec<String>,
    /// size of the produced asset (0 for reads)
    size: usize,
    /// the normalised report (JSON text)
    report: String,
    /// digests of the produced asset with the manifest store (0) blanked in place, (1) removed by the SDK's
    /// writer; 0 for reads and for a method that is not stable between two plain runs of the operation
    content: [u64; 2],
}

impl Res {
    fn valid(&self) -> bool {
        self.state == "Valid" || self.state == "Trusted"
    }
    fn diff(&self, other: &Res) -> &'static str {
        if self.state != other.state || self.codes != other.codes {
            "verdict"
        } else if self.size != other.size {
            "size"
        } else if self.content != other.content {
            "content"
        } else if self.report != other.report {
            "report"
        } else {
            "none"
        }
    }
    /// Short description for messages: everything but the report text, plus the first differing report paths.
    fn brief(&self) -> String {
        format!("{{state {} codes {:?} size {} content {:016x}/{:016x}}}", self.state, self.codes, self.size, self.content[0], self.content[1])
    }
    fn report_diff(&self, other: &Res) -> String {
        let a: serde_json::Value = serde_json::from_str(&self.report).unwrap_or(serde_json::Value::Null);
        let b: serde_json::Value = serde_json::from_str(&other.report).unwrap_or(serde_json::Value::Null);
        let mut out = vec![];
        json_diff("", &a, &b, &mut out);
        out.truncate(6);
        out.join("; ")
    }
}

fn json_diff(path: &str, a: &serde_json::Value, b: &serde_json::Value, out: &mut Vec<String>) {
    use serde_json::Value::*;
    if out.len() > 8 || a == b {
        return;
    }
    match (a, b) {
        (Object(x), Object(y)) => {
            for (k, v) in x {
                match y.get(k) {
                    Some(w) => json_diff(&format!("{path}/{k}"), v, w, out),
                    None => out.push(format!("{path}/{k} only in faulted/chunked run")),
                }
            }
            for k in y.keys() {
                if !x.contains_key(k) {
                    out.push(format!("{path}/{k} missing"));
                }
            }
        }
        (Array(x), Array(y)) if x.len() == y.len() => {
            for (i, (v, w)) in x.iter().zip(y).enumerate() {
                json_diff(&format!("{path}/{i}"), v, w, out);
            }
        }
        _ => {
            let short = |v: &serde_json::Value| {
                let mut s = v.to_string();
                if s.len() > 80 {
                    s.truncate(80);
                    s.push('…');
                }
                s
            };
            out.push(format!("{path}: {} vs fault-free {}", short(a), short(b)));
        }
    }
}

/// `region`: where the harness itself put the manifest (placeholder flow); otherwise the store is located in
/// the output (contiguous stores are blanked in place, segmented ones removed through the SDK's writer).
fn res_of_output(format: &str, out: &[u8], region: Option<(usize, usize)>) -> Res {
    let (state, codes, report) = match sdk::read(format, out) {
        Ok(r) => {
            let v = sdk::verdict(&r);
            let mut codes: Vec<String> = v.codes.iter().map(|c| norm_urns(c)).collect();
            codes.sort();
            (v.state, codes, canon(&sdk::report_cross_run(&r)))
        }
        Err(e) => (format!("Unreadable:{}", error_variant(&e)), vec![], String::new()),
    };
    let blank = |at: usize, len: usize| {
        let mut v = out.to_vec();
        v[at..at + len].iter_mut().for_each(|b| *b = 0);
        vh::digest(&v)
    };
    let located = match region {
        Some(r) => Some(r),
        None => vh::catch(|| sdk::store_of(format, out).ok().and_then(|st| sdk::find_sub(out, &st).map(|p| (p, st.len())))).ok().flatten(),
    };
    let blanked = match located {
        Some((at, len)) => blank(at, len),
        None => 0,
    };
    let removed = if region.is_some() {
        0 // the harness embedded the manifest itself (offsets not adjusted): nothing for the SDK's remover to do
    } else {
        match vh::catch(|| c2pa::verif_hooks::remove_manifest(format, out)) {
            Ok(Ok(stripped)) => vh::digest(&stripped),
            Ok(Err(e)) => vh::digest(&format!("strip-error:{}", error_variant(&e))),
            Err(_) => vh::digest(&"strip-panic"),
        }
    };
    let content = [blanked, removed];
    Res { state, codes, size: out.len(), report, content }
}

/// Canonical text of a JSON value: object keys sorted (the SDK's maps are HashMaps), manifest URNs renamed
/// in order of first appearance.
fn canon(v: &serde_json::Value) -> String {
    fn sort(v: &serde_json::Value) -> serde_json::Value {
        match v {
            serde_json::Value::Object(m) => {
                let mut keys: Vec<&String> = m.keys().collect();
                keys.sort();
                let mut out = serde_json::Map::new();
                for k in keys {
                    out.insert(k.clone(), sort(&m[k]));
                }
                serde_json::Value::Object(out)
            }
            serde_json::Value::Array(a) => serde_json::Value::Array(a.iter().map(sort).collect()),
            other => other.clone(),
        }
    }
    sort(v).to_string()
}

/// Replace every `urn:c2pa:<uuid>` / `urn:uuid:<uuid>` by a placeholder (the label of a freshly signed manifest is random).
fn norm_urns(s: &str) -> String {
    let mut out = String::with_capacity(s.len());
    let mut rest = s;
    loop {
        let pos = match (rest.find("urn:c2pa:"), rest.find("urn:uuid:")) {
            (Some(a), Some(b)) => a.min(b),
            (Some(a), None) => a,
            (None, Some(b)) => b,
            (None, None) => break,
        };
        out.push_str(&rest[..pos]);
        out.push_str("urn:X");
        let tail = &rest[pos + 9..];
        let n = tail.find(|c: char| !(c.is_ascii_hexdigit() || c == '-')).unwrap_or(tail.len());
        rest = &tail[n..];
    }
    out.push_str(rest);
    out
}

fn error_variant(e: &c2pa::Error) -> String {
    let d = format!("{e:?}");
    d.split(|c: char| !(c.is_alphanumeric() || c == '_')).next().unwrap_or("Error").to_string()
}

fn is_bmff(format: &str) -> bool {
    matches!(format, "video/mp4" | "audio/mp4" | "image/avif" | "image/heic" | "image/heif" | "video/quicktime")
}

fn definition() -> String {
    sdk::simple_definition("c35").to_string()
}

struct Exec {
    result: Result<c2pa::Result<Res>, String>,
    /// counters of the faulty stream (source / dest / stream, whichever carried `Wrap::Faulty`)
    stats: Arc<FaultStats>,
    /// (number of I/O calls on the faulty stream seen so far, phase) at every progress callback
    phases: Vec<(u64, String)>,
}

impl Exec {
    /// Progress phase during which I/O call number `k` was made ("start" = before the first callback).
    fn phase_at(&self, k: u64) -> String {
        let mut p = "start";
        for (n, ph) in &self.phases {
            if *n <= k {
                p = ph;
            } else {
                break;
            }
        }
        p.to_string()
    }
}

/// `src_w` wraps the stream the SDK reads (source / asset / ingredient / hashed stream); `dst_w` the
/// destination of `sign`.
fn exec(op: &IoOp, src_w: &Wrap, dst_w: &Wrap, selftest: bool) -> Exec {
    let a = asset(&op.file);
    let stats = FaultStats::new_shared();
    let phases: Arc<Mutex<Vec<(u64, String)>>> = Arc::new(Mutex::new(vec![]));
    let context = || {
        let (st, ph) = (stats.clone(), phases.clone());
        sdk::context().with_progress_callback(move |phase, _, _| {
            ph.lock().unwrap().push((st.ops(), format!("{phase:?}")));
            true
        })
    };
    let result = vh::catch(|| -> c2pa::Result<Res> {
        match op.kind.as_str() {
            "replace" => {
                // handler entry point: write a store into an asset that already carries one (its own store again)
                let store = sdk::store_of(&op.format, &a)?;
                let mut s = wrap(Shared::new(a.to_vec()), src_w, selftest, &stats);
                let dst = Shared::new(Vec::new());
                let mut d = wrap(dst.clone(), dst_w, selftest, &stats);
                c2pa::jumbf_io::save_jumbf_to_stream(&op.format, &mut s, &mut d, &store)?;
                drop(d);
                let out = dst.contents();
                let mut r = res_of_output(&op.format, &out, None);
                r.content = [vh::digest(&out), 0]; // nothing is randomised here: the bytes themselves must agree
                Ok(r)
            }
            "loadjumbf" => {
                let mut s = wrap(Shared::new(a.to_vec()), src_w, selftest, &stats);
                let st = c2pa::jumbf_io::load_jumbf_from_stream(&op.format, &mut s)?;
                Ok(Res { state: "store".into(), codes: vec![], size: st.len(), report: String::new(), content: [vh::digest(&st), 0] })
            }
            // "resign": the source already carries a manifest signed by the harness (the old store must be replaced)
            "sign" | "resign" => {
                let mut s = wrap(Shared::new(a.to_vec()), src_w, selftest, &stats);
                let dst = Shared::new(Vec::new());
                let mut d = wrap(dst.clone(), dst_w, selftest, &stats);
                let mut b = Builder::from_context(context()).with_definition(definition())?;
                b.set_intent(BuilderIntent::Create(DigitalSourceType::Empty));
                b.sign(sdk::signer("ed25519").as_ref(), &op.format, &mut s, &mut d)?;
                drop(d);
                if let Ok(p) = std::env::var("VERIF_C35_DUMP") {
                    let _ = std::fs::write(format!("{p}-{}", stats.fired()), dst.contents());
                }
                Ok(res_of_output(&op.format, &dst.contents(), None))
            }
            "read" => {
                let s = wrap(Shared::new(a.to_vec()), src_w, selftest, &stats);
                let r = Reader::from_context(context()).with_stream(&op.format, s)?;
                let v = sdk::verdict(&r);
                Ok(Res { state: v.state, codes: v.codes, size: 0, report: canon(&sdk::report_same_bytes(&r)), content: [0, 0] })
            }
            "ingredient" => {
                let mut s = wrap(Shared::new(a.to_vec()), src_w, selftest, &stats);
                let mut b = Builder::from_context(context());
                let ing = b.add_ingredient_from_stream(
                    json!({"title": "ingredient", "relationship": "componentOf", "instance_id": "xmp:iid:fixed"}).to_string(),
                    &op.format,
                    &mut s,
                )?;
                let mut codes: Vec<String> = vec![];
                let mut state = "no-manifest".to_string();
                if let Some(vr) = ing.validation_results() {
                    state = sdk::state_name(vr.validation_state()).to_string();
                    if let Some(am) = vr.active_manifest() {
                        codes.extend(am.failure().iter().map(|s| format!("F:{}", s.code())));
                        codes.extend(am.success().iter().map(|s| format!("S:{}", s.code())));
                        codes.extend(am.informational().iter().map(|s| format!("I:{}", s.code())));
                    }
                }
                codes.sort();
                let mut v = serde_json::to_value(&*ing).unwrap_or(serde_json::Value::Null);
                sdk::strip_keys(&mut v, &["validation_time", "validationTime"]);
                Ok(Res { state, codes, size: ing.manifest_data().map(|m| m.len()).unwrap_or(0), report: canon(&v), content: [0, 0] })
            }
            "hashflow" => {
                // placeholder -> embed -> update_hash_from_stream(wrapped stream) -> sign_embeddable -> patch
                let ctx = context().with_signer(sdk::signer("ed25519"));
                let mut b = Builder::from_context(ctx).with_definition(definition())?;
                b.set_intent(BuilderIntent::Create(DigitalSourceType::Empty));
                let ph = b.placeholder(&op.format)?;
                let at = if is_bmff(&op.format) { u32::from_be_bytes([a[0], a[1], a[2], a[3]]) as usize } else { 2 };
                let mut out = Vec::with_capacity(a.len() + ph.len());
                out.extend_from_slice(&a[..at]);
                out.extend_from_slice(&ph);
                out.extend_from_slice(&a[at..]);
                if !is_bmff(&op.format) {
                    b.set_data_hash_exclusions(vec![HashRange::new(at as u64, ph.len() as u64)])?;
                }
                let mut s = wrap(Shared::new(out.clone()), src_w, selftest, &stats);
                b.update_hash_from_stream(&op.format, &mut s)?;
                drop(s);
                let m = b.sign_embeddable(&op.format)?;
                if m.len() != ph.len() {
                    return Err(c2pa::Error::OtherError(format!("harness: embeddable {} != placeholder {}", m.len(), ph.len()).into()));
                }
                out[at..at + m.len()].copy_from_slice(&m);
                Ok(res_of_output(&op.format, &out, Some((at, m.len()))))
            }
            other => Err(c2pa::Error::BadParam(format!("harness: unknown op {other}"))),
        }
    });
    let phases = phases.lock().unwrap().clone();
    Exec { result, stats, phases }
}

fn masked(mut r: Res, mask: [bool; 2]) -> Res {
    for i in 0..2 {
        if !mask[i] {
            r.content[i] = 0;
        }
    }
    r
}

/// Fault-free result with the content-comparison methods that are not reproducible for this operation
/// masked out (e.g. blanking leaves the PNG chunk CRC, removal leaves the RIFF C2PA chunk).
fn reference(op: &IoOp) -> Result<(Res, [bool; 2]), String> {
    static REFS: OnceLock<Mutex<HashMap<IoOp, Result<(Res, [bool; 2]), String>>>> = OnceLock::new();
    let refs = REFS.get_or_init(|| Mutex::new(HashMap::new()));
    if let Some(r) = refs.lock().unwrap().get(op) {
        return r.clone();
    }
    let run1 = exec(op, &Wrap::Plain, &Wrap::Plain, false).result;
    let run2 = exec(op, &Wrap::Plain, &Wrap::Plain, false).result;
    let r = match (run1, run2) {
        (Ok(Ok(mut a)), Ok(Ok(mut b))) => {
            let mask = [a.content[0] == b.content[0], a.content[1] == b.content[1]];
            a = masked(a, mask);
            b = masked(b, mask);
            if a == b {
                Ok((a, mask))
            } else {
                let mut m = format!("two plain runs differ in {} ({} vs {}) [{}]", a.diff(&b), a.brief(), b.brief(), a.report_diff(&b));
                m.truncate(600);
                Err(m)
            }
        }
        (Ok(Err(e)), _) | (_, Ok(Err(e))) => Err(format!("plain run failed: {e:?}")),
        (Err(p), _) | (_, Err(p)) => Err(format!("plain run panicked: {p}")),
    };
    refs.lock().unwrap().insert(op.clone(), r.clone());
    r
}

// ------------------------------------------------------------------------------------------------
// (a) chunking
// ------------------------------------------------------------------------------------------------

#[derive(Clone, Debug, Serialize, Deserialize, PartialEq, Eq, Hash)]
struct ChunkCase {
    op: IoOp,
    /// source | dest | both  (reads / ingredient / hashflow: "source" is the one stream)
    target: String,
    /// 0 = random maximum from the seed
    max_piece: u32,
    seed: u64,
}

/// Handler label for signatures, from the fixture's file extension ("signed:x.mp3|audio/mpeg" -> "mp3", "x.avif" -> "bmff").
fn ext_label(op: &IoOp) -> String {
    let f = op.file.split('|').next().unwrap_or(&op.file);
    let f = f.rsplit(':').next().unwrap_or(f);
    let ext = f.rsplit('.').next().unwrap_or("x").to_lowercase();
    // one label per format handler of the SDK
    match ext.as_str() {
        "mp4" | "mov" | "heic" | "heif" | "avif" | "m4a" => "bmff".to_string(),
        "webp" | "wav" | "avi" => "riff".to_string(),
        "jpg" | "jpeg" => "jpeg".to_string(),
        "tif" | "tiff" => "tiff".to_string(),
        _ => ext,
    }
}

fn judge_chunk(run: &Run, c: &ChunkCase, selftest: bool) -> CaseResult {
    let (want, mask) = match reference(&c.op) {
        Ok(r) => r,
        Err(_) => {
            run.count("skipped_no_reference");
            return Ok(());
        }
    };
    let ch = Wrap::Chunky(c.max_piece, c.seed);
    let (sw, dw) = match c.target.as_str() {
        "source" => (ch.clone(), Wrap::Plain),
        "dest" => (Wrap::Plain, ch.clone()),
        _ => (ch.clone(), Wrap::Chunky(c.max_piece, c.seed ^ 0xD57)),
    };
    run.count(&format!("chunk_{}_{}", c.op.kind, c.target));
    run.count(&format!("chunk_piece_{}", if c.max_piece == 0 { "random".to_string() } else { c.max_piece.to_string() }));
    if c.max_piece <= 3 {
        run.nontrivial(c);
    }
    let what = format!("{} with {} in pieces of <= {} bytes (seed {})", c.op.name(), c.target, c.max_piece, c.seed);
    match exec(&c.op, &sw, &dw, false).result {
        Err(p) => Err(Fail::new(format!("C35:panic:{}", vh::core::panic_site(&p)), format!("{what}: panic {p}"))),
        Ok(Err(e)) => Err(Fail::new(
            format!("C35:chunked-{}-{}-{}-fails-{}", c.op.kind, ext_label(&c.op), c.target, error_variant(&e)),
            format!("{what}: the plain-cursor run succeeds but the chunked run fails: {e:?}"),
        )),
        Ok(Ok(got)) => {
            let mut got = masked(got, mask);
            if selftest && c.max_piece == 1 {
                got.size += 1;
            }
            if got == want {
                Ok(())
            } else {
                Err(Fail::new(
                    format!("C35:chunked-{}-{}-{}-{}-differs", c.op.kind, ext_label(&c.op), c.target, got.diff(&want)),
                    format!("{what}: result {} differs in {} from the plain-cursor result {} [{}]", got.brief(), got.diff(&want), want.brief(), got.report_diff(&want)),
                ))
            }
        }
    }
}

// ------------------------------------------------------------------------------------------------
// (b) faults
// ------------------------------------------------------------------------------------------------

#[derive(Clone, Debug, Serialize, Deserialize, PartialEq, Eq, Hash)]
struct FaultCase {
    op: IoOp,
    /// source | dest
    target: String,
    plan: FaultPlan,
}

fn plan_name(p: &FaultPlan) -> String {
    format!("{}{}", p.kind.name(), if p.sticky { "-sticky" } else { "" })
}

fn judge_fault(run: &Run, c: &FaultCase, selftest: bool) -> CaseResult {
    let (want, mask) = match reference(&c.op) {
        Ok(r) => r,
        Err(_) => {
            run.count("skipped_no_reference");
            return Ok(());
        }
    };
    let f = Wrap::Faulty(Some(c.plan));
    let (sw, dw) = if c.target == "dest" { (Wrap::Plain, f) } else { (f, Wrap::Plain) };
    let ex = exec(&c.op, &sw, &dw, selftest);
    let (fired, fired_on) = (ex.stats.fired() > 0, ex.stats.fired_on());
    let phase = ex.phase_at(c.plan.at);
    let kind = plan_name(&c.plan);
    let what = format!("{} {} stream, I/O call #{} (phase {phase}) fails with {kind}", c.op.name(), c.target, c.plan.at);
    let res = match ex.result {
        Err(p) => return Err(Fail::new(format!("C35:panic:{}", vh::core::panic_site(&p)), format!("{what}: panic {p}"))),
        Ok(r) => r.map(|g| masked(g, mask)),
    };
    if !fired {
        // the planned call was not reached (operation ended earlier) or Ok(0) does not apply to that call
        run.count("fault_not_fired");
        return Ok(());
    }
    let on = fired_on.map(|o| o.name()).unwrap_or("?");
    run.count(&format!("fault_{}_{}_{}", c.op.kind, c.target, on));
    run.count(&format!("faultkind_{kind}"));
    run.count(&format!("fault_in_phase_{phase}"));
    if c.plan.at >= 2 {
        run.nontrivial(c);
    }
    let what = format!("{what} (a {on} call)");
    match res {
        Err(_) => {
            run.count("outcome_err");
            Ok(())
        }
        Ok(got) if got == want => {
            run.count("outcome_ok_equal");
            run.count(&format!("tolerated_{kind}_{on}"));
            Ok(())
        }
        Ok(got) => {
            let verdict_equal = got.state == want.state && got.codes == want.codes;
            let class = if verdict_equal {
                "same-verdict"
            } else if got.valid() {
                "valid-other-verdict"
            } else if got.state.starts_with("Unreadable") {
                "unreadable-output"
            } else {
                "not-valid"
            };
            // Ok(0) from read is the end-of-file signal; Err(UnexpectedEof) is what read_exact itself makes of
            // one, so code that treats it as "no more data" cannot tell the injected one apart: both mean the
            // operation saw a shorter asset, not an error.
            let eof_like = fired_on == Some(OpKind::Read) && matches!(c.plan.kind, FaultKind::ShortZero | FaultKind::UnexpectedEof);
            let signing = matches!(c.op.kind.as_str(), "sign" | "resign" | "replace" | "hashflow");
            let label = if signing || c.op.kind == "loadjumbf" { format!("-{}", ext_label(&c.op)) } else { String::new() };
            if eof_like {
                if signing {
                    // The SDK signed the view that ended at the premature end-of-file. Recorded, not judged.
                    run.count(&format!("outcome_premature_eof_signed_{class}"));
                    return Ok(());
                }
                if got.valid() && !verdict_equal {
                    return Err(Fail::new(
                        format!("C35:{}-premature-eof-in-{phase}-ok-{class}", c.op.kind),
                        format!("{what}: Ok with {} although the fault-free verdict is {} [{}]", got.brief(), want.brief(), got.report_diff(&want)),
                    ));
                }
                run.count(&format!("outcome_premature_eof_{class}"));
                return Ok(());
            }
            let fault = if c.plan.kind == FaultKind::ShortZero { format!("zero-{on}") } else { format!("{on}-error") };
            // reads / imports: two stages are enough to tell the code paths apart (the I/O of a hash pass starts
            // before its first callback, so finer phase names would split one cause over several signatures)
            let stage = if signing || c.op.kind == "loadjumbf" {
                phase.clone()
            } else if phase.starts_with("Verifying") {
                "validate".to_string()
            } else {
                "load".to_string()
            };
            Err(Fail::new(
                format!("C35:{}{label}-{}-{fault}-in-{stage}-hidden-ok-{class}", c.op.kind, c.target),
                format!("{what}: the operation returned Ok with {} (differs in {} from the fault-free {}) [{}]", got.brief(), got.diff(&want), want.brief(), got.report_diff(&want)),
            ))
        }
    }
}

/// Fault-free number of I/O calls on the target stream.
fn op_count(op: &IoOp, target: &str) -> Option<u64> {
    let f = Wrap::Faulty(None);
    let (sw, dw) = if target == "dest" { (Wrap::Plain, f) } else { (f, Wrap::Plain) };
    let ex = exec(op, &sw, &dw, false);
    match ex.result {
        Ok(Ok(_)) => Some(ex.stats.ops()),
        _ => None,
    }
}

fn ks_for(n: u64, all_upto: u64, sample: u64, rng: &mut vh::rng::SplitMix64) -> Vec<u64> {
    if n <= all_upto {
        return (0..n).collect();
    }
    let mut v: Vec<u64> = (0..all_upto).collect();
    // stratified: one k per equal-width stratum of the remaining range, plus the last calls
    let rest = n - all_upto;
    let strata = sample.min(rest);
    for i in 0..strata {
        let lo = all_upto + rest * i / strata;
        let hi = all_upto + rest * (i + 1) / strata;
        v.push(lo + rng.below((hi - lo).max(1)));
    }
    for t in 1..=4u64 {
        if n >= t {
            v.push(n - t);
        }
    }
    v.sort();
    v.dedup();
    v
}

/// The wrappers themselves must be transparent (Chunky) / fire exactly as planned (Faulty) before anything is judged.
fn wrappers_selfcheck() -> Result<(), String> {
    use vh::streams::Counting;
    let data = vh::rng::SplitMix64::new(7).bytes(5000);
    for k in [1usize, 2, 3, 7, 64] {
        let mut c = Chunky::new(Cursor::new(data.clone()), k, 42);
        let mut out = vec![];
        c.read_to_end(&mut out).map_err(|e| e.to_string())?;
        if out != data {
            return Err(format!("Chunky({k}) read changed the data"));
        }
        c.seek(SeekFrom::Start(100)).map_err(|e| e.to_string())?;
        let mut b = [0u8; 50];
        c.read_exact(&mut b).map_err(|e| e.to_string())?;
        if b[..] != data[100..150] {
            return Err(format!("Chunky({k}) seek+read_exact wrong"));
        }
        let mut w = Chunky::new(Cursor::new(Vec::new()), k, 43);
        w.write_all(&data).map_err(|e| e.to_string())?;
        if w.into_inner().into_inner() != data {
            return Err(format!("Chunky({k}) write changed the data"));
        }
    }
    let mut f = Faulty::new(Cursor::new(data.clone()), FaultPlan::nth(2, FaultKind::Other));
    let st = f.stats();
    let mut b = [0u8; 10];
    let r0 = f.read(&mut b).is_ok();
    let r1 = f.seek(SeekFrom::Start(0)).is_ok();
    let r2 = f.read(&mut b).is_err();
    let r3 = f.read(&mut b).map(|n| n == 10 && b[..] == data[..10]).unwrap_or(false);
    if !(r0 && r1 && r2 && r3 && st.ops() == 4 && st.fired() == 1 && st.fired_on() == Some(OpKind::Read)) {
        return Err("Faulty one-shot plan misbehaves".into());
    }
    let mut f = Faulty::new(Cursor::new(data.clone()), FaultPlan::nth(1, FaultKind::ShortZero).sticky());
    let ok = f.read(&mut b).map(|n| n == 10).unwrap_or(false) && matches!(f.read(&mut b), Ok(0)) && f.seek(SeekFrom::Start(0)).is_ok() && matches!(f.read(&mut b), Ok(0));
    if !ok {
        return Err("Faulty sticky Ok(0) plan misbehaves".into());
    }
    let mut c = Counting::new(Cursor::new(data));
    let log = c.log();
    let _ = c.read(&mut b);
    let _ = c.seek(SeekFrom::End(-1));
    if log.len() != 2 || log.trace()[1].result != Ok(4999) {
        return Err("Counting trace wrong".into());
    }
    Ok(())
}

fn main() {
    vh::quiet_panics();
    let run = Run::from_args("C35", "fault_enumeration");
    let selftest = std::env::var("VERIF_SELFTEST").ok().as_deref() == Some("1");
    run.set_rule("operations = {sign, read (asset signed by the harness + repository fixtures), add_ingredient_from_stream, placeholder->update_hash_from_stream->sign_embeddable} over the writable fixture formats, always with the correct format hint. (a) every operation with its source / destination / both streams wrapped in Chunky with max piece 1,2,3,7 and a seeded random maximum; (b) a Counting/Faulty dry run gives the fault-free number N of I/O calls (read+write+seek+flush) on the wrapped stream; cases = every k<N up to a bound, then one k per stratum of the rest plus the last 4 calls (quick: k<300 + 24 strata for assets <= 300 KB, k<40 + 12 strata for larger ones; thorough: k<4000 + 400 strata, larger assets k<1000 + 200 strata; for larger assets additionally the one-shot Other error at every k<400 of sign sources in quick / every k<12000 of every stream in thorough) x {Other, UnexpectedEof, Interrupted, WriteZero, Ok(0), sticky Other, sticky Ok(0) (thorough only)} on the source, the destination or the ingredient / hashed stream. Operations on sources that already carry a manifest (re-sign with Create intent, jumbf_io::save_jumbf_to_stream writing the asset's own store again, jumbf_io::load_jumbf_from_stream) run on harness-signed small instances of all 16 containers from vh::assets::synth_default (quick: 13) and on the small real fixtures, with one-shot {Other, UnexpectedEof, Interrupted, Ok(0)} at EVERY k (k<1500 quick, k<12000 thorough). Non-trivial = the fault fired at call index >= 2 (beyond the sniffing read); chunk cases with pieces <= 3 bytes.");
    run.assume("equality with the fault-free result is judged on (validation state + all status codes of the read-back with a plain cursor, cross-run normalised report, output size, output bytes after the SDK's own manifest removal); reads: state + codes + same-bytes report");
    run.assume("a one-shot or sticky Ok(0) from read is an end-of-file, not an error: a differing Ok result is a failure only for reads/imports that are Valid/Trusted; signing the truncated view is recorded, not judged");
    run.assume("the number and order of I/O calls of an operation is deterministic (a planned call that is not reached is counted fault_not_fired and not judged)");

    let quick = run.quick();
    if let Err(e) = wrappers_selfcheck() {
        run.inconclusive(format!("stream wrappers broken: {e}"));
        run.finish();
    }
    // ---- operations -----------------------------------------------------------------------------------
    let fixtures: Vec<(&str, &str, &str)> = sdk::writable_fixtures()
        .into_iter()
        .filter(|(_, _, f)| !f.is_empty())
        .map(|(l, m, f)| if f == "tiff_poc.tiff" { (l, m, "TUSCANY.TIF") } else { (l, m, f) })
        .collect();
    let mut ops: Vec<IoOp> = vec![];
    for (_l, fmt, file) in &fixtures {
        ops.push(IoOp::new("sign", fmt, file));
        ops.push(IoOp::new("read", fmt, &format!("signed:{file}|{fmt}")));
    }
    for (fmt, f) in [("image/jpeg", "C.jpg"), ("image/jpeg", "CA.jpg"), ("video/mp4", "video1.mp4")] {
        ops.push(IoOp::new("read", fmt, f));
    }
    // small stand-ins for the MB-sized audio fixtures, so that quick covers their handlers with every piece size / every k
    for (fmt, f) in [("audio/mpeg", "head64k:sample1.mp3"), ("audio/flac", "head64k:sample1.flac")] {
        ops.push(IoOp::new("sign", fmt, f));
        ops.push(IoOp::new("read", fmt, &format!("signed:{f}|{fmt}")));
    }
    for (fmt, f) in [
        ("image/jpeg", "C.jpg"),
        ("image/jpeg", "CA.jpg"),
        ("image/jpeg", "no_manifest.jpg"),
        ("image/png", "signed:libpng-test.png|image/png"),
        ("image/webp", "signed:test.webp|image/webp"),
        ("image/svg+xml", "signed:sample1.svg|image/svg+xml"),
        ("image/avif", "signed:sample1.avif|image/avif"),
        ("video/mp4", "video1.mp4"),
    ] {
        ops.push(IoOp::new("ingredient", fmt, f));
    }
    for (fmt, f) in [("image/jpeg", "no_manifest.jpg"), ("image/avif", "sample1.avif"), ("video/mp4", "video1_no_manifest.mp4")] {
        ops.push(IoOp::new("hashflow", fmt, f));
    }

    // operations on sources that ALREADY carry a manifest: re-sign (old store replaced), the handlers' own
    // write / load entry points. Small instances of every container from the shared synthesiser (signed by the
    // harness) keep the call counts low enough for every k; the small real fixtures as well; thorough adds all
    // real fixtures.
    let mut presigned: Vec<(String, String)> = vec![];
    for kind in vh::assets::KINDS {
        if quick && matches!(*kind, "mov" | "m4a" | "heic") {
            continue; // same handler and box layout as mp4 / avif; thorough runs them
        }
        let (mime, _) = vh::assets::kind_format(kind);
        presigned.push((mime.to_string(), format!("signed:synth:{kind}|{mime}")));
    }
    for (_l, fmt, file) in &fixtures {
        if !quick || asset(file).len() <= 120_000 {
            presigned.push((fmt.to_string(), format!("signed:{file}|{fmt}")));
        }
    }
    presigned.push(("audio/mpeg".into(), "signed:head64k:sample1.mp3|audio/mpeg".into()));
    presigned.push(("audio/flac".into(), "signed:head64k:sample1.flac|audio/flac".into()));
    let mut unusable = vec![];
    for (fmt, file) in &presigned {
        // a synthesised container the SDK cannot sign is left out (noted), not counted as inconclusive
        let (f0, m0) = file.strip_prefix("signed:").and_then(|r| r.split_once('|')).unwrap_or((file, fmt));
        if vh::catch(|| sdk::sign_simple(m0, &asset(f0), "probe").is_ok()).unwrap_or(false) {
            for kind in ["resign", "replace", "loadjumbf"] {
                ops.push(IoOp::new(kind, fmt, file));
            }
        } else {
            unusable.push(file.clone());
        }
    }
    if !unusable.is_empty() {
        run.note(format!("sources left out of the pre-signed operations because the SDK does not sign them: {unusable:?}"));
    }

    // references (also a determinism check of the comparison itself)
    let bad: Mutex<Vec<String>> = Mutex::new(vec![]);
    let next = std::sync::atomic::AtomicUsize::new(if run.replay.is_some() { usize::MAX / 2 } else { 0 });
    std::thread::scope(|s| {
        for _ in 0..8 {
            s.spawn(|| loop {
                let i = next.fetch_add(1, std::sync::atomic::Ordering::SeqCst);
                if i >= ops.len() {
                    break;
                }
                if let Err(e) = reference(&ops[i]) {
                    bad.lock().unwrap().push(format!("{}: {e}", ops[i].name()));
                }
            });
        }
    });
    for b in bad.into_inner().unwrap() {
        run.inconclusive(format!("reference run unusable: {b}"));
    }
    if run.replay.is_none() {
        let mut cm = serde_json::Map::new();
        for op in ops.iter().filter(|o| matches!(o.kind.as_str(), "sign" | "resign" | "hashflow")) {
            if let Ok((_, m)) = reference(op) {
                cm.insert(op.name(), json!({"store_blanked_in_place": m[0], "store_removed_by_sdk": m[1]}));
                if !m[0] && !m[1] {
                    run.note(format!("{}: output bytes outside the manifest are not compared (no reproducible method)", op.name()));
                }
            }
        }
        run.extra("content_comparison_methods", serde_json::Value::Object(cm));
    }

    // ---- (a) chunking ---------------------------------------------------------------------------------
    let mut rng = vh::rng::SplitMix64::new(run.seed ^ 0xC35);
    let mut ccases = vec![];
    for op in &ops {
        let size = asset(&op.file).len();
        let targets: &[&str] = match op.kind.as_str() {
            "sign" | "replace" => &["source", "dest", "both"],
            "resign" => &["source", "both"],
            _ => &["source"],
        };
        for t in targets {
            for mp in [1u32, 2, 3, 7, 0] {
                // 1-byte pieces on MB-sized assets cost minutes: quick keeps them for assets <= 300 KB
                if quick && mp <= 3 && size > 300_000 {
                    continue;
                }
                if quick && mp == 7 && size > 1_200_000 {
                    continue;
                }
                ccases.push(ChunkCase { op: op.clone(), target: t.to_string(), max_piece: mp, seed: rng.next_u64() });
            }
        }
    }
    if selftest {
        ccases.retain(|c| asset(&c.op.file).len() <= 120_000);
    }
    ccases.sort_by_key(|c| (asset(&c.op.file).len() / c.max_piece.clamp(1, 16) as usize, c.max_piece));
    run.extra("chunk_cases", json!(ccases.len()));
    if std::env::var("VERIF_C35_PROBE").is_err() {
        run.drive_enum_par("chunked_streams", ccases, run.scale(8, 16), |c| judge_chunk(&run, c, selftest));
    }

    // ---- (b) faults -----------------------------------------------------------------------------------
    let kinds: Vec<FaultPlan> = vec![
        FaultPlan::nth(0, FaultKind::Other),
        FaultPlan::nth(0, FaultKind::UnexpectedEof),
        FaultPlan::nth(0, FaultKind::Interrupted),
        FaultPlan::nth(0, FaultKind::WriteZero),
        FaultPlan::nth(0, FaultKind::ShortZero),
        FaultPlan::nth(0, FaultKind::Other).sticky(),
        FaultPlan::nth(0, FaultKind::ShortZero).sticky(),
    ];
    // quick leaves the permanently truncated stream (sticky Ok(0)) to thorough
    let kinds: Vec<FaultPlan> = kinds.into_iter().filter(|p| !(quick && p.sticky && p.kind == FaultKind::ShortZero)).collect();
    let mut counts = serde_json::Map::new();
    let mut fcases = vec![];
    // (every k up to, stratified sample beyond) for assets <= 300 KB and for larger ones
    let (small_plan, large_plan) = if quick { ((300u64, 24u64), (40u64, 12u64)) } else { ((4000u64, 400u64), (1000u64, 200u64)) };
    let mut planned: Vec<(IoOp, &str, u64)> = vec![];
    for op in ops.iter().filter(|_| run.replay.is_none()) {
        let targets: &[&str] = if matches!(op.kind.as_str(), "sign" | "resign" | "replace") { &["source", "dest"] } else { &["source"] };
        for t in targets {
            match op_count(op, t) {
                Some(n) => {
                    counts.insert(format!("{} {}", op.name(), t), json!(n));
                    planned.push((op.clone(), t, n));
                }
                None => run.inconclusive(format!("dry run of {} ({t}) failed", op.name())),
            }
        }
    }
    if std::env::var("VERIF_C35_PROBE").is_ok() {
        for (k, v) in &counts {
            eprintln!("{k}: {v}");
        }
        std::process::exit(2);
    }
    run.extra("fault_free_io_calls", serde_json::Value::Object(counts));
    // one-shot kinds for the operations on already-signed sources (every k)
    let kinds4: Vec<FaultPlan> = kinds.iter().filter(|p| !p.sticky && p.kind != FaultKind::WriteZero).copied().collect();
    for (op, t, n) in &planned {
        let presigned = matches!(op.kind.as_str(), "resign" | "replace" | "loadjumbf");
        let (all_upto, sample) = if presigned {
            (if quick { 1500 } else { 12_000 }, if quick { 24 } else { 400 })
        } else if asset(&op.file).len() <= 300_000 {
            small_plan
        } else {
            large_plan
        };
        let kinds = if presigned { &kinds4 } else { &kinds };
        let ks = ks_for(*n, all_upto, sample, &mut rng);
        if ks.len() as u64 == *n {
            run.count("ops_enumerated_completely");
        } else {
            run.count("ops_enumerated_stratified");
        }
        let full: std::collections::BTreeSet<u64> = ks.iter().copied().collect();
        for k in ks {
            for kp in kinds.iter() {
                let mut plan = *kp;
                plan.at = k;
                fcases.push(FaultCase { op: op.clone(), target: t.to_string(), plan });
            }
        }
        // larger assets: the plain one-shot error (the kind that exposes swallowed errors) at every further k
        // up to a second bound, so that the findings do not depend on where the seeded strata fall
        let other_upto = if !quick {
            12_000u64
        } else if op.kind == "sign" && *t == "source" {
            400 // quick: only where the format handlers parse the source
        } else {
            0
        };
        for k in 0..(*n).min(other_upto) {
            if !full.contains(&k) {
                fcases.push(FaultCase { op: op.clone(), target: t.to_string(), plan: FaultPlan::nth(k, FaultKind::Other) });
            }
        }
    }
    if selftest {
        // the lying adapter must lie only once (a permanently lying stream can make any consumer loop forever),
        // and small assets are enough to show that swallowed errors are caught
        fcases.retain(|c| !c.plan.sticky && asset(&c.op.file).len() <= 120_000);
    }
    fcases.sort_by_key(|c| c.plan.at);
    run.extra("fault_cases", json!(fcases.len()));
    run.drive_enum_par("faulty_streams", fcases, run.scale(8, 16), |c| judge_fault(&run, c, selftest));
    run.set_exhaustive(false);
    run.finish();
}
