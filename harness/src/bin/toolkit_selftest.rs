//! Self-test of the shared container toolkit (`vh::assets`, `vh::walk`) — not a property check.
//!
//! usage: toolkit_selftest [instances-per-kind (default 200)] [kind ...]
//!
//! For every kind: N random synthesised assets (+ the default instance, + N/2 instances that already
//! carry a store) and the repository fixtures are pushed through
//!   * the synthesiser's own ground truth (regions cover the file, offset table entries hold their targets),
//!   * `save_jumbf_to_memory` / `load_jumbf_from_memory` with a small well-formed store (soundness of the generator),
//!   * `sign_simple` + `read` (Valid / Trusted expected),
//!   * the independent walkers: contiguity, `extract_store` == SDK load (before and after embedding),
//!     `manifest_spans` empty exactly when no store, `media_content` unchanged by embedding.
//! Prints a per-kind table and exits 0 when every rejection rate is < 5 % and the walkers agree
//! everywhere outside the known BMFF defect (DESIGN §7 row 8), 1 otherwise.

use std::collections::BTreeMap;

use vh::assets::{self, OffsetRef, Synth};
use vh::rng::SplitMix64;
use vh::walk;

#[derive(Default)]
struct Stats {
    instances: usize,
    with_store: usize,
    truth_bad: usize,
    save_rejected: usize,
    load_mismatch: usize,
    sign_tried: usize,
    sign_rejected: usize,
    not_valid: usize,
    walker_checks: usize,
    walker_disagree: usize,
    media_checked: usize,
    media_changed: usize,
    media_changed_known: usize,
    save_panic_known: usize,
    media_strict_changed: usize,
    both_reject: usize,
    max_notes: usize,
    bytes_min: usize,
    bytes_max: usize,
    notes: Vec<String>,
    knobs: BTreeMap<String, usize>,
}

impl Stats {
    fn note(&mut self, s: String) {
        if self.notes.len() < self.max_notes.max(8) {
            self.notes.push(s);
        }
    }
}

fn sdk_load(format: &str, bytes: &[u8]) -> Result<Option<Vec<u8>>, String> {
    match vh::catch(|| c2pa::jumbf_io::load_jumbf_from_memory(format, bytes)) {
        Ok(Ok(v)) => Ok(Some(v)),
        Ok(Err(c2pa::Error::JumbfNotFound)) => Ok(None),
        Ok(Err(e)) => Err(format!("{e:?}")),
        Err(p) => Err(format!("PANIC {p}")),
    }
}

fn dump(kind: &str, tag: &str, ext: &str, bytes: &[u8]) -> String {
    let dir = "/verif/work/toolkit";
    let _ = std::fs::create_dir_all(dir);
    let p = format!("{dir}/{kind}-{tag}.{ext}");
    let _ = std::fs::write(&p, bytes);
    p
}

fn read_entry(bytes: &[u8], o: &OffsetRef, le: bool) -> Option<u64> {
    let s = bytes.get(o.entry_pos..o.entry_pos + o.width as usize)?;
    let mut v = 0u64;
    if le {
        for x in s.iter().rev() {
            v = (v << 8) | *x as u64;
        }
    } else {
        for x in s {
            v = (v << 8) | *x as u64;
        }
    }
    Some(v)
}

/// Walker vs SDK on one byte string; returns the walker's store.
fn walker_vs_sdk(kind: &str, format: &str, bytes: &[u8], what: &str, st: &mut Stats) -> Option<Option<Vec<u8>>> {
    st.walker_checks += 1;
    let sdk = sdk_load(format, bytes);
    let w = walk::extract_store(kind, bytes);
    let spans = walk::manifest_spans(kind, bytes);
    match (&sdk, &w, &spans) {
        (Ok(a), Ok(b), Ok(sp)) => {
            if a != b {
                st.walker_disagree += 1;
                st.note(format!("{what}: store differs: sdk {:?} bytes, walker {:?} bytes", a.as_ref().map(|x| x.len()), b.as_ref().map(|x| x.len())));
                return None;
            }
            if sp.is_empty() != b.is_none() {
                st.walker_disagree += 1;
                st.note(format!("{what}: manifest_spans {:?} but store present = {}", sp, b.is_some()));
                return None;
            }
            for (s, l) in sp {
                if s + l > bytes.len() {
                    st.walker_disagree += 1;
                    st.note(format!("{what}: span {s}+{l} outside file"));
                    return None;
                }
            }
            Some(b.clone())
        }
        (Err(a), Err(b), _) => {
            st.both_reject += 1;
            st.note(format!("{what}: both reject (sdk {a}; walker {b})"));
            None
        }
        _ => {
            st.walker_disagree += 1;
            st.note(format!(
                "{what}: sdk {:?} / walker {:?} / spans {:?}",
                sdk.as_ref().map(|x| x.as_ref().map(|y| y.len())),
                w.as_ref().map(|x| x.as_ref().map(|y| y.len())),
                spans.as_ref().map(|x| x.len())
            ));
            None
        }
    }
}

/// For BMFF: does any mdat precede the (first) C2PA box?
fn bmff_mdat_before_c2pa(bytes: &[u8]) -> bool {
    let Ok(units) = walk::walk("mp4", bytes) else { return false };
    let mut seen_mdat = false;
    for u in units {
        if u.kind == "mdat" {
            seen_mdat = true;
        }
        if u.is_manifest {
            return seen_mdat;
        }
    }
    false
}

#[allow(clippy::too_many_arguments)]
fn check_asset(kind: &str, format: &str, ext: &str, tag: &str, bytes: &[u8], synth: Option<&Synth>, do_sign: bool, rng: &mut SplitMix64, st: &mut Stats) {
    st.instances += 1;
    st.bytes_min = if st.bytes_min == 0 { bytes.len() } else { st.bytes_min.min(bytes.len()) };
    st.bytes_max = st.bytes_max.max(bytes.len());
    let family = walk::family(kind).unwrap();
    // 1. ground truth of the synthesiser
    if let Some(s) = synth {
        if !assets::regions_cover(&s.regions, s.bytes.len()) {
            st.truth_bad += 1;
            st.note(format!("{tag}: regions do not cover the file ({})", s.desc));
        }
        let le = family == "tiff" && bytes.starts_with(b"II");
        for o in &s.offsets {
            if read_entry(bytes, o, le) != Some(o.target as u64) || o.target + o.target_len > bytes.len() {
                st.truth_bad += 1;
                st.note(format!("{tag}: offset ref {} at {} wrong", o.table, o.entry_pos));
                break;
            }
        }
        if walk::sniff(bytes).map(|k| walk::family(k)) != Some(walk::family(kind)) {
            st.truth_bad += 1;
            st.note(format!("{tag}: sniff says {:?}", walk::sniff(bytes)));
        }
        for part in s.desc.split(": ").nth(1).unwrap_or("").split(", ") {
            let key: String = part.split(' ').next().unwrap_or("").chars().filter(|c| !c.is_ascii_digit()).collect();
            if !key.is_empty() && key.len() < 24 {
                *st.knobs.entry(key).or_insert(0) += 1;
            }
        }
    }
    // 2. walker on the original
    let before = walker_vs_sdk(kind, format, bytes, &format!("{tag} original"), st);
    if before.is_none() && synth.is_some() {
        st.note(format!("   dumped {}", dump(kind, tag, ext, bytes)));
    }
    let had_store = matches!(before, Some(Some(_)));
    if had_store {
        st.with_store += 1;
    }
    // 3. embed a small well-formed store
    let store_len = match rng.below(10) {
        0 if family != "bmff" => 38,
        1 => 46 + rng.usize(300),
        2 if family == "jpeg" => 64000 + rng.usize(70000),
        _ => 100 + rng.usize(3000),
    };
    let store = assets::fake_store(store_len, rng);
    let known_defect_layout = family == "bmff" && had_store && bmff_mdat_before_c2pa(bytes);
    let saved = match vh::catch(|| c2pa::jumbf_io::save_jumbf_to_memory(format, bytes, &store)) {
        Ok(r) => r.map_err(|e| format!("{e:?}")),
        Err(p) => Err(format!("PANIC {p}")),
    };
    match saved {
        Err(e) if known_defect_layout && e.starts_with("PANIC") => {
            st.save_panic_known += 1;
            if st.save_panic_known <= 2 {
                st.note(format!("(known BMFF defect, mdat before C2PA box, store {} -> {} bytes) {tag}: save_jumbf {e}", before.as_ref().and_then(|x| x.as_ref()).map(|x| x.len()).unwrap_or(0), store.len()));
                st.note(format!("   dumped {}", dump(kind, tag, ext, bytes)));
            }
        }
        Err(e) => {
            st.save_rejected += 1;
            st.note(format!("{tag}: save_jumbf rejected: {e:?} ({})", synth.map(|s| s.desc.as_str()).unwrap_or("fixture")));
            st.note(format!("   dumped {}", dump(kind, tag, ext, bytes)));
        }
        Ok(out) => {
            match sdk_load(format, &out) {
                Ok(Some(v)) if v == store => {}
                other => {
                    st.load_mismatch += 1;
                    st.note(format!("{tag}: load after save gives {:?}", other.map(|x| x.map(|y| y.len()))));
                }
            }
            match walker_vs_sdk(kind, format, &out, &format!("{tag} after save"), st) {
                Some(Some(v)) if v == store => {}
                Some(other) => {
                    st.walker_disagree += 1;
                    st.note(format!("{tag}: walker store after save {:?} != embedded {}", other.map(|x| x.len()), store.len()));
                    st.note(format!("   dumped {}", dump(kind, &format!("{tag}-saved"), ext, &out)));
                }
                None => {
                    st.note(format!("   dumped {}", dump(kind, &format!("{tag}-saved"), ext, &out)));
                }
            }
            // 4. media content unchanged by embedding
            if family != "c2pa" {
                match (walk::media_content_normalised(kind, bytes), walk::media_content_normalised(kind, &out)) {
                    (Ok(a), Ok(b)) => {
                        st.media_checked += 1;
                        if walk::media_content(kind, bytes).ok() != walk::media_content(kind, &out).ok() {
                            st.media_strict_changed += 1;
                        }
                        if a != b {
                            let first = a.iter().zip(b.iter()).position(|(x, y)| x != y).unwrap_or(a.len().min(b.len()));
                            let what = format!(
                                "{tag}: media_content changed by embedding at entry {first} ({:?} vs {:?}), {} vs {} entries ({})",
                                a.get(first).map(|x| (&x.0, x.1.len())),
                                b.get(first).map(|x| (&x.0, x.1.len())),
                                a.len(),
                                b.len(),
                                synth.map(|s| s.desc.as_str()).unwrap_or("fixture")
                            );
                            if known_defect_layout {
                                st.media_changed_known += 1;
                                if st.media_changed_known <= 2 {
                                    st.note(format!("(known BMFF defect, mdat before C2PA box) {what}"));
                                }
                            } else {
                                st.media_changed += 1;
                                st.note(what);
                                st.note(format!("   dumped {}", dump(kind, tag, ext, bytes)));
                            }
                        }
                    }
                    (a, b) => {
                        st.walker_disagree += 1;
                        st.note(format!("{tag}: media_content failed: {:?} / {:?}", a.err(), b.err()));
                    }
                }
            }
        }
    }
    // 5. sign + read
    if do_sign && family != "c2pa" {
        st.sign_tried += 1;
        match vh::catch(|| vh::sdk::sign_simple(format, bytes, "t")) {
            Ok(Ok(signed)) => match vh::sdk::read(format, &signed) {
                Ok(r) => {
                    if !vh::sdk::is_valid_or_trusted(&r) {
                        st.not_valid += 1;
                        st.note(format!("{tag}: signed asset reads {:?} {:?}", r.validation_state(), vh::sdk::failure_codes(&r)));
                        st.note(format!("   dumped {}", dump(kind, tag, ext, bytes)));
                    }
                    let _ = walker_vs_sdk(kind, format, &signed, &format!("{tag} signed"), st);
                }
                Err(e) => {
                    st.not_valid += 1;
                    st.note(format!("{tag}: read of signed asset failed: {e:?}"));
                }
            },
            Ok(Err(e)) => {
                st.sign_rejected += 1;
                st.note(format!("{tag}: sign rejected: {e:?} ({})", synth.map(|s| s.desc.as_str()).unwrap_or("fixture")));
                st.note(format!("   dumped {}", dump(kind, tag, ext, bytes)));
            }
            Err(p) => {
                st.sign_rejected += 1;
                st.note(format!("{tag}: sign panicked: {p}"));
            }
        }
    }
}

fn run_kind(kind: &str, n: usize, seed: u64) -> Stats {
    let mut st = Stats::default();
    let (format, ext) = assets::kind_format(kind);
    let kseed = SplitMix64::new(seed).next_u64() ^ kind.bytes().fold(0xcbf29ce484222325u64, |h, b| (h ^ b as u64).wrapping_mul(0x100000001b3));
    // default instance
    {
        let s = assets::synth_default(kind);
        let mut rng = SplitMix64::new(kseed);
        check_asset(kind, format, ext, "default", &s.bytes, Some(&s), true, &mut rng, &mut st);
        let again = assets::synth_default(kind);
        if again.bytes != s.bytes {
            st.truth_bad += 1;
            st.note("synth_default is not deterministic".into());
        }
    }
    for i in 0..n {
        let mut rng = SplitMix64::new(kseed.wrapping_add(i as u64 * 0x9E37));
        let hint = match i % 10 {
            0 => 40,
            1 => 200_000 / if kind == "svg" { 4 } else { 1 },
            2 => 20_000,
            3 => 1,
            _ => 0,
        };
        let s = assets::synth(kind, &mut rng, hint);
        check_asset(kind, format, ext, &format!("r{i}"), &s.bytes, Some(&s), true, &mut rng, &mut st);
    }
    // instances that already carry a store
    {
        for i in 0..n / 2 {
            let mut rng = SplitMix64::new(kseed.wrapping_add(0x5151_0000 + i as u64));
            let len = 38 + rng.usize(1500);
            let store = assets::fake_store(len, &mut rng);
            let s = assets::synth_with_store(kind, &mut rng, 0, &store);
            let tag = format!("s{i}");
            match walk::extract_store(kind, &s.bytes) {
                Ok(Some(v)) if v == store => {}
                other => {
                    st.walker_disagree += 1;
                    st.note(format!("{tag}: walker does not return the pre-embedded store: {:?} ({})", other.map(|x| x.map(|y| y.len())), s.desc));
                }
            }
            check_asset(kind, format, ext, &tag, &s.bytes, Some(&s), false, &mut rng, &mut st);
        }
    }
    st
}

fn run_fixtures() -> Stats {
    let mut st = Stats { max_notes: 60, ..Default::default() };
    let mut rng = SplitMix64::new(77);
    let mut list: Vec<(String, String, String)> = vh::sdk::writable_fixtures()
        .into_iter()
        .filter(|(_, _, f)| !f.is_empty())
        .map(|(k, fmt, f)| (k.to_string(), fmt.to_string(), f.to_string()))
        .collect();
    for (k, fmt, f) in [
        ("jpeg", "image/jpeg", "C.jpg"),
        ("jpeg", "image/jpeg", "CA.jpg"),
        ("jpeg", "image/jpeg", "CACA.jpg"),
        ("jpeg", "image/jpeg", "cloud.jpg"),
        ("jpeg", "image/jpeg", "earth_apollo17.jpg"),
        ("jpeg", "image/jpeg", "IMG_0003.jpg"),
        ("jpeg", "image/jpeg", "P1000827.jpg"),
        ("png", "image/png", "sample1.png"),
        ("png", "image/png", "exp-test1.png"),
        ("webp", "image/webp", "sample1.webp"),
        ("webp", "image/webp", "mars.webp"),
        ("webp", "image/webp", "test_lossless.webp"),
        ("webp", "image/webp", "test_xmp.webp"),
        ("heic", "image/heif", "sample1.heif"),
        ("mp4", "video/mp4", "video1.mp4"),
        ("mp4", "video/mp4", "legacy.mp4"),
        ("mp4", "video/mp4", "BigBuckBunny_320x180.mp4"),
        ("mov", "video/quicktime", "c.mov"),
        ("tiff", "image/tiff", "TUSCANY.TIF"),
        ("tiff", "image/tiff", "MultiPage.tif"),
        ("tiff", "image/tiff", "test.tiff"),
        ("tiff", "image/dng", "Foo.dng"),
        ("tiff", "image/dng", "subfiles.dng"),
        ("svg", "image/svg+xml", "sample2.svg"),
        ("svg", "image/svg+xml", "sample3.svg"),
        ("svg", "image/svg+xml", "sample4.svg"),
        ("svg", "image/svg+xml", "sample5.svg"),
        ("c2pa", "application/c2pa", "cloud_manifest.c2pa"),
    ] {
        list.push((k.to_string(), fmt.to_string(), f.to_string()));
    }
    for (kind, fmt, file) in list {
        let path = format!("{}/{}", vh::sdk::FIXTURES, file);
        let Ok(bytes) = std::fs::read(&path) else {
            st.note(format!("fixture {file} missing"));
            continue;
        };
        let fmt: &'static str = Box::leak(fmt.into_boxed_str());
        let ext = file.rsplit('.').next().unwrap_or("bin").to_string();
        let sign = bytes.len() < 3_000_000;
        check_asset(&kind, fmt, &ext, &format!("fixture:{file}"), &bytes, None, sign, &mut rng, &mut st);
    }
    st
}

/// Inputs that the synthesisers avoid on purpose because the SDK's handler mis-parses them; printed
/// for the record (they do not influence the exit code).
/// apply / changed_span consistency on random mutations: bytes before the span and after it are untouched.
fn mutator_selfcheck() -> usize {
    let mut rng = SplitMix64::new(99);
    let mut bad = 0;
    for i in 0..2000 {
        let s = assets::synth(assets::KINDS[i % assets::KINDS.len()], &mut rng, 300);
        let m = assets::random_mutation(&s.bytes, &s.regions, &mut rng);
        let out = assets::apply(&s.bytes, &m);
        let (st, len) = assets::changed_span(&m, s.bytes.len());
        let tail = s.bytes.len() - (st + len);
        let ok = st + len <= s.bytes.len()
            && out.len() >= st.min(out.len())
            && out[..st.min(out.len())] == s.bytes[..st.min(out.len())]
            && (matches!(m, assets::Mutation::Truncate { .. }) || (out.len() >= tail && out[out.len() - tail..] == s.bytes[s.bytes.len() - tail..]));
        if !ok {
            bad += 1;
            println!("mutator self-check failed for {m:?} on {} bytes", s.bytes.len());
        }
        let pos = assets::stratified_positions(&s.regions, s.bytes.len(), &mut rng, 20);
        if pos.windows(2).any(|w| w[0] >= w[1]) || pos.iter().any(|p| *p >= s.bytes.len()) || pos.is_empty() {
            bad += 1;
            println!("stratified_positions wrong on {}", s.desc);
        }
    }
    bad
}

fn probes() {
    println!("\n-- probes (inputs the generators avoid; informational) --");
    for (kind, variant) in assets::VARIANTS {
        let (format, ext) = assets::kind_format(kind);
        let (mut rejected, mut panicked, mut media_changed, mut store_lost, mut n) = (0, 0, 0, 0, 0);
        let mut example = String::new();
        for i in 0..40u64 {
            let mut rng = SplitMix64::new(4242 + i);
            let s = assets::synth_variant(kind, &mut rng, 600, variant);
            let store = assets::fake_store(300, &mut rng);
            n += 1;
            match vh::catch(|| c2pa::jumbf_io::save_jumbf_to_memory(format, &s.bytes, &store)) {
                Ok(Ok(out)) => {
                    if walk::extract_store(kind, &out).ok().flatten() != Some(store.clone()) {
                        store_lost += 1;
                    }
                    if walk::media_content(kind, &s.bytes).ok() != walk::media_content(kind, &out).ok() {
                        media_changed += 1;
                        if example.is_empty() {
                            example = format!("{} -> {}", s.desc, dump(kind, &format!("variant-{variant}"), ext, &s.bytes));
                        }
                    }
                }
                Ok(Err(e)) => {
                    rejected += 1;
                    if example.is_empty() {
                        example = format!("{e:?}: {} -> {}", s.desc, dump(kind, &format!("variant-{variant}"), ext, &s.bytes));
                    }
                }
                Err(p) => {
                    panicked += 1;
                    if example.is_empty() {
                        example = format!("{p}: {} -> {}", s.desc, dump(kind, &format!("variant-{variant}"), ext, &s.bytes));
                    }
                }
            }
        }
        println!("{kind}/{variant}: {n} instances, SDK save rejected {rejected}, panicked {panicked}, media_content changed {media_changed}, walker cannot find store {store_lost}; e.g. {example}");
    }
    let store = assets::fake_store(200, &mut SplitMix64::new(5));
    // GIF plain text extension with a foreground colour index other than 1
    let mut gif = b"GIF89a\x01\0\x01\0\0\0\0".to_vec();
    gif.extend_from_slice(&[0x21, 0x01, 0x0C, 0, 0, 0, 0, 8, 0, 8, 0, 8, 8, 0x00, 0x07, 0x02, b'h', b'i', 0x00]);
    gif.extend_from_slice(&[0x2C, 0, 0, 0, 0, 1, 0, 1, 0, 0, 0x02, 0x02, 0x44, 0x01, 0x00, 0x3B]);
    println!(
        "gif plain-text ext (fg index 0, bg 7): walker {:?}; sdk save_jumbf -> {:?}",
        walk::walk("gif", &gif).map(|u| u.iter().map(|x| x.kind.clone()).collect::<Vec<_>>()),
        c2pa::jumbf_io::save_jumbf_to_memory("image/gif", &gif, &store).map(|v| v.len())
    );
}

/// `toolkit_selftest diff <kind> <file>`: embed a store and print the media_content entries that differ.
fn diff_cmd(kind: &str, path: &str) {
    let bytes = std::fs::read(path).expect("read");
    let (format, _) = assets::kind_format(kind);
    let store = assets::fake_store(300, &mut SplitMix64::new(3));
    println!("units: {:?}", walk::walk(kind, &bytes).map(|u| u.iter().map(|x| format!("{}@{}+{}", x.kind, x.start, x.len)).collect::<Vec<_>>()));
    let out = match vh::catch(|| c2pa::jumbf_io::save_jumbf_to_memory(format, &bytes, &store)) {
        Ok(Ok(o)) => o,
        other => {
            println!("save failed: {:?}", other.map(|r| r.map(|v| v.len())));
            return;
        }
    };
    println!("units after: {:?}", walk::walk(kind, &out).map(|u| u.iter().map(|x| format!("{}@{}+{}", x.kind, x.start, x.len)).collect::<Vec<_>>()));
    let (a, b) = (walk::media_content(kind, &bytes).unwrap(), walk::media_content(kind, &out).unwrap());
    for i in 0..a.len().max(b.len()) {
        if a.get(i) != b.get(i) {
            let show = |x: Option<&(String, Vec<u8>)>| x.map(|(n, v)| format!("{n} [{}] {}", v.len(), String::from_utf8_lossy(&v[..v.len().min(80)]).escape_debug()));
            println!("#{i}:\n  before {:?}\n  after  {:?}", show(a.get(i)), show(b.get(i)));
        }
    }
    let _ = std::fs::write(format!("/verif/work/toolkit/diff-saved.{}", path.rsplit('.').next().unwrap_or("bin")), &out);
    if walk::family(kind) == Some("bmff") {
        for (label, data) in [("before", &bytes), ("after", &out)] {
            let refs = walk::bmff_offset_refs(data).unwrap();
            let with_len = refs.iter().filter(|r| r.target_len.is_some()).count();
            let oob = refs.iter().filter(|r| r.target + r.target_len.unwrap_or(0) > data.len() as u64).count();
            let total: u64 = refs.iter().map(|r| r.target_len.unwrap_or(0)).sum();
            println!("{label}: {} offset refs, {} with computed length, {} out of bounds, {} bytes addressed of {}", refs.len(), with_len, oob, total, data.len());
        }
    }
}

fn main() {
    vh::quiet_panics();
    let args: Vec<String> = std::env::args().skip(1).collect();
    if args.first().map(|a| a.as_str()) == Some("diff") {
        diff_cmd(&args[1], &args[2]);
        return;
    }
    let n: usize = args.first().and_then(|a| a.parse().ok()).unwrap_or(200);
    let only: Vec<String> = args.iter().filter(|a| a.parse::<usize>().is_err()).cloned().collect();
    // scratch dir for dumped counter-examples: wiped per run
    let _ = std::fs::remove_dir_all("/verif/work/toolkit");
    let _ = std::fs::create_dir_all("/verif/work/toolkit");
    let seed: u64 = std::env::var("VERIF_SEED").ok().and_then(|s| s.parse().ok()).unwrap_or(1);
    let mut kinds: Vec<&str> = assets::KINDS.to_vec();
    kinds.push(assets::SIDECAR);
    if !only.is_empty() {
        kinds.retain(|k| only.iter().any(|o| o == k));
    }
    let threads = std::thread::available_parallelism().map(|x| x.get()).unwrap_or(4).min(8);
    let results: std::sync::Mutex<BTreeMap<String, Stats>> = Default::default();
    let queue: std::sync::Mutex<Vec<&str>> = std::sync::Mutex::new(kinds.iter().rev().copied().collect());
    std::thread::scope(|s| {
        for _ in 0..threads {
            s.spawn(|| loop {
                let k = match queue.lock().unwrap().pop() {
                    Some(k) => k,
                    None => break,
                };
                let st = run_kind(k, n, seed);
                results.lock().unwrap().insert(k.to_string(), st);
            });
        }
    });
    let mut results = results.into_inner().unwrap();
    if only.is_empty() || only.iter().any(|o| o == "fixtures") {
        results.insert("~fixtures".into(), run_fixtures());
    }
    println!(
        "{:<10} {:>5} {:>6} {:>12} {:>6} {:>6} {:>6} {:>7} {:>8} {:>8} {:>8} {:>9}",
        "kind", "inst", "w/stor", "bytes", "truth", "saveRj", "loadMM", "signRj", "notValid", "walkChk", "walkDis", "mediaChg"
    );
    let mut bad = false;
    for k in kinds.iter().map(|k| k.to_string()).chain(["~fixtures".to_string()]) {
        let Some(st) = results.get(&k) else { continue };
        let rej = |x: usize, of: usize| if of == 0 { 0.0 } else { 100.0 * x as f64 / of as f64 };
        println!(
            "{:<10} {:>5} {:>6} {:>12} {:>6} {:>5.1}% {:>6} {:>6.1}% {:>8} {:>8} {:>8} {:>5}+{}k/{} knownPanic:{} strictMediaChg:{} bothReject:{}",
            k,
            st.instances,
            st.with_store,
            format!("{}..{}", st.bytes_min, st.bytes_max),
            st.truth_bad,
            rej(st.save_rejected, st.instances),
            st.load_mismatch,
            rej(st.sign_rejected, st.sign_tried),
            st.not_valid,
            st.walker_checks,
            st.walker_disagree,
            st.media_changed,
            st.media_changed_known,
            st.media_checked,
            st.save_panic_known,
            st.media_strict_changed,
            st.both_reject
        );
        let fixture_row = k == "~fixtures";
        if st.truth_bad > 0
            || st.load_mismatch > 0
            || st.walker_disagree > 0
            || st.media_changed > 0
            || (!fixture_row && (rej(st.save_rejected, st.instances) >= 5.0 || rej(st.sign_rejected + st.not_valid, st.sign_tried.max(1)) >= 5.0))
        {
            bad = true;
        }
    }
    println!("\n-- knob coverage (share of synthesised instances) --");
    for k in &kinds {
        if let Some(st) = results.get(*k) {
            let v: Vec<String> = st.knobs.iter().map(|(a, b)| format!("{a}:{b}")).collect();
            println!("{k}: {}", v.join(" "));
        }
    }
    println!("\n-- notes (first few per kind) --");
    for (k, st) in &results {
        for nt in &st.notes {
            println!("[{k}] {nt}");
        }
    }
    probes();
    let mb = mutator_selfcheck();
    println!("mutator / stratified_positions self-check: {} failures", mb);
    bad |= mb > 0;
    println!("\n{}", if bad { "TOOLKIT SELFTEST: FAILED" } else { "TOOLKIT SELFTEST: OK" });
    std::process::exit(if bad { 1 } else { 0 });
}
