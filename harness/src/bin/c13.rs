//! C13 — range hashing equals the digest of exactly the selected bytes.
//!
//! Oracle: a per-byte keep-mask reference hashed with the `sha2` crate over the explicit concatenation.
//! The SDK is exercised through the hook `verif_hooks::hash_stream_with_chunk` (the private implementation
//! behind `hash_stream_by_alg`, with the internal read-chunk size as a parameter — every chunk boundary is a
//! hand-off to the hashing worker thread) and through the public `hash_stream_by_alg`.

use c2pa::{hash_stream_by_alg, verif_hooks::hash_stream_with_chunk, HashRange};
use proptest::prelude::*;
use serde::{Deserialize, Serialize};
use sha2::Digest;
use vh::{CaseResult, Fail, Run};

#[derive(Clone, Debug, Serialize, Deserialize, PartialEq, Eq, Hash)]
struct Case {
    data: Vec<u8>,
    /// (start, length)
    ranges: Vec<(u64, u64)>,
    /// BMFF offset markers (distinct positions), built as real callers do: HashRange::new(p,1)+set_bmff_offset(p)
    markers: Vec<u64>,
    /// `start` fields of the marker ranges (None: start == offset, the way the SDK's BMFF code builds them). A marker
    /// contributes at its *offset*; its start only takes part in sorting and bounds checking.
    #[serde(default)]
    marker_starts: Option<Vec<u64>>,
    exclusion: bool,
    /// 0 sha256, 1 sha384, 2 sha512
    alg: u8,
    chunks: Vec<usize>,
}

fn alg_name(a: u8) -> &'static str {
    match a % 3 {
        0 => "sha256",
        1 => "sha384",
        _ => "sha512",
    }
}

fn sha(alg: u8, bytes: &[u8]) -> Vec<u8> {
    match alg % 3 {
        0 => sha2::Sha256::digest(bytes).to_vec(),
        1 => sha2::Sha384::digest(bytes).to_vec(),
        _ => sha2::Sha512::digest(bytes).to_vec(),
    }
}

fn sdk_ranges(c: &Case) -> Vec<HashRange> {
    let mut v: Vec<HashRange> = c.ranges.iter().map(|(s, l)| HashRange::new(*s, *l)).collect();
    for (i, m) in c.markers.iter().enumerate() {
        let mut h = HashRange::new(marker_start(c, i), 1);
        h.set_bmff_offset(*m);
        v.push(h);
    }
    v
}

fn marker_start(c: &Case, i: usize) -> u64 {
    c.marker_starts.as_ref().and_then(|v| v.get(i).copied()).unwrap_or(c.markers[i])
}

#[derive(Debug, Clone, PartialEq)]
enum Expect {
    /// must be an error (a range reaches past the end of the data / overflows)
    MustErr,
    /// any of these digests (more than one only where the statement leaves the choice open)
    Digest(Vec<Vec<u8>>),
    /// either an error or one of the digests (contract leaves it open)
    Either(Vec<Vec<u8>>),
}

struct Model {
    expect: Expect,
    /// a marker sits on the last byte of a run of kept bytes (known SDK weakness class)
    marker_on_run_end: bool,
    /// some non-empty range other than the one with the largest start reaches past the end
    overrun_not_last: bool,
    nontrivial: bool,
}

fn model(c: &Case) -> Model {
    let len = c.data.len() as u64;
    let mut nontrivial = !c.markers.is_empty();
    // overlapping / touching / ending exactly at len
    for (i, (s, l)) in c.ranges.iter().enumerate() {
        if *l > 0 && s.checked_add(*l) == Some(len) {
            nontrivial = true;
        }
        for (s2, l2) in c.ranges.iter().skip(i + 1) {
            let (e1, e2) = (s.saturating_add(*l), s2.saturating_add(*l2));
            if *l > 0 && *l2 > 0 && *s <= e2 && *s2 <= e1 {
                nontrivial = true;
            }
        }
    }
    let mut all: Vec<(u64, u64, bool)> = c.ranges.iter().map(|(s, l)| (*s, *l, false)).collect();
    all.extend((0..c.markers.len()).map(|i| (marker_start(c, i), 1u64, true)));
    // "reaches past the end": non-empty range whose end is beyond the data (or overflows)
    let past = |s: u64, l: u64| match s.checked_add(l) {
        None => true,
        Some(e) => e > len,
    };
    let any_nonempty_past = all.iter().any(|(s, l, _)| *l > 0 && past(*s, *l));
    let any_empty_past = all.iter().any(|(s, l, _)| *l == 0 && past(*s, *l));
    // The pinned SDK bounds-checks only the range that sorts last (stable sort by start over ranges-then-markers):
    // "not last" = some offending range is not that element. Used only to name the failure class.
    let mut order: Vec<usize> = (0..all.len()).collect();
    order.sort_by_key(|i| all[*i].0);
    let last = order.last().copied();
    let overrun_not_last = all
        .iter()
        .enumerate()
        .any(|(i, (s, l, _))| *l > 0 && past(*s, *l) && Some(i) != last);

    if len == 0 {
        // documented: "no data to hash" error; an implementation returning the empty digest would also satisfy
        // the statement when no range reaches past the end.
        let e = if any_nonempty_past { Expect::MustErr } else { Expect::Either(vec![sha(c.alg, b"")]) };
        return Model { expect: e, marker_on_run_end: false, overrun_not_last, nontrivial };
    }
    if all.is_empty() {
        return Model {
            expect: Expect::Digest(vec![sha(c.alg, &c.data)]),
            marker_on_run_end: false,
            overrun_not_last: false,
            nontrivial,
        };
    }
    if any_nonempty_past {
        return Model { expect: Expect::MustErr, marker_on_run_end: false, overrun_not_last, nontrivial };
    }

    let mut digests = vec![];
    let mut marker_on_run_end = false;
    if c.exclusion {
        let mut keep = vec![true; len as usize];
        for (s, l) in &c.ranges {
            for i in *s..(*s + *l) {
                keep[i as usize] = false;
            }
        }
        let kept_markers: Vec<u64> = c.markers.iter().copied().filter(|m| keep[*m as usize]).collect();
        let excl_markers: Vec<u64> = c.markers.iter().copied().filter(|m| !keep[*m as usize]).collect();
        for m in &kept_markers {
            let i = *m as usize;
            // the byte at a kept marker position is followed by the end of data, an excluded byte or
            // another marker: the byte at the marker position forms a 1-byte run of its own
            if i + 1 == len as usize || !keep[i + 1] || c.markers.contains(&(*m + 1)) {
                marker_on_run_end = true;
            }
        }
        // a marker inside an excluded region has no agreed meaning: with or without it (all subsets)
        for mask in 0..(1u32 << excl_markers.len()) {
            let mut buf = Vec::with_capacity(len as usize + 8 * c.markers.len());
            for i in 0..len {
                let here_kept = kept_markers.contains(&i);
                let here_excl = excl_markers
                    .iter()
                    .position(|m| *m == i)
                    .map(|p| mask & (1 << p) != 0)
                    .unwrap_or(false);
                if here_kept || here_excl {
                    buf.extend_from_slice(&i.to_be_bytes());
                }
                if keep[i as usize] {
                    buf.push(c.data[i as usize]);
                }
            }
            digests.push(sha(c.alg, &buf));
        }
    } else {
        // inclusion: the included bytes in range order. The SDK documents a sort by start (stable);
        // "range order" could also be read as the order given — accept both when they differ.
        let mut sorted = c.ranges.clone();
        sorted.sort_by_key(|r| r.0);
        for order in [sorted, c.ranges.clone()] {
            let mut buf = vec![];
            for (s, l) in order.iter().filter(|r| r.1 > 0) {
                buf.extend_from_slice(&c.data[*s as usize..(*s + *l) as usize]);
            }
            let d = sha(c.alg, &buf);
            if !digests.contains(&d) {
                digests.push(d);
            }
        }
    }
    let expect = if any_empty_past { Expect::Either(digests) } else { Expect::Digest(digests) };
    Model { expect, marker_on_run_end, overrun_not_last, nontrivial }
}

fn judge(run: &Run, c: &Case) -> CaseResult {
    let m = model(c);
    if m.nontrivial {
        run.nontrivial(c);
    }
    run.count(if c.exclusion { "mode_exclusion" } else { "mode_inclusion" });
    run.count(match &m.expect {
        Expect::MustErr => "expect_err",
        Expect::Digest(_) => "expect_digest",
        Expect::Either(_) => "expect_either",
    });
    if !c.markers.is_empty() {
        run.count("with_markers");
    }
    let alg = alg_name(c.alg);
    let mut results: Vec<(String, Result<Vec<u8>, String>)> = vec![];
    for ch in &c.chunks {
        let r = vh::catch(|| hash_stream_with_chunk(alg, &c.data, Some(sdk_ranges(c)), c.exclusion, *ch));
        let r = match r {
            Err(p) => {
                return Err(Fail::new(
                    format!("C13:panic:{}", vh::core::panic_site(&p)),
                    format!("panic with chunk size {ch}: {p}"),
                ))
            }
            Ok(r) => r.map_err(|e| format!("{e:?}")),
        };
        results.push((format!("chunk={ch}"), r));
    }
    {
        // public entry point (default chunk size)
        let r = vh::catch(|| {
            let mut cur = std::io::Cursor::new(&c.data);
            hash_stream_by_alg(alg, &mut cur, Some(sdk_ranges(c)), c.exclusion)
        });
        let r = match r {
            Err(p) => {
                return Err(Fail::new(
                    format!("C13:panic:{}", vh::core::panic_site(&p)),
                    format!("panic in hash_stream_by_alg: {p}"),
                ))
            }
            Ok(r) => r.map_err(|e| format!("{e:?}")),
        };
        results.push(("public".into(), r));
    }
    // chunk-size independence
    let first = &results[0].1;
    for (name, r) in &results[1..] {
        let same = match (first, r) {
            (Ok(a), Ok(b)) => a == b,
            (Err(_), Err(_)) => true,
            _ => false,
        };
        if !same {
            return Err(Fail::new(
                "C13:chunk-size-dependence",
                format!("{} gives {:?} but {} gives {:?}", results[0].0, first.as_ref().map(hex::encode), name, r.as_ref().map(hex::encode)),
            ));
        }
    }
    match (&m.expect, first) {
        (Expect::MustErr, Err(_)) => Ok(()),
        (Expect::MustErr, Ok(d)) => {
            let sig = if m.overrun_not_last { "C13:overrun-not-last-accepted" } else { "C13:overrun-accepted" };
            Err(Fail::new(sig, format!("a range reaches past the end of {} bytes but hashing returned Ok({})", c.data.len(), hex::encode(d))))
        }
        (Expect::Digest(ds), Ok(d)) | (Expect::Either(ds), Ok(d)) => {
            if ds.contains(d) {
                Ok(())
            } else {
                let sig = if m.marker_on_run_end { "C13:marker-before-1-byte-run" } else { "C13:digest-mismatch" };
                Err(Fail::new(sig, format!("digest {} is not the digest of the selected bytes (expected one of {:?})", hex::encode(d), ds.iter().map(hex::encode).collect::<Vec<_>>())))
            }
        }
        (Expect::Either(_), Err(_)) => Ok(()),
        (Expect::Digest(_), Err(e)) => Err(Fail::new("C13:valid-ranges-rejected", format!("all ranges lie within the data but hashing failed: {e}"))),
    }
}

fn main() {
    vh::quiet_panics();
    let run = Run::from_args("C13", "exploration");
    run.set_rule("case = (data bytes, ranges (start,len), distinct BMFF marker offsets built as HashRange::new(p,1)+set_bmff_offset(p), exclusion|inclusion, alg, internal chunk sizes); exhaustive part: data lengths 0..6 x every multiset of <=2 ranges on the 3-bit grid (start,len in 0..7) x both modes (+ every single marker position in exclusion mode); random part: data 0..4096 bytes, 0..6 ranges with starts/lengths biased to {0, small, len-1, len, len+1, u64::MAX-k}, 0..3 markers. Every case is hashed with each listed chunk size (1,2,3,7,64,4096) and through the public entry; non-trivial = >=2 ranges that overlap or touch, or a marker, or a range ending exactly at the data length.");
    run.assume("markers are generated only in exclusion mode and at distinct offsets; three cases in four build them as the SDK's BMFF callers do (start == offset), one in four gives the marker range a different start inside the data (the marker still contributes at its offset); a marker inside an excluded region may or may not contribute (both digests accepted)");
    run.assume("inclusion mode: digest in sorted-by-start order or in given order are both accepted when they differ");
    run.assume("zero-length data: the documented 'no data to hash' error or the empty digest are both accepted; zero-length ranges beyond the end: error or ignoring them are both accepted");
    run.assume("thread schedules of the hashing pipeline are not controlled; small chunk sizes multiply the hand-off points (stress only)");

    // ---- exhaustive small ------------------------------------------------------------------------------
    let mut cases = vec![];
    let grid: Vec<(u64, u64)> = (0..8u64).flat_map(|s| (0..8u64).map(move |l| (s, l))).collect();
    let maxlen = run.scale(5usize, 6usize);
    for len in 0..=maxlen {
        let data: Vec<u8> = (0..len).map(|i| (i as u8).wrapping_mul(37).wrapping_add(11)).collect();
        for excl in [true, false] {
            // 0 ranges
            cases.push(Case { data: data.clone(), ranges: vec![], markers: vec![], marker_starts: None, exclusion: excl, alg: 0, chunks: vec![1, 3] });
            for (i, r1) in grid.iter().enumerate() {
                cases.push(Case { data: data.clone(), ranges: vec![*r1], markers: vec![], marker_starts: None, exclusion: excl, alg: 0, chunks: vec![1, 3] });
                if excl {
                    for m in 0..len as u64 {
                        cases.push(Case { data: data.clone(), ranges: vec![*r1], markers: vec![m], marker_starts: None, exclusion: true, alg: 0, chunks: vec![1, 4096] });
                    }
                }
                for r2 in grid.iter().skip(i) {
                    cases.push(Case { data: data.clone(), ranges: vec![*r1, *r2], markers: vec![], marker_starts: None, exclusion: excl, alg: (len % 3) as u8, chunks: vec![2] });
                    if r1 != r2 && !excl {
                        // inclusion: given order matters
                        cases.push(Case { data: data.clone(), ranges: vec![*r2, *r1], markers: vec![], marker_starts: None, exclusion: false, alg: 0, chunks: vec![2] });
                    }
                }
            }
        }
    }
    run.extra("exhaustive_small_cases", serde_json::json!(cases.len()));
    run.drive_enum_par("exhaustive_small", cases, 16, |c| judge(&run, c));
    run.set_exhaustive(false);

    // ---- random -------------------------------------------------------------------------------------------
    let strat = (0usize..4097, any::<u64>(), 0usize..7, 0usize..4, any::<bool>(), 0u8..3).prop_flat_map(|(len0, dseed, nr, nm, excl, alg)| {
        // small data lengths are common (shrinks toward 0)
        let len = if len0 % 3 == 0 { len0 % 40 } else { len0 };
        let l = len as u64;
        let point = prop_oneof![
            4 => (0u64..=l.max(1)),
            2 => (0u64..8),
            2 => (0u64..3).prop_map(move |k| l.saturating_sub(k)),
            1 => (0u64..3).prop_map(move |k| l + k),
            1 => (0u64..3).prop_map(|k| u64::MAX - k),
        ];
        let length = prop_oneof![
            4 => (0u64..=l.max(1)),
            3 => (0u64..8),
            1 => (0u64..3).prop_map(move |k| l + k),
            1 => (0u64..3).prop_map(|k| u64::MAX - k),
        ];
        let ranges = proptest::collection::vec((point.clone(), length), nr);
        let markers = proptest::collection::btree_set(0u64..l.max(1), 0..=(if excl && len > 0 { nm.min(len) } else { 0 }));
        (Just(len), Just(dseed), ranges, markers, Just(excl), Just(alg))
    })
    .prop_map(|(len, dseed, mut ranges, markers, excl, alg)| {
        let data = vh::rng::SplitMix64::new(dseed).bytes(len);
        // keep most cases inside the data so that digests (not errors) dominate: clamp 3 of 4 ranges
        let l = len as u64;
        for (i, r) in ranges.iter_mut().enumerate() {
            if (dseed >> i) & 3 != 0 {
                if r.0 > l {
                    r.0 = l;
                }
                if r.0.saturating_add(r.1) > l {
                    r.1 = l - r.0;
                }
            }
        }
        // chunk size 1 on 4 KB would mean 4096 worker hand-offs per hash: bound hand-offs to ~200 per run
        let mut chunks: Vec<usize> = [1usize, 2, 3, 7].iter().copied().filter(|c| len / c <= 48).collect();
        chunks.extend([64, 4096]);
        let markers: Vec<u64> = markers.into_iter().collect();
        // one case in four: marker ranges whose start differs from their offset (still inside the data)
        let marker_starts = if !markers.is_empty() && (dseed >> 20) & 3 == 0 {
            Some(markers.iter().enumerate().map(|(i, m)| (m.wrapping_mul(7).wrapping_add(dseed >> (8 + i))) % l.max(1)).collect())
        } else {
            None
        };
        Case { data, ranges, markers, marker_starts, exclusion: excl, alg, chunks }
    });
    run.drive_par("random_ranges", run.scale(8_000, 120_000), 16, strat, |c| judge(&run, c));
    run.finish();
}
