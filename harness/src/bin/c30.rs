//! C30 — remote manifest references round-trip through XMP.
//!
//! Flow under test (public API only): `Builder::set_remote_url(u)` + `set_no_embed(true)` -> `sign` -> read with
//! `verify.remote_manifest_fetch = false`. Oracle:
//!   * the read fails with `Error::RemoteManifestUrl(u')` and `u' == u` (u is generated in WHATWG-normalised form:
//!     `Url::parse(u).to_string() == u`, because the SDK stores `Url::to_string()`);
//!   * the XMP that the signed asset carries, located by a raw scan of the file bytes and parsed by the harness's
//!     own small XML scanner, holds `dcterms:provenance` on an `rdf:Description` with the XML-unescaped value `u`
//!     (write side judged independently of the reader);
//!   * every XMP property (element, attribute, text, namespace declaration) of every XMP packet the source asset
//!     carried is still present with an equal (XML-unescaped) value in some XMP packet of the signed asset.
//! A fifth of the cases sign with the manifest embedded as well (`no_embed = false`): the asset must then read
//! Valid/Trusted and the two XMP oracles apply unchanged.

use proptest::prelude::*;
use serde::{Deserialize, Serialize};
use serde_json::json;
use std::collections::BTreeMap;
use vh::{sdk, CaseResult, Fail, Run};

use c2pa::{BuilderIntent, DigitalSourceType};

// ------------------------------------------------------------------------------------------------
// URL generator (small index = simple)
// ------------------------------------------------------------------------------------------------

const HOSTS: &[&str] = &[
    "example.com",
    "cai-manifests.adobe.com",
    "a.b-c.example.org",
    "localhost",
    "192.0.2.7",
    "xn--bcher-kva.example",
    "xn--mnchen-3ya.de",
    "xn--80akhbyknj4f.xn--p1ai",
    "[2001:db8::1]",
    "m.xn--fiqs8s",
    "B\u{fc}cher.example", // normalised to punycode by the url crate
    "EXAMPLE.COM",
];
const PORTS: &[&str] = &["", ":8080", ":8443", ":1", ":65535", ":80", ":443"];
const USERS: &[&str] = &["", "user@", "user:pw@", "a&b:c'd@", "u%40x@"];
const PATH_TOKENS: &[&str] = &[
    "a", "manifests", "v1", "x.c2pa", "urn-c2pa-0ab6e8b8-5c28", "~user", "-._", "a;b=1", "a&b", "it's", "%20", "%2F", "%26", "%27",
    "%3C%3E%22", "%C3%A9", "%e2%82%ac", "(1)", "!$*+,=:@", "a%2fb", "<x>", "\"q\"", "\u{e9}", "\u{65e5}\u{672c}", " sp ", "&amp;", "&", "'",
];
const QKEYS: &[&str] = &["a", "b", "id", "sig", "X-Amz-Signature", "q", "a;b", "k'", "%26"];
const QVALS: &[&str] = &[
    "1", "2", "abc", "", "a%26b", "a+b", "%41", "~", "a;b", "1=2", "it's", "<v>", "\"v\"", "a b", "\u{e9}", "&amp;", "2024-01-01T00:00:00Z", "a/b?c", "%3Cx%3E",
];
const FRAGS: &[&str] = &["frag", "", "a&b", "it's", "x=1&y=2", "<f>", "\"f\"", "a b", "%23", "\u{e9}", "/p?x", "&amp;", "'", "&"];

#[derive(Clone, Debug, Serialize, Deserialize, PartialEq, Eq, Hash)]
struct UrlParts {
    https: bool,
    host: usize,
    port: usize,
    user: usize,
    path: Vec<Vec<usize>>,
    trailing_slash: bool,
    query: Vec<(usize, usize)>,
    semicolon_sep: bool,
    fragment: Option<Vec<usize>>,
    pad: usize,
    pad_where: u8,
}

fn url_strategy() -> impl Strategy<Value = UrlParts> {
    (
        any::<bool>(),
        prop_oneof![3 => 0..3usize, 1 => 0..HOSTS.len()],
        prop_oneof![3 => Just(0usize), 1 => 0..PORTS.len()],
        prop_oneof![9 => Just(0usize), 1 => 0..USERS.len()],
        prop::collection::vec(prop::collection::vec(prop_oneof![3 => 0..8usize, 1 => 0..PATH_TOKENS.len()], 1..4), 0..6),
        any::<bool>(),
        prop_oneof![
            2 => Just(vec![]),
            1 => prop::collection::vec((0..6usize, 0..10usize), 1..2),
            2 => prop::collection::vec((prop_oneof![3 => 0..6usize, 1 => 0..QKEYS.len()], prop_oneof![3 => 0..10usize, 1 => 0..QVALS.len()]), 2..5),
        ],
        prop_oneof![9 => Just(false), 1 => Just(true)],
        prop::option::of(prop::collection::vec(prop_oneof![2 => 0..2usize, 1 => 0..FRAGS.len()], 1..3)),
        (prop_oneof![6 => Just(0usize), 2 => 0usize..200, 1 => 200usize..1900], 0u8..3),
    )
        .prop_map(|(https, host, port, user, path, trailing_slash, query, semicolon_sep, fragment, (pad, pad_where))| UrlParts {
            https,
            host,
            port,
            user,
            path,
            trailing_slash,
            query,
            semicolon_sep,
            fragment,
            pad,
            pad_where,
        })
}

/// Raw text of the URL, then WHATWG-normalised by the `url` crate; `None` when it does not parse, is not
/// http(s) after parsing or is not a fixed point of normalisation.
fn build_url(p: &UrlParts) -> Option<String> {
    let filler = "abcdefghij".repeat(p.pad / 10 + 1)[..p.pad].to_string();
    let mut s = String::new();
    s.push_str(if p.https { "https://" } else { "http://" });
    s.push_str(USERS[p.user % USERS.len()]);
    s.push_str(HOSTS[p.host % HOSTS.len()]);
    s.push_str(PORTS[p.port % PORTS.len()]);
    for seg in &p.path {
        s.push('/');
        for t in seg {
            s.push_str(PATH_TOKENS[t % PATH_TOKENS.len()]);
        }
    }
    if p.pad_where == 0 && p.pad > 0 {
        s.push('/');
        s.push_str(&filler);
    }
    if p.trailing_slash || p.path.is_empty() {
        s.push('/');
    }
    if !p.query.is_empty() || (p.pad_where == 1 && p.pad > 0) {
        s.push('?');
        let sep = if p.semicolon_sep { ";" } else { "&" };
        let mut parts: Vec<String> = p.query.iter().map(|(k, v)| format!("{}={}", QKEYS[k % QKEYS.len()], QVALS[v % QVALS.len()])).collect();
        if p.pad_where == 1 && p.pad > 0 {
            parts.push(format!("pad={filler}"));
        }
        s.push_str(&parts.join(sep));
    }
    if let Some(f) = &p.fragment {
        s.push('#');
        for t in f {
            s.push_str(FRAGS[t % FRAGS.len()]);
        }
        if p.pad_where == 2 {
            s.push_str(&filler);
        }
    }
    let u = url::Url::parse(&s).ok()?;
    if u.scheme() != "http" && u.scheme() != "https" {
        return None;
    }
    let n = u.to_string();
    if url::Url::parse(&n).ok()?.to_string() != n || n.len() > 2048 {
        return None;
    }
    Some(n)
}

// ------------------------------------------------------------------------------------------------
// XMP packets built by the harness
// ------------------------------------------------------------------------------------------------

const OLD_URL: &str = "https://old.example/previous/manifest.c2pa?x=1";

/// A hand-built XMP packet; every feature is one bit of `bits` (0 = the plainest packet, so that shrinking by
/// clearing bits moves toward it). `no_description`: an RDF without any rdf:Description (a legal, empty XMP).
fn rich_xmp(bits: u64, force_wrapper: bool, no_description: bool) -> String {
    let bit = |n: u32| bits >> n & 1 == 1;
    let nl = ["", "\n", "\n  ", "\r\n"][(bits >> 22 & 3) as usize];
    let wrapper = force_wrapper || !bit(0);
    let mut s = String::new();
    if wrapper {
        s.push_str(if bit(1) { "<?xpacket begin=\"\u{feff}\" id=\"W5M0MpCehiHzreSzNTczkc9d\"?>" } else { "<?xpacket begin=\"\" id=\"W5M0MpCehiHzreSzNTczkc9d\"?>" });
        s.push_str(nl);
    }
    s.push_str("<x:xmpmeta xmlns:x=\"adobe:ns:meta/\"");
    if bit(2) {
        s.push_str(" x:xmptk=\"Adobe XMP Core 9.1-c002 &amp; 79.a6a6396\"");
    }
    s.push('>');
    s.push_str(nl);
    if bit(3) {
        s.push_str("<!-- generated by verif & co -->");
        s.push_str(nl);
    }
    s.push_str("<rdf:RDF xmlns:rdf=\"http://www.w3.org/1999/02/22-rdf-syntax-ns#\">");
    s.push_str(nl);
    let n_desc = if no_description { 0 } else { 1 + bit(4) as usize };
    for d in 0..n_desc {
        let first = d == 0;
        let q = if bit(5) { '\'' } else { '"' };
        let attr = |name: &str, dq_val: &str, sq_val: &str| -> String {
            if q == '"' {
                format!(" {name}=\"{dq_val}\"")
            } else {
                format!(" {name}='{sq_val}'")
            }
        };
        let same = |name: &str, v: &str| attr(name, v, v);
        s.push_str("<rdf:Description");
        s.push_str(&same("rdf:about", ""));
        let sep = if bit(6) { "\n    " } else { "" };
        let mut attrs: Vec<String> = vec![
            same("xmlns:xmp", "http://ns.adobe.com/xap/1.0/"),
            same("xmlns:xmpMM", "http://ns.adobe.com/xap/1.0/mm/"),
            same("xmlns:dc", "http://purl.org/dc/elements/1.1/"),
            same("xmlns:photoshop", "http://ns.adobe.com/photoshop/1.0/"),
            same("xmlns:stRef", "http://ns.adobe.com/xap/1.0/sType/ResourceRef#"),
            same("xmlns:stEvt", "http://ns.adobe.com/xap/1.0/sType/ResourceEvent#"),
        ];
        let old_ref = first && bit(14);
        if first && (bit(7) || old_ref) {
            attrs.push(same("xmlns:dcterms", "http://purl.org/dc/terms/"));
        }
        if first && bit(8) {
            attrs.push(same("xmp:CreatorTool", "Tool &amp; Die &lt;v1&gt; \u{e9}\u{65e5}"));
        }
        if first && bit(9) {
            attrs.push(attr("photoshop:Headline", "it's &quot;quoted&quot;", "it&apos;s \"quoted\""));
        }
        if first && bit(10) {
            attrs.push(same("xmpMM:DocumentID", "xmp.did:03787e2d56f80bf6"));
        }
        if first && bit(11) {
            attrs.push(same("xmpMM:InstanceID", "xmp.iid:cb9f5498-bb58-4572-8043-8c369e6bfb9b"));
        }
        if bit(12) {
            attrs.push(same("dc:format", "image/jpeg"));
        }
        if first && bit(13) {
            attrs.push(same("photoshop:Instructions", "line1&#xA;line2&#9;tab"));
        }
        if old_ref {
            // a reference left by an earlier run: must be replaced
            attrs.push(same("dcterms:provenance", &OLD_URL.replace('&', "&amp;")));
        }
        for a in &attrs {
            s.push_str(sep);
            s.push_str(a);
        }
        let mut children: Vec<String> = vec![];
        if first && bit(15) {
            children.push("<dc:title><rdf:Alt><rdf:li xml:lang=\"x-default\">T &amp; U &lt;3</rdf:li><rdf:li xml:lang=\"fr\">\u{e9}t\u{e9}</rdf:li></rdf:Alt></dc:title>".into());
        }
        if first && bit(16) {
            children.push(format!("<dc:subject>{nl}<rdf:Bag>{nl}<rdf:li>alpha</rdf:li>{nl}<rdf:li>beta's</rdf:li>{nl}<rdf:li/>{nl}</rdf:Bag>{nl}</dc:subject>"));
        }
        if first && bit(17) {
            children.push("<xmpMM:DerivedFrom rdf:parseType=\"Resource\"><stRef:instanceID>xmp.iid:1</stRef:instanceID><stRef:documentID>xmp.did:2</stRef:documentID></xmpMM:DerivedFrom>".into());
        }
        if first && bit(18) {
            children.push("<dc:description><![CDATA[a < b && c > d]]></dc:description>".into());
        }
        if first && bit(19) {
            children.push("<!-- a comment with dcterms:provenance=\"x\" inside -->".into());
        }
        if bit(20) {
            children.push("<xmp:Rating>5</xmp:Rating>".into());
        }
        // element-content values whose white space sits between / next to entity or character references, and
        // values made of white space only (bits 30..33: rdf:li of a Seq, plain properties, nested structure, Alt)
        if first && bit(30) {
            children.push("<dc:creator><rdf:Seq><rdf:li>&quot;Tom&quot; &amp; &quot;Jerry&quot;</rdf:li><rdf:li> </rdf:li><rdf:li>&lt;b&gt;\t&amp;\n&#x41; &#66;</rdf:li><rdf:li>&amp;  &amp;</rdf:li></rdf:Seq></dc:creator>".into());
        }
        if first && bit(31) {
            children.push("<photoshop:Credit>&amp; &amp;</photoshop:Credit><xmp:Label>  </xmp:Label><photoshop:Source> &quot;lead</photoshop:Source><photoshop:City>trail&apos; </photoshop:City><photoshop:State>\n&#x4E;&#x59; \t&#38;\n</photoshop:State>".into());
        }
        if first && bit(32) {
            children.push(format!("<xmpMM:History>{nl}<rdf:Seq>{nl}<rdf:li rdf:parseType=\"Resource\">{nl}<stEvt:action>&quot;saved&quot; &amp; &quot;closed&quot;</stEvt:action>{nl}<stEvt:parameters>\t</stEvt:parameters>{nl}<stEvt:softwareAgent> &#x41;&#10;&#66; </stEvt:softwareAgent>{nl}</rdf:li>{nl}</rdf:Seq>{nl}</xmpMM:History>"));
        }
        if first && bit(33) {
            children.push("<dc:rights><rdf:Alt><rdf:li xml:lang=\"x-default\">&#169; &#x32;&#x30;24 &amp; &lt;co&gt;</rdf:li><rdf:li xml:lang=\"de\">\n</rdf:li><rdf:li xml:lang=\"fr\"> &amp;</rdf:li></rdf:Alt></dc:rights>".into());
        }
        if children.is_empty() && bit(21) {
            s.push_str("/>");
        } else {
            s.push('>');
            for c in &children {
                s.push_str(nl);
                s.push_str(c);
            }
            s.push_str(nl);
            s.push_str("</rdf:Description>");
        }
        s.push_str(nl);
    }
    s.push_str("</rdf:RDF>");
    s.push_str(nl);
    s.push_str("</x:xmpmeta>");
    if wrapper {
        let pad = [0usize, 1, 20, 300, 2048, 5000, 0, 100][(bits >> 24 & 7) as usize];
        let mut left = pad;
        while left > 0 {
            let k = left.min(100);
            s.push_str(&" ".repeat(k - 1));
            s.push('\n');
            left -= k;
        }
        s.push_str("<?xpacket end=\"w\"?>");
    }
    s
}

// ------------------------------------------------------------------------------------------------
// placing an XMP packet at the format's own XMP location (written from the format specifications)
// ------------------------------------------------------------------------------------------------

fn be16(b: &[u8], p: usize) -> usize {
    u16::from_be_bytes([b[p], b[p + 1]]) as usize
}
fn be32(b: &[u8], p: usize) -> usize {
    u32::from_be_bytes([b[p], b[p + 1], b[p + 2], b[p + 3]]) as usize
}
fn le32(b: &[u8], p: usize) -> usize {
    u32::from_le_bytes([b[p], b[p + 1], b[p + 2], b[p + 3]]) as usize
}
fn find(h: &[u8], n: &[u8]) -> Option<usize> {
    sdk::find_sub(h, n)
}

fn has_xmp(b: &[u8]) -> bool {
    find(b, b"<x:xmpmeta").is_some() || find(b, b"<?xpacket").is_some()
}

/// Top-level ISO boxes tile the file exactly and the last one has an explicit size.
fn iso_boxes_tile(b: &[u8]) -> bool {
    let mut p = 0usize;
    while p < b.len() {
        if p + 8 > b.len() {
            return false;
        }
        let s32 = be32(b, p);
        let size = if s32 == 1 {
            if p + 16 > b.len() {
                return false;
            }
            u64::from_be_bytes(b[p + 8..p + 16].try_into().unwrap()) as usize
        } else if s32 == 0 {
            return false;
        } else {
            s32
        };
        if size < 8 || p + size > b.len() {
            return false;
        }
        p += size;
    }
    true
}

fn syncsafe(n: usize) -> [u8; 4] {
    [((n >> 21) & 0x7f) as u8, ((n >> 14) & 0x7f) as u8, ((n >> 7) & 0x7f) as u8, (n & 0x7f) as u8]
}

/// `Err` = this instance cannot take the packet (caller walks to the next asset seed).
fn insert_xmp(kind: &str, src: &[u8], xmp: &[u8], variant: u64) -> Result<Vec<u8>, String> {
    if has_xmp(src) {
        return Err("instance already carries XMP".into());
    }
    let mut out = src.to_vec();
    match kind {
        "jpeg" => {
            if src.len() < 4 || src[..2] != [0xFF, 0xD8] {
                return Err("no SOI".into());
            }
            let mut pos = 2;
            if src[2] == 0xFF && src[3] == 0xE0 {
                pos = 4 + be16(src, 4);
            }
            let ns = b"http://ns.adobe.com/xap/1.0/\0";
            let len = 2 + ns.len() + xmp.len();
            if len > 65535 {
                return Err("XMP too long for APP1".into());
            }
            let mut seg = vec![0xFF, 0xE1, (len >> 8) as u8, len as u8];
            seg.extend_from_slice(ns);
            seg.extend_from_slice(xmp);
            out.splice(pos..pos, seg);
        }
        "png" => {
            if src.len() < 33 || &src[12..16] != b"IHDR" {
                return Err("IHDR not first".into());
            }
            let mut data = b"XML:com.adobe.xmp\0\0\0\0\0".to_vec();
            data.extend_from_slice(xmp);
            let mut ch = (data.len() as u32).to_be_bytes().to_vec();
            let mut body = b"iTXt".to_vec();
            body.extend_from_slice(&data);
            let crc = vh::assets::crc32(&body);
            ch.extend_from_slice(&body);
            ch.extend_from_slice(&crc.to_be_bytes());
            out.splice(33..33, ch);
        }
        "gif" => {
            if src.len() < 13 {
                return Err("short gif".into());
            }
            let packed = src[10];
            let pos = 13 + if packed & 0x80 != 0 { 3usize << ((packed & 7) + 1) } else { 0 };
            let mut blk = vec![0x21, 0xFF, 0x0B];
            blk.extend_from_slice(b"XMP DataXMP");
            blk.extend_from_slice(xmp);
            blk.push(0x01);
            for v in (0..=255u8).rev() {
                blk.push(v);
            }
            blk.push(0x00);
            out[3..6].copy_from_slice(b"89a");
            out.splice(pos..pos, blk);
        }
        "wav" | "avi" | "webp" => {
            if src.len() < 12 || &src[..4] != b"RIFF" {
                return Err("no RIFF".into());
            }
            let s = le32(src, 4);
            if s % 2 == 1 || 8 + s > src.len() {
                return Err("odd or overlong RIFF size".into());
            }
            let id: &[u8; 4] = if kind == "webp" {
                if &src[12..16] != b"VP8X" {
                    return Err("simple WebP (no VP8X) cannot carry XMP".into());
                }
                out[20] |= 0x04;
                b"XMP "
            } else if variant % 2 == 0 {
                b"_PMX" // the XMP specification's chunk id for WAV / AVI
            } else {
                b"XMP " // what this SDK writes into any RIFF file
            };
            let mut ch = id.to_vec();
            ch.extend_from_slice(&(xmp.len() as u32).to_le_bytes());
            ch.extend_from_slice(xmp);
            if xmp.len() % 2 == 1 {
                ch.push(0);
            }
            let ns = (s + ch.len()) as u32;
            out[4..8].copy_from_slice(&ns.to_le_bytes());
            out.splice(8 + s..8 + s, ch);
        }
        "tiff" => {
            if src.len() < 8 {
                return Err("short tiff".into());
            }
            let le = &src[..2] == b"II";
            let u16_ = |b: &[u8], p: usize| if le { u16::from_le_bytes([b[p], b[p + 1]]) } else { u16::from_be_bytes([b[p], b[p + 1]]) };
            let u32_ = |b: &[u8], p: usize| if le { le32(b, p) } else { be32(b, p) };
            let w16 = |v: u16| if le { v.to_le_bytes() } else { v.to_be_bytes() };
            let w32 = |v: u32| if le { v.to_le_bytes() } else { v.to_be_bytes() };
            if u16_(src, 2) != 42 {
                return Err("not classic TIFF".into());
            }
            let ifd0 = u32_(src, 4);
            if ifd0 + 2 > src.len() {
                return Err("IFD0 out of file".into());
            }
            let n = u16_(src, ifd0) as usize;
            if ifd0 + 2 + 12 * n + 4 > src.len() {
                return Err("IFD0 out of file".into());
            }
            let mut entries: Vec<Vec<u8>> = (0..n).map(|i| src[ifd0 + 2 + 12 * i..ifd0 + 14 + 12 * i].to_vec()).collect();
            if entries.iter().any(|e| u16_(e, 0) == 700) {
                return Err("tag 700 present".into());
            }
            let next = src[ifd0 + 2 + 12 * n..ifd0 + 6 + 12 * n].to_vec();
            if out.len() % 2 == 1 {
                out.push(0);
            }
            let xoff = out.len();
            out.extend_from_slice(xmp);
            if out.len() % 2 == 1 {
                out.push(0);
            }
            let mut e = w16(700).to_vec();
            e.extend_from_slice(&w16(1));
            e.extend_from_slice(&w32(xmp.len() as u32));
            e.extend_from_slice(&w32(xoff as u32));
            entries.push(e);
            entries.sort_by_key(|e| u16_(e, 0));
            let ioff = out.len();
            out.extend_from_slice(&w16((n + 1) as u16));
            for e in &entries {
                out.extend_from_slice(e);
            }
            out.extend_from_slice(&next);
            out[4..8].copy_from_slice(&w32(ioff as u32));
        }
        "svg" => {
            let txt = std::str::from_utf8(src).map_err(|_| "svg not utf-8")?;
            if txt.contains("<metadata") || txt.contains(":metadata") {
                return Err("metadata element present".into());
            }
            // end of the root element's start tag
            let mut at = None;
            let mut i = 0;
            let bytes = txt.as_bytes();
            while let Some(p) = txt[i..].find("<svg") {
                let p = i + p;
                let c = bytes.get(p + 4).copied().unwrap_or(b' ');
                if c.is_ascii_whitespace() || c == b'>' || c == b'/' {
                    at = Some(p);
                    break;
                }
                i = p + 4;
            }
            let start = at.ok_or("no <svg")?;
            // must not be inside a comment
            if let Some(c) = txt[..start].rfind("<!--") {
                if !txt[c..start].contains("-->") {
                    return Err("<svg inside a comment".into());
                }
            }
            let mut q: Option<u8> = None;
            let mut end = None;
            for (k, ch) in bytes[start..].iter().enumerate() {
                match (q, *ch) {
                    (None, b'"') | (None, b'\'') => q = Some(*ch),
                    (Some(x), c) if c == x => q = None,
                    (None, b'>') => {
                        end = Some(start + k);
                        break;
                    }
                    _ => {}
                }
            }
            let end = end.ok_or("unterminated <svg")?;
            if bytes[end - 1] == b'/' {
                return Err("empty root element".into());
            }
            let mut ins = b"<metadata>".to_vec();
            ins.extend_from_slice(xmp);
            ins.extend_from_slice(b"</metadata>");
            out.splice(end + 1..end + 1, ins);
        }
        "mp3" | "flac" => {
            if src.len() >= 3 && &src[..3] == b"ID3" {
                return Err("instance already has an ID3 tag".into());
            }
            let mut frame_data = b"XMP\0".to_vec();
            frame_data.extend_from_slice(xmp);
            let mut frames = b"PRIV".to_vec();
            frames.extend_from_slice(&syncsafe(frame_data.len()));
            frames.extend_from_slice(&[0, 0]);
            frames.extend_from_slice(&frame_data);
            if variant % 3 == 0 {
                // one more ordinary frame in front: TIT2, UTF-8
                let mut t = b"TIT2".to_vec();
                let d = b"\x03verif title";
                t.extend_from_slice(&syncsafe(d.len()));
                t.extend_from_slice(&[0, 0]);
                t.extend_from_slice(d);
                t.extend_from_slice(&frames);
                frames = t;
            }
            let mut tag = b"ID3\x04\x00\x00".to_vec();
            tag.extend_from_slice(&syncsafe(frames.len()));
            tag.extend_from_slice(&frames);
            tag.extend_from_slice(src);
            out = tag;
        }
        "jxl" | "mp4" | "mov" | "heic" | "avif" | "m4a" => {
            if !iso_boxes_tile(src) {
                return Err("last box has no explicit size".into());
            }
            let mut bx = vec![];
            if kind == "jxl" {
                bx.extend_from_slice(&((8 + xmp.len()) as u32).to_be_bytes());
                bx.extend_from_slice(b"xml ");
            } else {
                bx.extend_from_slice(&((24 + xmp.len()) as u32).to_be_bytes());
                bx.extend_from_slice(b"uuid");
                bx.extend_from_slice(&vh::assets::BMFF_XMP_UUID);
            }
            bx.extend_from_slice(xmp);
            out.extend_from_slice(&bx);
        }
        other => return Err(format!("no XMP inserter for {other}")),
    }
    Ok(out)
}

// ------------------------------------------------------------------------------------------------
// the harness's XML scanner: XMP packet text -> multiset of (element path, item, unescaped value)
// ------------------------------------------------------------------------------------------------

type Props = BTreeMap<(String, String, String), u32>;

fn unescape(s: &str) -> String {
    let mut out = String::with_capacity(s.len());
    let mut rest = s;
    while let Some(p) = rest.find('&') {
        out.push_str(&rest[..p]);
        let tail = &rest[p..];
        let Some(semi) = tail.find(';') else {
            out.push_str(tail);
            return out;
        };
        let ent = &tail[1..semi];
        let rep: Option<String> = match ent {
            "amp" => Some("&".into()),
            "lt" => Some("<".into()),
            "gt" => Some(">".into()),
            "quot" => Some("\"".into()),
            "apos" => Some("'".into()),
            e if e.starts_with("#x") || e.starts_with("#X") => u32::from_str_radix(&e[2..], 16).ok().and_then(char::from_u32).map(|c| c.to_string()),
            e if e.starts_with('#') => e[1..].parse::<u32>().ok().and_then(char::from_u32).map(|c| c.to_string()),
            _ => None,
        };
        match rep {
            Some(r) => {
                out.push_str(&r);
                rest = &tail[semi + 1..];
            }
            None => {
                out.push('&');
                rest = &tail[1..];
            }
        }
    }
    out.push_str(rest);
    out
}

fn add(p: &mut Props, path: &[String], item: &str, val: String) {
    *p.entry((path.join("/"), item.to_string(), val)).or_insert(0) += 1;
}

/// Character data of a closed element. A leaf element that is an XMP property value (anything but the RDF
/// scaffolding) keeps its decoded text EXACTLY, white space included (a value may consist of white space only);
/// scaffolding elements and elements with children keep their non-blank pieces trimmed (indentation is not a value).
fn close_element(into: &mut Props, path: &[String], frame: (bool, Vec<String>)) {
    let name = path.last().map(|s| s.as_str()).unwrap_or("");
    let scaffolding = matches!(name, "x:xmpmeta" | "rdf:RDF" | "rdf:Description" | "rdf:Bag" | "rdf:Seq" | "rdf:Alt");
    if !frame.0 && !scaffolding {
        let v: String = frame.1.concat();
        if !v.is_empty() {
            add(into, path, "#text", v);
        }
    } else {
        for t in &frame.1 {
            if !t.trim().is_empty() {
                add(into, path, "#text", t.trim().to_string());
            }
        }
    }
}

/// Scan well-formed XML text. Processing instructions and comments are skipped; whitespace-only text is ignored.
fn xml_props(txt: &str, into: &mut Props) -> Result<(), String> {
    xml_props_flag(txt, into).map(|_| ())
}

/// Same; returns whether a single-quoted attribute value containing a double quote was seen.
fn xml_props_flag(txt: &str, into: &mut Props) -> Result<bool, String> {
    let mut squoted_dquote = false;
    let b = txt.as_bytes();
    let mut i = 0;
    let mut path: Vec<String> = vec![];
    // per open element: (has child elements, decoded character-data pieces)
    let mut frames: Vec<(bool, Vec<String>)> = vec![];
    while i < b.len() {
        if b[i] != b'<' {
            let e = txt[i..].find('<').map(|k| i + k).unwrap_or(b.len());
            if let Some(f) = frames.last_mut() {
                f.1.push(unescape(&txt[i..e]));
            }
            i = e;
            continue;
        }
        let rest = &txt[i..];
        if rest.starts_with("<?") {
            i += rest.find("?>").ok_or("unterminated PI")? + 2;
        } else if rest.starts_with("<!--") {
            i += rest.find("-->").ok_or("unterminated comment")? + 3;
        } else if rest.starts_with("<![CDATA[") {
            let e = rest.find("]]>").ok_or("unterminated CDATA")?;
            if let Some(f) = frames.last_mut() {
                f.1.push(rest[9..e].to_string());
            }
            i += e + 3;
        } else if rest.starts_with("</") {
            let e = rest.find('>').ok_or("unterminated end tag")?;
            let name = rest[2..e].trim();
            match path.last() {
                Some(open) if open == name => {}
                other => return Err(format!("end tag {name} closes {other:?}")),
            }
            close_element(into, &path, frames.pop().unwrap_or_default());
            path.pop();
            i += e + 1;
        } else {
            // start tag
            let mut k = 1;
            let rb = rest.as_bytes();
            while k < rb.len() && !rb[k].is_ascii_whitespace() && rb[k] != b'>' && rb[k] != b'/' {
                k += 1;
            }
            let name = rest[1..k].to_string();
            if name.is_empty() {
                return Err("empty element name".into());
            }
            if let Some(f) = frames.last_mut() {
                f.0 = true;
            }
            path.push(name);
            frames.push((false, vec![]));
            add(into, &path, "#element", String::new());
            let mut empty = false;
            loop {
                while k < rb.len() && rb[k].is_ascii_whitespace() {
                    k += 1;
                }
                if k >= rb.len() {
                    return Err("unterminated start tag".into());
                }
                if rb[k] == b'>' {
                    k += 1;
                    break;
                }
                if rb[k] == b'/' {
                    if rb.get(k + 1) != Some(&b'>') {
                        return Err("stray / in tag".into());
                    }
                    empty = true;
                    k += 2;
                    break;
                }
                let a0 = k;
                while k < rb.len() && rb[k] != b'=' && !rb[k].is_ascii_whitespace() {
                    k += 1;
                }
                let an = rest[a0..k].to_string();
                while k < rb.len() && rb[k].is_ascii_whitespace() {
                    k += 1;
                }
                if rb.get(k) != Some(&b'=') {
                    return Err(format!("attribute {an} without value"));
                }
                k += 1;
                while k < rb.len() && rb[k].is_ascii_whitespace() {
                    k += 1;
                }
                let q = *rb.get(k).ok_or("eof in attribute")?;
                if q != b'"' && q != b'\'' {
                    return Err(format!("attribute {an} not quoted"));
                }
                let v0 = k + 1;
                let ve = rest[v0..].find(q as char).map(|x| v0 + x).ok_or("unterminated attribute value")?;
                if q == b'\'' && rest[v0..ve].contains('"') {
                    squoted_dquote = true;
                }
                add(into, &path, &format!("@{an}"), unescape(&rest[v0..ve]));
                k = ve + 1;
            }
            if empty {
                frames.pop();
                path.pop();
            }
            i += k;
        }
    }
    if !path.is_empty() {
        return Err(format!("unclosed elements {path:?}"));
    }
    Ok(squoted_dquote)
}

/// GIF: the payload of every `XMP Data`/`XMP` application extension. The XMP specification stores the packet raw,
/// followed by the 258-byte magic trailer; this SDK wraps packet + trailer into ordinary data sub-blocks. Both
/// layouts are decoded; the second element names the layout.
fn gif_xmp_payloads(b: &[u8]) -> Vec<(Vec<u8>, &'static str)> {
    let mut trailer = vec![0x01u8];
    trailer.extend((0..=255u8).rev());
    let mut out = vec![];
    let mut i = 0;
    while let Some(p) = find(&b[i..], b"\x21\xFF\x0BXMP DataXMP") {
        let d = i + p + 14;
        // sub-block decoding
        let mut q = d;
        let mut dec = vec![];
        let mut ok = false;
        while q < b.len() {
            let n = b[q] as usize;
            if n == 0 {
                ok = true;
                break;
            }
            if q + 1 + n > b.len() {
                break;
            }
            dec.extend_from_slice(&b[q + 1..q + 1 + n]);
            q += 1 + n;
        }
        if ok && dec.ends_with(&trailer) {
            dec.truncate(dec.len() - trailer.len());
            out.push((dec, "gif-xmp-layout:sub-blocks(sdk)"));
        } else if let Some(t) = find(&b[d..], &trailer) {
            out.push((b[d..d + t].to_vec(), "gif-xmp-layout:raw+magic-trailer(spec)"));
        }
        i = d;
    }
    out
}

/// Every XMP packet (`<x:xmpmeta` … `</x:xmpmeta>`) found by a raw scan of the file bytes.
fn packets(b: &[u8]) -> Vec<String> {
    if b.len() >= 6 && &b[..3] == b"GIF" {
        return gif_xmp_payloads(b).iter().flat_map(|(d, _)| packets_raw(d)).collect();
    }
    packets_raw(b)
}

fn packets_raw(b: &[u8]) -> Vec<String> {
    let mut v = vec![];
    let mut i = 0;
    while let Some(s) = find(&b[i..], b"<x:xmpmeta") {
        let s = i + s;
        match find(&b[s..], b"</x:xmpmeta>") {
            Some(e) => {
                let e = s + e + b"</x:xmpmeta>".len();
                v.push(String::from_utf8_lossy(&b[s..e]).to_string());
                i = e;
            }
            None => break,
        }
    }
    v
}

fn drop_ws_nodes(t: &str) -> String {
    let c: Vec<char> = t.chars().collect();
    let mut out = String::new();
    let mut in_tag = false;
    let mut i = 0;
    while i < c.len() {
        if c[i] == '<' {
            in_tag = true;
        } else if c[i] == '>' {
            in_tag = false;
        }
        if !in_tag && c[i].is_ascii_whitespace() && i > 0 && (c[i - 1] == ';' || c[i - 1] == '>') {
            let mut j = i;
            while j < c.len() && c[j].is_ascii_whitespace() {
                j += 1;
            }
            if j < c.len() && (c[j] == '&' || c[j] == '<') {
                i = j;
                continue;
            }
        }
        out.push(c[i]);
        i += 1;
    }
    out
}

fn props_of(b: &[u8]) -> Result<(Props, usize), String> {
    let mut p = Props::new();
    let ps = packets(b);
    for t in &ps {
        xml_props(t, &mut p)?;
    }
    Ok((p, ps.len()))
}

// ------------------------------------------------------------------------------------------------
// cases
// ------------------------------------------------------------------------------------------------

#[derive(Clone, Debug, Serialize, Deserialize, PartialEq, Eq, Hash)]
struct Case {
    kind: String,
    asset_seed: u64,
    /// "synth" (whatever the synthesiser drew: with or without a plain XMP packet) | "rich" (hand-built packet at the
    /// format's XMP location) | "nodesc" (hand-built packet without rdf:Description) | "resign" (an earlier
    /// remote-reference signing run left its XMP) | "fixture" (a repository fixture with real-world XMP where one exists
    /// for the kind, else as "synth")
    xmp: String,
    xmp_seed: u64,
    embed: bool,
    url: UrlParts,
}

fn case_strategy(kinds: Vec<String>, seeds: u64) -> impl Strategy<Value = Case> {
    (
        0..kinds.len(),
        0..seeds,
        prop_oneof![5 => Just("synth"), 6 => Just("rich"), 2 => Just("resign"), 1 => Just("nodesc"), 2 => Just("fixture")],
        // the quoted headline (bit 9) only in a quarter of the draws: with single-quoted attributes it ends the case at signing
        prop_oneof![3 => prop::bits::u64::masked(0x3_FFFF_FFFF & !(1 << 9)), 1 => prop::bits::u64::masked(0x3_FFFF_FFFF)],
        prop_oneof![4 => Just(false), 1 => Just(true)],
        url_strategy(),
    )
        .prop_map(move |(k, asset_seed, xmp, xmp_seed, embed, url)| Case { kind: kinds[k].clone(), asset_seed, xmp: xmp.to_string(), xmp_seed, embed, url })
}

fn err_kind(e: &c2pa::Error) -> String {
    let d = format!("{e:?}");
    d.chars().take_while(|c| c.is_ascii_alphanumeric() || *c == '_').collect()
}

fn sign_remote(format: &str, src: &[u8], url: &str, no_embed: bool) -> c2pa::Result<Vec<u8>> {
    let def = sdk::simple_definition("c30");
    let mut b = c2pa::Builder::from_context(sdk::context()).with_definition(def.to_string())?;
    b.set_intent(BuilderIntent::Create(DigitalSourceType::Empty));
    b.set_remote_url(url);
    b.set_no_embed(no_embed);
    let signer = sdk::signer("ed25519");
    let mut s = std::io::Cursor::new(src.to_vec());
    let mut d = std::io::Cursor::new(Vec::new());
    b.sign(signer.as_ref(), format, &mut s, &mut d)?;
    Ok(d.into_inner())
}

/// The source asset of a case: (bytes, asset had XMP before signing, note).
fn source_asset(run: &Run, c: &Case) -> Result<Vec<u8>, String> {
    let (mime, _) = vh::assets::kind_format(&c.kind);
    let synth_at = |k: u64| {
        let seed = c.asset_seed.wrapping_add(k).wrapping_mul(0x9E37_79B9).wrapping_add(vh::digest(&c.kind) & 0xffff);
        if c.asset_seed == 0 && k == 0 {
            vh::assets::synth_default(&c.kind).bytes
        } else {
            vh::assets::synth(&c.kind, &mut vh::rng::SplitMix64::new(seed), 600).bytes
        }
    };
    let fixtures: &[&str] = match (c.kind.as_str(), run.quick()) {
        ("jpeg", true) => &["IMG_0003.jpg", "no_manifest.jpg"],
        ("jpeg", false) => &["IMG_0003.jpg", "no_manifest.jpg", "P1000827.jpg", "earth_apollo17.jpg"],
        ("png", _) => &["libpng-test_with_url.png"],
        ("webp", _) => &["test_xmp.webp"],
        ("svg", _) => &["sample1.svg"],
        ("tiff", false) => &["test.tiff"],
        ("mp4", false) => &["video1_no_manifest.mp4"],
        _ => &[],
    };
    match c.xmp.as_str() {
        // repository fixtures that carry real-world XMP (kinds without one fall back to the synthesiser)
        "fixture" if !fixtures.is_empty() => {
            run.count("fixture-with-real-xmp");
            Ok(sdk::fixture(fixtures[c.asset_seed as usize % fixtures.len()]))
        }
        "synth" | "fixture" => Ok(synth_at(0)),
        "resign" => {
            let b = synth_at(0);
            sign_remote(mime, &b, OLD_URL, true).map_err(|e| format!("first signing run failed: {e}"))
        }
        "rich" | "nodesc" => {
            let x = rich_xmp(c.xmp_seed, c.kind == "svg", c.xmp == "nodesc");
            let mut last = String::new();
            for k in 0..80 {
                match insert_xmp(&c.kind, &synth_at(k), x.as_bytes(), (c.xmp_seed >> 27) & 7) {
                    Ok(b) => {
                        if k > 0 {
                            run.count("rich:asset-seed-walked");
                        }
                        return Ok(b);
                    }
                    Err(e) => last = e,
                }
            }
            Err(format!("no instance of {} can take an XMP packet: {last}", c.kind))
        }
        other => Err(format!("bad xmp mode {other}")),
    }
}

fn selftest() -> String {
    std::env::var("VERIF_SELFTEST").unwrap_or_default()
}

fn xml_special_class(u: &str) -> &'static str {
    let amp = u.contains('&');
    let apos = u.contains('\'');
    match (amp, apos) {
        (true, true) => "url:amp+apos",
        (true, false) => "url:amp",
        (false, true) => "url:apos",
        _ => {
            if u.contains("%26") || u.contains("%3C") || u.contains("%22") || u.contains("%27") {
                "url:specials-percent-encoded-only"
            } else {
                "url:no-xml-special"
            }
        }
    }
}

fn judge(run: &Run, c: &Case) -> CaseResult {
    let Some(u) = build_url(&c.url) else {
        run.count("generator_rejected:url");
        return Ok(());
    };
    let (mime, _) = vh::assets::kind_format(&c.kind);
    let fam = vh::walk::family(&c.kind).unwrap_or("?");
    let src = match vh::catch(|| source_asset(run, c)) {
        Ok(Ok(b)) => b,
        Ok(Err(e)) => {
            let cl = format!("generator_rejected:{}:{}", c.kind, c.xmp);
            if run.hist_get(&cl) == 0 {
                run.note(format!("generator_rejected {} {}: {e}", c.kind, c.xmp));
            }
            run.count(&cl);
            return Ok(());
        }
        Err(pm) => {
            let cl = format!("generator_rejected:{}:{}:panic", c.kind, c.xmp);
            if run.hist_get(&cl) == 0 {
                run.note(format!("generator_rejected {} {}: panic {pm}", c.kind, c.xmp));
            }
            run.count(&cl);
            return Ok(());
        }
    };
    let (old_props, old_packets) = match props_of(&src) {
        Ok(x) => x,
        Err(e) => {
            if run.hist_get("generator_rejected:source-xmp-unparsable") == 0 {
                run.note(format!("first of this class follows"));
            }
            run.count("generator_rejected:source-xmp-unparsable");
            if run.hist_get("generator_rejected:source-xmp-unparsable") <= 3 {
                run.note(format!("source XMP of {} {} not parsable by the harness scanner: {e}", c.kind, c.xmp));
            }
            return Ok(());
        }
    };
    let had_xmp = old_packets > 0;
    if std::env::var("VERIF_DEBUG").is_ok() {
        let _ = std::fs::create_dir_all("/verif/work/C30");
        let _ = std::fs::write("/verif/work/C30/debug-src.bin", &src);
        eprintln!("url={u}\nsource packets:");
        for p in packets(&src) {
            eprintln!("{p}\n--");
        }
    }
    let uclass = xml_special_class(&u);
    run.count(uclass);
    run.count(&format!("{}:{}:{}", c.kind, c.xmp, if had_xmp { "had-xmp" } else { "no-xmp" }));
    run.count(if c.embed { "flow:embed+remote" } else { "flow:remote-only" });
    run.count(match u.len() {
        0..=63 => "urllen:<64",
        64..=255 => "urllen:64-255",
        256..=1023 => "urllen:256-1023",
        _ => "urllen:>=1024",
    });
    if c.xmp == "rich" {
        let mut any = false;
        for (bit, name) in [(30, "rdf:li"), (31, "plain-element"), (32, "nested-struct"), (33, "lang-alt")] {
            if c.xmp_seed >> bit & 1 == 1 {
                any = true;
                run.count(&format!("xmp-value:ws-between/next-to-refs+ws-only:{name}"));
            }
        }
        if any {
            run.count("xmp-value:ws-between/next-to-refs+ws-only:any");
        }
    }
    if had_xmp || uclass == "url:amp" || uclass == "url:apos" || uclass == "url:amp+apos" {
        run.nontrivial(&(c.kind.clone(), c.xmp.clone(), c.xmp_seed, u.clone(), had_xmp));
    }
    let desc = format!("{} ({} bytes, xmp mode {}, {} XMP packet(s) before signing, {}) url {u:?}", c.kind, src.len(), c.xmp, old_packets, if c.embed { "embedded+remote" } else { "remote only" });

    let gif_spec_layout = c.kind == "gif" && gif_xmp_payloads(&src).iter().any(|(_, l)| l.contains("(spec)"));
    if c.kind == "gif" {
        for (_, layout) in gif_xmp_payloads(&src) {
            run.count(&format!("{layout}:before-signing"));
        }
    }
    let mut fails: Vec<Fail> = vec![];
    let signed = match vh::catch(|| sign_remote(mime, &src, &u, !c.embed)) {
        Ok(Ok(b)) => b,
        Ok(Err(e)) => {
            let sq = packets(&src).iter().any(|t| xml_props_flag(t, &mut Props::new()).unwrap_or(false));
            // differential diagnosis for SVG: the same source without its UTF-8 byte order mark
            let bom_only = c.kind == "svg" && src.starts_with(&[0xEF, 0xBB, 0xBF]) && matches!(vh::catch(|| sign_remote(mime, &src[3..], &u, !c.embed)), Ok(Ok(_)));
            let sig = if sq && matches!(e, c2pa::Error::XmpReadError(_)) {
                "C30:embed-fails:single-quoted-attr-containing-dquote".to_string()
            } else if bom_only {
                format!("C30:embed-fails:svg-with-utf8-bom:{}", if c.embed { "embedded+remote" } else { "remote-only" })
            } else {
                format!("C30:sign-failed:{}:{fam}:{}", err_kind(&e), c.xmp)
            };
            return Err(Fail::new(sig, format!("signing with a remote reference fails: {e}; {desc}")));
        }
        Err(pm) => {
            return Err(Fail::new(format!("C30:sign-panic:{}", vh::core::panic_site(&pm)), format!("signing with a remote reference panics: {pm}; {desc}")));
        }
    };

    // (1) what the reader extracts
    let mut got: Result<String, String> = match vh::catch(|| sdk::read(mime, &signed)) {
        Err(pm) => Err(format!("panic:{}", vh::core::panic_site(&pm))),
        Ok(Ok(r)) => Err(format!("ok:{}", sdk::state_name(r.validation_state()))),
        Ok(Err(c2pa::Error::RemoteManifestUrl(x))) => Ok(x),
        Ok(Err(e)) => Err(format!("err:{}", err_kind(&e))),
    };
    match selftest().as_str() {
        // a reader that drops the fragment
        "dropfragment" => {
            if let Ok(x) = &mut got {
                if let Some(p) = x.find('#') {
                    x.truncate(p);
                }
            }
        }
        // a perfect reader (XML-unescapes the attribute): only non-escaping defects may remain
        "unescape" => {
            if let Ok(x) = &mut got {
                *x = unescape(x);
            }
        }
        _ => {}
    }
    if c.embed {
        match &got {
            Err(s) if s == "ok:Valid" || s == "ok:Trusted" => {}
            other => fails.push(Fail::new(format!("C30:embed-flow-not-valid:{fam}"), format!("asset signed with embedded manifest + remote reference reads {other:?}; {desc}"))),
        }
    } else {
        match &got {
            Ok(x) if *x == u => {}
            Ok(x) => {
                let amp_only = u.replace('&', "&amp;");
                let full = u.replace('&', "&amp;").replace('\'', "&apos;");
                let sig = if *x == full && u.contains('\'') {
                    "C30:apostrophe-escaped-on-read".to_string()
                } else if *x == amp_only && u.contains('&') {
                    "C30:ampersand-escaped-on-read".to_string()
                } else {
                    format!("C30:url-differs:{fam}")
                };
                fails.push(Fail::new(sig, format!("reader reports RemoteManifestUrl({x:?}); {desc}")));
            }
            Err(s) => fails.push(Fail::new(format!("C30:url-not-reported:{s}:{fam}:{}", c.xmp), format!("read gives {s} instead of RemoteManifestUrl; {desc}"))),
        }
    }

    // (recorded, not judged: the property speaks about the URL and the XMP properties only) is the rest of the asset
    // still what it was? Units of the independent walker that hold XMP are left out; the old units must appear in
    // the same order among the new ones.
    {
        let is_xmp_unit = |name: &str, bytes: &[u8]| {
            name.contains(":tag700:") || find(bytes, b"<x:xmpmeta").is_some() || find(bytes, b"<?xpacket").is_some() || find(bytes, b"XMP DataXMP").is_some() || bytes.starts_with(b"XMP\0")
        };
        match (vh::catch(|| vh::walk::media_content_normalised(&c.kind, &src)), vh::catch(|| vh::walk::media_content_normalised(&c.kind, &signed))) {
            (Ok(Ok(old)), Ok(Ok(new))) => {
                let new: Vec<&(String, Vec<u8>)> = new.iter().filter(|(n, b)| !is_xmp_unit(n, b)).collect();
                let mut at = 0;
                let mut lost: Option<String> = None;
                for (n, b) in old.iter().filter(|(n, b)| !is_xmp_unit(n, b)) {
                    match new[at..].iter().position(|x| x.0 == *n && x.1 == *b) {
                        Some(k) => at += k + 1,
                        None => {
                            lost = Some(n.clone());
                            break;
                        }
                    }
                }
                match lost {
                    None => run.count(&format!("media(recorded):{fam}:unchanged")),
                    Some(n) => {
                        let n: String = n.chars().take(24).collect();
                        let cl = format!("media(recorded):{fam}:changed:{n}");
                        if run.hist_get(&cl) == 0 {
                            run.note(format!("media content changed (recorded only): unit {n}; {desc}"));
                        }
                        run.count(&cl);
                    }
                }
            }
            (Ok(Ok(_)), _) => {
                let cl = format!("media(recorded):{fam}:signed-asset-not-walkable");
                if run.hist_get(&cl) == 0 {
                    run.note(format!("signed asset not walkable by the independent walker (recorded only); {desc}"));
                }
                run.count(&cl);
            }
            _ => run.count(&format!("media(recorded):{fam}:source-not-walkable")),
        }
    }

    // (2) what was written, read by the harness scanner
    let signed_props = if selftest() == "dropws" {
        // emulate a writer that drops white-space-only character-data nodes (quick-xml splits character data at
        // every reference): outside tags, white space bounded by ';' or '>' on the left and '&' or '<' on the right
        let mut p = Props::new();
        let ps = packets(&signed);
        ps.iter().try_for_each(|t| xml_props(&drop_ws_nodes(t), &mut p)).map(|_| (p, ps.len()))
    } else {
        props_of(&signed)
    };
    match signed_props {
        Err(e) => fails.push(Fail::new(format!("C30:written-xmp-malformed:{fam}"), format!("XMP of the signed asset is not well-formed for the harness scanner: {e}; {desc}"))),
        Ok((mut new_props, n_packets)) => {
            if c.kind == "gif" {
                for (_, layout) in gif_xmp_payloads(&signed) {
                    run.count(&format!("{layout}:after-signing"));
                }
            }
            if std::env::var("VERIF_DEBUG").is_ok() {
                let _ = std::fs::write("/verif/work/C30/debug-signed.bin", &signed);
                eprintln!("reader: {got:?}\nsigned packets:");
                for p in packets(&signed) {
                    eprintln!("{p}\n--");
                }
            }
            if selftest() == "loseprop" {
                // a writer that loses the last pre-existing property
                if let Some(k) = old_props.keys().filter(|k| k.1 != "@dcterms:provenance").next_back().cloned() {
                    new_props.remove(&k);
                }
            }
            let written: Vec<&String> = new_props.iter().filter(|((p, item, _), _)| item == "@dcterms:provenance" && p.ends_with("rdf:Description")).map(|((_, _, v), _)| v).collect();
            if !written.iter().any(|v| **v == u) {
                fails.push(Fail::new(
                    format!("C30:written-reference-wrong:{fam}:{}", c.xmp),
                    format!("{n_packets} XMP packet(s) after signing; dcterms:provenance attribute values found by the harness: {written:?}; {desc}"),
                ));
            }
            // (3) preservation
            for (k, n) in &old_props {
                if k.1 == "@dcterms:provenance" && k.0.ends_with("rdf:Description") {
                    continue; // replaced by design
                }
                let have = new_props.get(k).copied().unwrap_or(0);
                if have < *n {
                    fails.push(Fail::new(
                        if gif_spec_layout { "C30:xmp-property-lost:gif-spec-layout-xmp-not-recognised".to_string() } else { format!("C30:xmp-property-lost:{fam}:{}", c.xmp) },
                        format!("XMP item {} {} = {:?} present {n}x before signing, {have}x after; {desc}", k.0, k.1, k.2),
                    ));
                    break;
                }
            }
        }
    }
    if c.xmp == "nodesc" && !c.embed && fails.iter().any(|f| f.signature.starts_with("C30:written-reference-wrong")) && fails.iter().all(|f| f.signature.starts_with("C30:written-reference-wrong") || f.signature.starts_with("C30:url-not-reported:err:JumbfNotFound")) {
        let what = format!("signing succeeds but no reference is written and the reader finds none (XMP packet without rdf:Description); {}", fails[0].what);
        return Err(Fail::new("C30:reference-silently-dropped:xmp-without-rdf-description", what));
    }
    if c.xmp == "nodesc" && c.embed && fails.len() == 1 && fails[0].signature.starts_with("C30:written-reference-wrong") {
        return Err(Fail::new("C30:reference-silently-dropped:xmp-without-rdf-description", fails[0].what.clone()));
    }
    if fails.is_empty() {
        return Ok(());
    }
    // escape-on-read failures last, so that a case showing two known classes is counted under the rarer one
    fails.sort_by_key(|f| f.signature.ends_with("-escaped-on-read"));
    // report an unknown failure before a known one
    let pos = fails.iter().position(|f| !run.is_known(&f.signature)).unwrap_or(0);
    Err(fails.swap_remove(pos))
}

fn main() {
    vh::quiet_panics();
    let run = Run::from_args("C30", "exploration");
    run.set_rule("case = (container kind with a remote-reference writer, synthesised asset, XMP situation, URL, flow). XMP situation: as synthesised (no XMP or the synthesiser's plain packet), a hand-built rich packet placed at the format's own XMP location by harness code written from the format specifications (JPEG APP1, PNG iTXt, GIF application extension, RIFF _PMX / 'XMP ' chunk, TIFF tag 700 in a rewritten IFD0, SVG metadata, ID3 PRIV/XMP frame for MP3 and FLAC, BMFF XMP uuid box, JXL 'xml ' box; packets vary quoting, entities, namespaces, 1-2 rdf:Description, nested Alt/Bag/struct children, CDATA, comments, padding 0..5000, with/without xpacket wrapper, optional pre-existing dcterms:provenance), a packet without rdf:Description, or the XMP left by an earlier remote-reference signing run. URL: http/https built from token tables (hosts incl. IPv4/IPv6/punycode/ports/userinfo, path segments with sub-delims & ' ; ~ and percent-escapes, queries a=1&b=2 / ';'-separated, fragments, filler up to 2 KB), then WHATWG-normalised with the url crate and kept only if a fixed point. Flow: remote only (4/5) or embedded + remote (1/5). Non-trivial = URL contains a raw & or ' or the asset already had XMP.");
    run.assume("the url crate (same version as the SDK's) defines the normal form; a URL that is not a fixed point of Url::parse(..).to_string() is not generated");
    run.assume("XMP packets are located by a raw scan for <x:xmpmeta ... </x:xmpmeta> in the file bytes (all supported containers store XMP as plain UTF-8) and parsed by a private scanner; properties are compared after XML unescaping as multisets of (element path, attribute or text, value); the asset keeps a property when any packet of the signed asset holds it");
    run.assume("a hand-built packet placed at the XMP specification's location that the SDK does not look at (e.g. _PMX in WAV/AVI) must merely survive; the SDK then adds its own packet");

    let kinds: Vec<String> = vh::assets::KINDS.iter().filter(|k| c2pa::verif_hooks::has_remote_ref(vh::assets::kind_format(k).0)).map(|k| k.to_string()).collect();
    let without: Vec<&str> = vh::assets::KINDS.iter().filter(|k| !kinds.iter().any(|x| x == *k)).copied().collect();
    run.extra("kinds_with_remote_ref_writer", json!(kinds));
    run.extra("kinds_without_remote_ref_writer", json!(without));
    run.extra("pdf_has_remote_ref_writer_not_generated", json!(c2pa::verif_hooks::has_remote_ref("application/pdf")));
    if kinds.len() < 8 {
        run.inconclusive(format!("only {} kinds report a remote reference writer", kinds.len()));
    }

    // scanner self-check (harness sanity, not an SDK judgement)
    {
        let mut p = Props::new();
        let t = "<x:xmpmeta xmlns:x='adobe:ns:meta/'><rdf:RDF><rdf:Description a=\"1 &amp; 2\" b='it&apos;s'><c>t &lt; u</c><d/></rdf:Description></rdf:RDF></x:xmpmeta>";
        if xml_props(t, &mut p).is_err()
            || p.get(&("x:xmpmeta/rdf:RDF/rdf:Description".into(), "@a".into(), "1 & 2".into())) != Some(&1)
            || p.get(&("x:xmpmeta/rdf:RDF/rdf:Description".into(), "@b".into(), "it's".into())) != Some(&1)
            || p.get(&("x:xmpmeta/rdf:RDF/rdf:Description/c".into(), "#text".into(), "t < u".into())) != Some(&1)
        {
            run.inconclusive("harness XML scanner self-check failed");
        }
        let mut r = vh::rng::SplitMix64::new(7);
        for seed in 0..300u64 {
            for nd in [false, true] {
                let x = rich_xmp(if seed < 28 { 1 << seed } else { r.next_u64() }, seed % 2 == 0, nd);
                let mut q = Props::new();
                if let Err(e) = packets(x.as_bytes()).iter().try_for_each(|t| xml_props(t, &mut q)) {
                    run.inconclusive(format!("hand-built packet {seed} is not well-formed for the scanner: {e}"));
                }
            }
        }
    }

    let n = run.scale(400 * kinds.len() as u32, 3000 * kinds.len() as u32);
    let seeds = run.scale(6u64, 400u64);
    run.drive_par("remote_url_roundtrip", n, 16, case_strategy(kinds.clone(), seeds), |c| judge(&run, c));
    run.finish();
}
