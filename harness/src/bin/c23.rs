//! C23 — cancellation is always reported as cancellation.
//!
//! For every operation (sign per format, sign with ingredient / parent, placeholder → hash → sign_embeddable
//! flows, read embedded / sidecar / fragmented / with ingredients, add_ingredient_from_stream) a dry run
//! records the progress-callback trace (n invocations). Then, for every k < n:
//!   * `cb-at`    — the callback returns false exactly at invocation k (true before and after),
//!   * `cb-from`  — the callback returns false from invocation k on,
//!   * `flag-at`  — a second thread calls `Context::cancel()` while the operation is parked inside
//!                  invocation k (the callback then returns true: only the flag carries the request),
//! plus `flag-before` (context cancelled before the operation starts).
//! Oracle (from the property text): the operation ends with `Error::OperationCancelled`; `Ok(_)` in any
//! state or any other error is a failure. The dry-run trace must satisfy: step >= 1, total == 0 or
//! step <= total, steps strictly increase inside a maximal run of callbacks with the same phase.

use std::{
    collections::HashMap,
    io::Cursor,
    sync::{
        atomic::{AtomicU32, Ordering},
        Arc, Condvar, Mutex, OnceLock,
    },
};

use c2pa::{Builder, BuilderIntent, Context, DigitalSourceType, HashRange, Reader};
use serde::{Deserialize, Serialize};
use serde_json::json;
use vh::{sdk, CaseResult, Fail, Run};

// ------------------------------------------------------------------------------------------------
// operations
// ------------------------------------------------------------------------------------------------

#[derive(Clone, Debug, Serialize, Deserialize, PartialEq, Eq, Hash)]
struct OpSpec {
    /// sign | sign-thumb | sign-edit | sign-ingredient | embeddable | embeddable-box | embeddable-legacy |
    /// read | read-sidecar | read-fragment | ingredient
    kind: String,
    /// MIME type / extension handed to the SDK
    format: String,
    /// asset name: a fixture file, or `signed:<fixture>|<format>` (the fixture signed by the harness)
    file: String,
    /// second asset: ingredient (sign-ingredient, as `<format>|<asset>`), fragment (read-fragment), manifest store (read-sidecar)
    extra: String,
}

impl OpSpec {
    fn new(kind: &str, format: &str, file: &str, extra: &str) -> Self {
        OpSpec { kind: kind.into(), format: format.into(), file: file.into(), extra: extra.into() }
    }

    fn name(&self) -> String {
        if self.extra.is_empty() {
            format!("{}:{}", self.kind, self.file)
        } else {
            format!("{}:{}+{}", self.kind, self.file, self.extra)
        }
    }

    /// operation family used in failure signatures
    fn family(&self) -> &str {
        match self.kind.as_str() {
            "sign" | "sign-thumb" | "sign-edit" | "sign-box" => "sign",
            "sign-ingredient" => "sign-with-ingredient",
            "embeddable" | "embeddable-box" | "embeddable-legacy" => "embeddable",
            "read" => "read",
            "read-sidecar" => "read-sidecar",
            "read-fragment" => "read-fragment",
            "ingredient" => "ingredient",
            _ => "op",
        }
    }
}

fn asset(name: &str) -> Arc<Vec<u8>> {
    static CACHE: OnceLock<Mutex<HashMap<String, Arc<Vec<u8>>>>> = OnceLock::new();
    let cache = CACHE.get_or_init(|| Mutex::new(HashMap::new()));
    if let Some(a) = cache.lock().unwrap().get(name) {
        return a.clone();
    }
    let bytes = if let Some(rest) = name.strip_prefix("signedbox:") {
        // box-hash binding (selected by the compressed-manifest setting)
        let (file, format) = rest.split_once('|').expect("signedbox:<file>|<format>");
        let mut st = sdk::base_settings(true);
        st["core"] = json!({"prefer_compress_manifests": true});
        sdk::sign_with(
            sdk::context_with(&st),
            &sdk::simple_definition("c23 prepared"),
            Some(BuilderIntent::Create(DigitalSourceType::Empty)),
            sdk::signer("ed25519").as_ref(),
            format,
            &sdk::fixture(file),
        )
        .unwrap_or_else(|e| panic!("prepare {name}: {e}"))
    } else if let Some(rest) = name.strip_prefix("signed:") {
        let (file, format) = rest.split_once('|').expect("signed:<file>|<format>");
        sdk::sign_simple(format, &sdk::fixture(file), "c23 prepared").unwrap_or_else(|e| panic!("prepare {name}: {e}"))
    } else {
        sdk::fixture(name)
    };
    // several threads may prepare the same asset concurrently (signing is randomised): the first insert wins
    // and everybody uses that one
    cache.lock().unwrap().entry(name.to_string()).or_insert_with(|| Arc::new(bytes)).clone()
}

fn settings_for(op: &OpSpec) -> serde_json::Value {
    let mut s = sdk::base_settings(true);
    if op.kind == "sign-thumb" {
        s["builder"]["thumbnail"]["enabled"] = json!(true);
    }
    if op.kind == "embeddable-box" {
        s["builder"]["prefer_box_hash"] = json!(true);
    }
    if op.kind == "sign-box" {
        s["core"] = json!({"prefer_compress_manifests": true});
    }
    s
}

fn definition() -> String {
    sdk::simple_definition("c23").to_string()
}

fn read_outcome(r: &Reader) -> String {
    format!("state={} failures={:?}", sdk::state_name(r.validation_state()), sdk::failure_codes(r))
}

/// Run the operation on `ctx`. Multi-call flows stop at the first error (`?`), as a caller would.
fn run_op(op: &OpSpec, ctx: &Arc<Context>) -> c2pa::Result<String> {
    let signer = sdk::signer("ed25519");
    match op.kind.as_str() {
        "sign" | "sign-thumb" | "sign-edit" | "sign-box" | "sign-ingredient" => {
            let src = asset(&op.file);
            let mut b = Builder::from_shared_context(ctx).with_definition(definition())?;
            if op.kind == "sign-edit" {
                b.set_intent(BuilderIntent::Edit);
            } else {
                b.set_intent(BuilderIntent::Create(DigitalSourceType::Empty));
            }
            if op.kind == "sign-ingredient" {
                let (ifmt, iname) = op.extra.split_once('|').expect("format|asset");
                let ing = asset(iname);
                b.add_ingredient_from_stream(
                    json!({"title": "ingredient", "relationship": "componentOf"}).to_string(),
                    ifmt,
                    &mut Cursor::new(&ing[..]),
                )?;
            }
            let mut s = Cursor::new(&src[..]);
            let mut d = Cursor::new(Vec::new());
            b.sign(signer.as_ref(), &op.format, &mut s, &mut d)?;
            Ok(format!("signed {} bytes", d.get_ref().len()))
        }
        "embeddable" | "embeddable-box" => {
            let src = asset(&op.file);
            let mut b = Builder::from_shared_context(ctx).with_definition(definition())?;
            b.set_intent(BuilderIntent::Create(DigitalSourceType::Empty));
            if op.kind == "embeddable-box" {
                // direct workflow: hash the asset box-wise, sign, caller embeds
                let mut s = Cursor::new(&src[..]);
                b.update_hash_from_stream(&op.format, &mut s)?;
                let m = b.sign_embeddable(&op.format)?;
                return Ok(format!("embeddable {} bytes", m.len()));
            }
            let ph = b.placeholder(&op.format)?;
            let at = insertion_point(&op.format, &src);
            let mut out = Vec::with_capacity(src.len() + ph.len());
            out.extend_from_slice(&src[..at]);
            out.extend_from_slice(&ph);
            out.extend_from_slice(&src[at..]);
            if !is_bmff(&op.format) {
                b.set_data_hash_exclusions(vec![HashRange::new(at as u64, ph.len() as u64)])?;
            }
            let mut s = Cursor::new(&out[..]);
            b.update_hash_from_stream(&op.format, &mut s)?;
            let m = b.sign_embeddable(&op.format)?;
            Ok(format!("embeddable {} bytes (placeholder {})", m.len(), ph.len()))
        }
        "embeddable-legacy" => {
            use c2pa::assertions::DataHash;
            let src = asset(&op.file);
            let mut b = Builder::from_shared_context(ctx).with_definition(definition())?;
            b.set_intent(BuilderIntent::Create(DigitalSourceType::Empty));
            let ph = b.data_hashed_placeholder(signer.reserve_size(), &op.format)?;
            let at = insertion_point(&op.format, &src);
            let mut out = Vec::with_capacity(src.len() + ph.len());
            out.extend_from_slice(&src[..at]);
            out.extend_from_slice(&ph);
            out.extend_from_slice(&src[at..]);
            let mut dh = DataHash::new("source_hash", "sha256");
            dh.exclusions = Some(vec![HashRange::new(at as u64, ph.len() as u64)]);
            let hash = c2pa::hash_stream_by_alg("sha256", &mut Cursor::new(&out[..]), dh.exclusions.clone(), true)?;
            dh.set_hash(hash);
            let m = b.sign_data_hashed_embeddable(signer.as_ref(), &dh, &op.format)?;
            Ok(format!("embeddable {} bytes", m.len()))
        }
        "read" => {
            let a = asset(&op.file);
            let r = Reader::from_shared_context(ctx).with_stream(&op.format, Cursor::new(&a[..]))?;
            Ok(read_outcome(&r))
        }
        "read-sidecar" => {
            let a = asset(&op.file);
            let m = asset(&op.extra);
            let r = Reader::from_shared_context(ctx).with_manifest_data_and_stream(&m, &op.format, Cursor::new(&a[..]))?;
            Ok(read_outcome(&r))
        }
        "read-fragment" => {
            let a = asset(&op.file);
            let f = asset(&op.extra);
            let r = Reader::from_shared_context(ctx).with_fragment(&op.format, Cursor::new(&a[..]), Cursor::new(&f[..]))?;
            Ok(read_outcome(&r))
        }
        "ingredient" => {
            let a = asset(&op.file);
            let mut b = Builder::from_shared_context(ctx);
            let ing = b.add_ingredient_from_stream(
                json!({"title": "ingredient", "relationship": "componentOf"}).to_string(),
                &op.format,
                &mut Cursor::new(&a[..]),
            )?;
            let mut fails: Vec<String> = vec![];
            if let Some(vr) = ing.validation_results() {
                if let Some(am) = vr.active_manifest() {
                    fails.extend(am.failure().iter().map(|s| s.code().to_string()));
                }
            }
            if let Some(vs) = ing.validation_status() {
                fails.extend(vs.iter().map(|s| format!("status:{}", s.code())));
            }
            fails.sort();
            Ok(format!("ingredient manifest={} failures={:?}", ing.active_manifest().is_some(), fails))
        }
        other => Err(c2pa::Error::BadParam(format!("harness: unknown op kind {other}"))),
    }
}

fn is_bmff(format: &str) -> bool {
    matches!(format, "video/mp4" | "audio/mp4" | "image/avif" | "image/heic" | "image/heif" | "video/quicktime")
}

/// Where an application would put the placeholder: after SOI for JPEG, after `ftyp` for BMFF.
fn insertion_point(format: &str, src: &[u8]) -> usize {
    if is_bmff(format) {
        u32::from_be_bytes([src[0], src[1], src[2], src[3]]) as usize
    } else {
        2
    }
}

// ------------------------------------------------------------------------------------------------
// probing context
// ------------------------------------------------------------------------------------------------

#[derive(Clone, Copy, Debug, PartialEq, Eq)]
enum Mode {
    Dry,
    CbAt(u32),
    CbFrom(u32),
    FlagAt(u32),
    FlagBefore,
    /// cancel() from a helper thread after spinning `n` yields (not tied to a callback)
    FlagDelay(u64),
}

#[derive(Default)]
struct Probe {
    count: AtomicU32,
    trace: Mutex<Vec<(String, u32, u32)>>,
    /// (fired, proceed, done)
    gate: Mutex<(bool, bool, bool)>,
    cv: Condvar,
}

struct RunResult {
    result: Result<c2pa::Result<String>, String>,
    trace: Vec<(String, u32, u32)>,
}

fn execute(op: &OpSpec, mode: Mode) -> RunResult {
    let probe = Arc::new(Probe::default());
    let p = probe.clone();
    let mut ctx = sdk::context_with(&settings_for(op)).with_progress_callback(move |phase, step, total| {
        let idx = p.count.fetch_add(1, Ordering::SeqCst);
        p.trace.lock().unwrap().push((format!("{phase:?}"), step, total));
        match mode {
            Mode::Dry | Mode::FlagBefore | Mode::FlagDelay(_) => true,
            Mode::CbAt(k) => idx != k,
            Mode::CbFrom(k) => idx < k,
            Mode::FlagAt(k) => {
                if idx == k {
                    let mut g = p.gate.lock().unwrap();
                    g.0 = true;
                    p.cv.notify_all();
                    let _g = p.cv.wait_while(g, |s| !s.1).unwrap();
                }
                true
            }
        }
    });
    if op.kind.starts_with("embeddable") {
        ctx = ctx.with_signer(sdk::signer("ed25519"));
    }
    let ctx = ctx.into_shared();
    if mode == Mode::FlagBefore {
        ctx.cancel();
    }
    let result = match mode {
        Mode::FlagAt(_) | Mode::FlagDelay(_) => std::thread::scope(|s| {
            let ctx2 = ctx.clone();
            let p2 = probe.clone();
            s.spawn(move || match mode {
                Mode::FlagAt(_) => {
                    // wait until the operation is parked inside invocation k (or finished without reaching it)
                    let g = p2.gate.lock().unwrap();
                    let mut g = p2.cv.wait_while(g, |s| !s.0 && !s.2).unwrap();
                    if g.0 {
                        ctx2.cancel();
                        g.1 = true;
                        p2.cv.notify_all();
                    }
                }
                Mode::FlagDelay(n) => {
                    for _ in 0..n {
                        if p2.gate.lock().unwrap().2 {
                            break;
                        }
                        std::thread::yield_now();
                        std::hint::spin_loop();
                    }
                    ctx2.cancel();
                }
                _ => {}
            });
            let r = vh::catch(|| run_op(op, &ctx));
            let mut g = probe.gate.lock().unwrap();
            g.2 = true;
            g.1 = true;
            probe.cv.notify_all();
            drop(g);
            r
        }),
        _ => vh::catch(|| run_op(op, &ctx)),
    };
    let trace = probe.trace.lock().unwrap().clone();
    RunResult { result, trace }
}

fn error_variant(e: &c2pa::Error) -> String {
    let d = format!("{e:?}");
    d.split(|c: char| !(c.is_alphanumeric() || c == '_')).next().unwrap_or("Error").to_string()
}

// ------------------------------------------------------------------------------------------------
// cases
// ------------------------------------------------------------------------------------------------

#[derive(Clone, Debug, Serialize, Deserialize, PartialEq, Eq, Hash)]
struct Case {
    op: OpSpec,
    /// cb-at | cb-from | flag-at | flag-before
    mode: String,
    k: u32,
}

fn judge_cancel(run: &Run, c: &Case, selftest: bool) -> CaseResult {
    let mode = match c.mode.as_str() {
        "cb-at" => Mode::CbAt(c.k),
        "cb-from" => Mode::CbFrom(c.k),
        "flag-at" => Mode::FlagAt(c.k),
        "flag-before" => Mode::FlagBefore,
        other => return Err(Fail::new("C23:harness-bad-mode", other.to_string())),
    };
    let rr = execute(&c.op, mode);
    let reached = rr.trace.len() as u32 > c.k;
    if !reached {
        // the cancellation was never requested (trace shorter than in the dry run): nothing to judge
        run.count("k_not_reached");
        return Ok(());
    }
    let phase = rr.trace[c.k as usize].0.clone();
    let first_phase = rr.trace[0].0.clone();
    run.count(&format!("mode_{}", c.mode));
    run.count(&format!("cancel_in_{phase}"));
    run.count(&format!("family_{}", c.op.family()));
    if phase != first_phase {
        run.nontrivial(c);
    }
    let fam = c.op.family();
    // checkpoints that belong to an ingredient import nested in a signing flow get their own signature class
    let seg = if fam.starts_with("sign") { segment(&rr.trace, c.k as usize) } else { "" };
    let what_ctx = format!(
        "{} mode {} k={} ({} step {}/{})",
        c.op.name(),
        c.mode,
        c.k,
        phase,
        rr.trace[c.k as usize].1,
        rr.trace[c.k as usize].2
    );
    let mut result = rr.result;
    if selftest {
        // sensitivity self-test: pretend the SDK swallowed the cancellation at a Signing checkpoint
        if phase == "Signing" {
            result = Ok(Ok("selftest: fake success".into()));
        }
    }
    match result {
        Err(p) => Err(Fail::new(format!("C23:panic:{}", vh::core::panic_site(&p)), format!("{what_ctx}: panic {p}"))),
        Ok(Err(c2pa::Error::OperationCancelled)) => {
            run.count("ended_cancelled");
            Ok(())
        }
        Ok(Ok(outcome)) => Err(Fail::new(
            format!("C23:{fam}-cancel-at-{seg}{phase}-returns-ok"),
            format!("{what_ctx}: cancellation requested but the operation returned Ok ({outcome})"),
        )),
        Ok(Err(e)) => Err(Fail::new(
            format!("C23:{fam}-cancel-at-{seg}{phase}-returns-error-{}", error_variant(&e)),
            format!("{what_ctx}: cancellation requested but the operation returned a different error: {e:?}"),
        )),
    }
}

/// "ingredient-" when callback k lies between an AddingIngredient callback and the next callback of the
/// signing pipeline proper (the import of a parent / component ingredient), else "".
fn segment(trace: &[(String, u32, u32)], k: usize) -> &'static str {
    let mut seg = "";
    for (phase, _, _) in &trace[..=k.min(trace.len() - 1)] {
        match phase.as_str() {
            "AddingIngredient" => seg = "ingredient-",
            "Writing" | "Hashing" | "Signing" | "Thumbnail" | "Embedding" | "Reading" => seg = "",
            _ => {}
        }
    }
    seg
}

fn check_trace(op: &OpSpec, trace: &[(String, u32, u32)]) -> CaseResult {
    for (i, (phase, step, total)) in trace.iter().enumerate() {
        if *step < 1 {
            return Err(Fail::new(
                format!("C23:trace-step-not-positive-{phase}"),
                format!("{}: callback #{i} {phase} step {step}/{total}", op.name()),
            ));
        }
        if *total != 0 && step > total {
            return Err(Fail::new(
                format!("C23:trace-step-exceeds-total-{phase}"),
                format!("{}: callback #{i} {phase} step {step} > total {total}", op.name()),
            ));
        }
        if i > 0 && trace[i - 1].0 == *phase && *step <= trace[i - 1].1 {
            return Err(Fail::new(
                format!("C23:trace-step-not-increasing-{phase}"),
                format!(
                    "{}: consecutive callbacks #{} and #{i} of phase {phase} have steps {} then {step} (trace {:?})",
                    op.name(),
                    i - 1,
                    trace[i - 1].1,
                    trace
                ),
            ));
        }
    }
    Ok(())
}

/// Writable formats with a fixture the SDK can actually sign (`tiff_poc.tiff` is rejected: too many subfiles).
fn fixtures() -> Vec<(&'static str, &'static str, &'static str)> {
    sdk::writable_fixtures()
        .into_iter()
        .filter(|(_, _, f)| !f.is_empty())
        .map(|(l, m, f)| if f == "tiff_poc.tiff" { (l, m, "TUSCANY.TIF") } else { (l, m, f) })
        .collect()
}

fn ops_for() -> Vec<OpSpec> {
    let mut ops = vec![];
    // --- signing, every writable format
    for (_label, fmt, file) in fixtures() {
        ops.push(OpSpec::new("sign", fmt, file, ""));
    }
    // box-hash binding inside Builder::sign (compressed-manifest setting selects it)
    ops.push(OpSpec::new("sign-box", "image/jpeg", "no_manifest.jpg", ""));
    ops.push(OpSpec::new("sign-box", "image/png", "libpng-test.png", ""));
    ops.push(OpSpec::new("sign-thumb", "image/jpeg", "no_manifest.jpg", ""));
    ops.push(OpSpec::new("sign-thumb", "image/png", "libpng-test.png", ""));
    // parent captured from the source by the Edit intent (source with and without a manifest)
    ops.push(OpSpec::new("sign-edit", "image/jpeg", "C.jpg", ""));
    ops.push(OpSpec::new("sign-edit", "image/jpeg", "no_manifest.jpg", ""));
    ops.push(OpSpec::new("sign-edit", "image/png", "libpng-test.png", ""));
    // explicit ingredient
    ops.push(OpSpec::new("sign-ingredient", "image/jpeg", "no_manifest.jpg", "image/jpeg|CA.jpg"));
    ops.push(OpSpec::new("sign-ingredient", "image/png", "libpng-test.png", "image/jpeg|no_manifest.jpg"));
    ops.push(OpSpec::new("sign-ingredient", "image/webp", "test.webp", "image/jpeg|CACA.jpg"));
    {
        ops.push(OpSpec::new("sign-ingredient", "video/mp4", "video1_no_manifest.mp4", "video/mp4|video1.mp4"));
        ops.push(OpSpec::new("sign-thumb", "image/webp", "test.webp", ""));
        ops.push(OpSpec::new("sign-edit", "video/mp4", "video1.mp4", ""));
    }
    // --- placeholder / embeddable flows
    ops.push(OpSpec::new("embeddable", "image/jpeg", "no_manifest.jpg", ""));
    ops.push(OpSpec::new("embeddable", "video/mp4", "video1_no_manifest.mp4", ""));
    ops.push(OpSpec::new("embeddable", "image/avif", "sample1.avif", ""));
    ops.push(OpSpec::new("embeddable-box", "image/jpeg", "no_manifest.jpg", ""));
    ops.push(OpSpec::new("embeddable-box", "image/png", "libpng-test.png", ""));
    ops.push(OpSpec::new("embeddable-legacy", "image/jpeg", "no_manifest.jpg", ""));
    // --- reading: repository fixtures with manifests
    for f in ["C.jpg", "CA.jpg", "CACA.jpg", "XCA.jpg", "boxhash.jpg"] {
        ops.push(OpSpec::new("read", "image/jpeg", f, ""));
    }
    ops.push(OpSpec::new("read", "video/mp4", "video1.mp4", ""));
    {
        for f in ["CIE-sig-CA.jpg", "E-sig-CA.jpg", "CACAE-uri-CA.jpg", "adobe-20220124-E-clm-CAICAI.jpg", "ocsp.jpg", "update_manifest.jpg", "legacy_ingredient_hash.jpg"] {
            ops.push(OpSpec::new("read", "image/jpeg", f, ""));
        }
        ops.push(OpSpec::new("read", "video/mp4", "legacy.mp4", ""));
    }
    // --- reading: every writable format, signed by the harness
    for (_label, fmt, file) in fixtures() {
        ops.push(OpSpec::new("read", fmt, &format!("signed:{file}|{fmt}"), ""));
    }
    ops.push(OpSpec::new("read", "application/c2pa", "cloud_manifest.c2pa", ""));
    ops.push(OpSpec::new("read", "image/jpeg", "signedbox:no_manifest.jpg|image/jpeg", ""));
    ops.push(OpSpec::new("read", "image/png", "signedbox:libpng-test.png|image/png", ""));
    ops.push(OpSpec::new("read-sidecar", "image/jpeg", "cloud.jpg", "cloud_manifest.c2pa"));
    ops.push(OpSpec::new("read-fragment", "video/mp4", "dashinit.mp4", "dash1.m4s"));
    // --- ingredient import
    for (fmt, f) in [
        ("image/jpeg", "C.jpg"),
        ("image/jpeg", "CA.jpg"),
        ("image/jpeg", "CACA.jpg"),
        ("image/jpeg", "no_manifest.jpg"),
        ("image/jpeg", "boxhash.jpg"),
        ("video/mp4", "video1.mp4"),
        ("image/png", "signed:libpng-test.png|image/png"),
    ] {
        ops.push(OpSpec::new("ingredient", fmt, f, ""));
    }
    ops
}

fn main() {
    vh::quiet_panics();
    let run = Run::from_args("C23", "fault_enumeration");
    let selftest = std::env::var("VERIF_SELFTEST").ok().as_deref() == Some("1");
    run.set_rule("operations = sign for each of the 15 writable fixture formats (+thumbnail, +Edit-intent parent, +explicit ingredient), placeholder→update_hash_from_stream→sign_embeddable flows (JPEG, MP4, AVIF, box-hash direct mode, legacy data-hashed), read embedded (repository fixtures C/CA/CACA/XCA/boxhash/video1 and every writable format signed by the harness), read sidecar (cloud_manifest.c2pa+cloud.jpg), read fragmented (dashinit.mp4+dash1.m4s), add_ingredient_from_stream. Per operation a dry run gives the callback trace (n invocations); cases = every k<n x {callback false exactly at k, callback false from k on, cancel() from a second thread while parked inside invocation k} + cancel() before start. A fresh Context per run. Non-trivial = invocation k belongs to a phase other than the first phase of the trace.");
    run.assume("the callback trace of an operation is the same in every run with the same inputs (checked: a run that does not reach invocation k is counted k_not_reached and not judged)");
    run.assume("a multi-call flow (placeholder flow, add ingredient then sign) is one operation: it ends at the first call that returns an error, which must be OperationCancelled");
    run.assume("thread-cancel point is made reproducible by parking the operation inside callback k until cancel() has returned; random-delay cancels (thorough) are not schedule-controlled");

    let ops = ops_for();

    // ---- dry runs: traces + invariants -----------------------------------------------------------------
    let dry: Mutex<HashMap<OpSpec, (Vec<(String, u32, u32)>, String)>> = Mutex::new(HashMap::new());
    run.drive_enum_par("trace_invariants", ops.clone(), 8, |op: &OpSpec| {
        let rr = execute(op, Mode::Dry);
        let outcome = match rr.result {
            Err(p) => return Err(Fail::new(format!("C23:harness-dry-run-panic:{}", vh::core::panic_site(&p)), format!("{}: {p}", op.name()))),
            Ok(Err(e)) => {
                run.inconclusive(format!("dry run of {} failed: {e:?}", op.name()));
                return Ok(());
            }
            Ok(Ok(o)) => o,
        };
        run.count_n("dry_callbacks", rr.trace.len() as u64);
        for (ph, _, _) in &rr.trace {
            run.count(&format!("dry_phase_{ph}"));
        }
        // determinism of the trace (assumption of the enumeration, not part of the property)
        let again = execute(op, Mode::Dry);
        if again.trace != rr.trace {
            run.count("trace_nondeterministic");
            run.note(format!("{}: two dry runs gave different traces", op.name()));
        }
        if rr.trace.len() >= 2 {
            run.nontrivial(op);
        }
        dry.lock().unwrap().insert(op.clone(), (rr.trace.clone(), outcome));
        check_trace(op, &rr.trace)
    });
    let dry = dry.into_inner().unwrap();
    let mut trace_summary = serde_json::Map::new();
    for op in &ops {
        if let Some((t, o)) = dry.get(op) {
            let s: Vec<String> = t.iter().map(|(p, s, n)| format!("{p} {s}/{n}")).collect();
            trace_summary.insert(op.name(), json!({"n": t.len(), "trace": s.join(", "), "outcome": o}));
        }
    }
    run.extra("dry_runs", serde_json::Value::Object(trace_summary));

    // ---- every k, every mode ----------------------------------------------------------------------------
    let mut cases = vec![];
    // small k first across all operations so that the first failure per signature is minimal
    let max_n = dry.values().map(|(t, _)| t.len()).max().unwrap_or(0) as u32;
    for k in 0..max_n {
        for op in &ops {
            let Some((t, _)) = dry.get(op) else { continue };
            if (k as usize) < t.len() {
                for mode in ["cb-at", "cb-from", "flag-at"] {
                    cases.push(Case { op: op.clone(), mode: mode.into(), k });
                }
                if k == 0 {
                    cases.push(Case { op: op.clone(), mode: "flag-before".into(), k: 0 });
                }
            }
        }
    }
    run.extra("cancel_cases", json!(cases.len()));
    run.extra("operations", json!(ops.len()));
    run.drive_enum_par("cancel_every_k", cases, 8, |c| judge_cancel(&run, c, selftest));
    run.set_exhaustive(true);

    // ---- random-delay cancels from another thread (thorough only) -------------------------------------
    if !run.quick() {
        #[derive(Clone, Debug, Serialize, Deserialize, PartialEq, Eq, Hash)]
        struct DelayCase {
            op: OpSpec,
            spins: u64,
        }
        let mut rng = vh::rng::SplitMix64::new(run.seed ^ 0xC23);
        let mut dcases = vec![];
        for op in &ops {
            if dry.get(op).is_none() {
                continue;
            }
            for _ in 0..300 {
                let spins = match rng.below(4) {
                    0 => rng.below(50),
                    1 => rng.below(2_000),
                    2 => rng.below(50_000),
                    _ => rng.below(1_000_000),
                };
                dcases.push(DelayCase { op: op.clone(), spins });
            }
        }
        run.drive_enum_par("cancel_random_delay", dcases, 8, |c: &DelayCase| {
            let rr = execute(&c.op, Mode::FlagDelay(c.spins));
            let fam = c.op.family();
            let uncancelled = &dry[&c.op].1;
            match rr.result {
                Err(p) => Err(Fail::new(format!("C23:panic:{}", vh::core::panic_site(&p)), format!("{}: {p}", c.op.name()))),
                Ok(Err(c2pa::Error::OperationCancelled)) => {
                    run.count("delay_cancelled");
                    run.nontrivial(c);
                    Ok(())
                }
                Ok(Ok(o)) => {
                    run.count("delay_completed");
                    // reports of reads / imports must be those of the uncancelled run (signed sizes are not compared)
                    if (fam.starts_with("read") || fam == "ingredient") && &o != uncancelled {
                        return Err(Fail::new(
                            format!("C23:{fam}-random-cancel-changes-report"),
                            format!("{}: cancel() at a random delay gave Ok({o}) but the uncancelled run gives {uncancelled}", c.op.name()),
                        ));
                    }
                    Ok(())
                }
                Ok(Err(e)) => Err(Fail::new(
                    format!("C23:{fam}-random-cancel-returns-error-{}", error_variant(&e)),
                    format!("{}: cancel() at a random delay gave {e:?}", c.op.name()),
                )),
            }
        });
    }
    run.finish();
}
