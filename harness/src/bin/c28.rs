//! C28 — no network access unless the configuration enables it.
//!
//! Observation points (no SDK logic involved):
//!   * a recording resolver installed with `Context::with_resolver` **and** `with_resolver_async` (answers 404, or serves the
//!     side-car manifest when the case says so) — every request the SDK hands to the Context's resolver;
//!   * a harness HTTP listener on 127.0.0.1:<ephemeral port> (one per worker thread). **Every URL in every input** (remote
//!     manifest reference, OCSP responder in the AIA extension of a generated signing certificate, time-stamp authority)
//!     points at that listener, so a request that bypasses the Context's resolver is seen there as a real connection;
//!   * thorough tier: a batch of cases re-run in a child process under `strace -f -e trace=connect`; any AF_INET/AF_INET6
//!     connect to a non-loopback address fails the run.
//!
//! Oracle: the harness computes from the case (settings, asset kind, signer, operation) which request kinds the
//! configuration asked for; every observed request must be of an allowed kind and carry the URL the input named.
//! Reading a remote-only asset with `verify.remote_manifest_fetch=false` must give `Err(Error::RemoteManifestUrl(u))`
//! with `u` = the referenced URL.

use std::{
    cell::RefCell,
    collections::{BTreeSet, HashMap},
    io::{Cursor, Read, Write},
    net::TcpListener,
    rc::Rc,
    sync::{Arc, Mutex},
};

use async_trait::async_trait;
use c2pa::{
    http::{AsyncHttpResolver, HttpResolverError, SyncHttpResolver},
    AsyncSigner, Builder, BuilderIntent, Context, DigitalSourceType, Reader, Signer, SigningAlg,
};
use http::{Request, Response};
use proptest::prelude::*;
use serde::{Deserialize, Serialize};
use serde_json::{json, Value};
use vh::{pki, sdk, CaseResult, Fail, Run};

// =====================================================================================================
// case
// =====================================================================================================

/// Prepared asset variants (per base asset). Index = discriminant.
const KINDS: [&str; 6] = ["unsigned", "embedded", "remote-only", "remote+embedded", "aia-embedded", "aia-remote-only"];
const K_UNSIGNED: u8 = 0;
const K_REMOTE_ONLY: u8 = 2;
const K_REMOTE_EMBEDDED: u8 = 3;
const K_AIA_EMBEDDED: u8 = 4;
const K_AIA_REMOTE_ONLY: u8 = 5;

#[derive(Clone, Debug, Serialize, Deserialize, PartialEq, Eq, Hash)]
struct Case {
    /// 0 read, 1 add ingredient, 2 sign (with the asset of `kind` added as ingredient first unless `kind` is unsigned)
    op: u8,
    asynch: bool,
    /// base asset index (mod pool size)
    base: u8,
    /// prepared variant (index into KINDS)
    kind: u8,
    /// verify.remote_manifest_fetch: 0 false, 1 true, 2 not set (SDK default)
    remote_fetch: u8,
    ocsp_fetch: bool,
    /// builder.certificate_status_fetch: 0 not set, 1 "active", 2 "all"
    csf: u8,
    /// builder.certificate_status_should_override: 0 not set, 1 false, 2 true
    cs_override: u8,
    /// builder.auto_timestamp_assertion.enabled
    auto_ts: bool,
    /// 0 no TSA, 1 TSA URL (default sender), 2 TSA URL + overridden `send_timestamp_request`
    signer: u8,
    /// sign with the generated certificate that carries an OCSP URL (AIA)
    signer_aia: bool,
    /// sign output: 0 embedded, 1 remote only (`set_remote_url` + `set_no_embed`), 2 remote + embedded
    out: u8,
    /// 0 recording resolver answering 404, 1 recording resolver serving the side-car manifest,
    /// 2 no custom resolver (the SDK's default HTTP stack; requests arrive at the loopback listener)
    resolver: u8,
}

// =====================================================================================================
// loopback listener
// =====================================================================================================

#[derive(Clone, Debug)]
struct Hit {
    method: String,
    path: String,
}

struct Listener {
    port: u16,
    hits: Arc<Mutex<Vec<Hit>>>,
    routes: Arc<Mutex<HashMap<String, Vec<u8>>>>,
}

fn start_listener() -> Listener {
    let l = TcpListener::bind("127.0.0.1:0").expect("bind loopback listener");
    let port = l.local_addr().expect("addr").port();
    let hits: Arc<Mutex<Vec<Hit>>> = Arc::new(Mutex::new(vec![]));
    let routes: Arc<Mutex<HashMap<String, Vec<u8>>>> = Arc::new(Mutex::new(HashMap::new()));
    let (h2, r2) = (hits.clone(), routes.clone());
    std::thread::Builder::new()
        .name("c28-listener".into())
        .spawn(move || {
            for conn in l.incoming() {
                let Ok(mut s) = conn else { continue };
                let _ = s.set_read_timeout(Some(std::time::Duration::from_secs(3)));
                let mut buf: Vec<u8> = vec![];
                let mut tmp = [0u8; 4096];
                let mut head_end = None;
                while head_end.is_none() && buf.len() < 1 << 20 {
                    match s.read(&mut tmp) {
                        Ok(0) | Err(_) => break,
                        Ok(n) => {
                            buf.extend_from_slice(&tmp[..n]);
                            head_end = sdk::find_sub(&buf, b"\r\n\r\n");
                        }
                    }
                }
                let head = String::from_utf8_lossy(&buf[..head_end.unwrap_or(buf.len())]).to_string();
                let mut first = head.lines().next().unwrap_or("").split_whitespace();
                let method = first.next().unwrap_or("").to_string();
                let path = first.next().unwrap_or("").to_string();
                // drain the body so the client does not see a reset
                let clen: usize = head
                    .lines()
                    .find_map(|l| l.to_ascii_lowercase().strip_prefix("content-length:").map(|v| v.trim().parse().unwrap_or(0)))
                    .unwrap_or(0);
                if let Some(he) = head_end {
                    let mut have = buf.len() - (he + 4);
                    while have < clen {
                        match s.read(&mut tmp) {
                            Ok(0) | Err(_) => break,
                            Ok(n) => have += n,
                        }
                    }
                }
                // record before answering: the client cannot return before the hit is logged
                h2.lock().unwrap().push(Hit { method, path: path.clone() });
                let body = r2.lock().unwrap().get(&path).cloned();
                let resp = match body {
                    Some(b) => {
                        let mut r = format!("HTTP/1.1 200 OK\r\nContent-Type: application/c2pa\r\nContent-Length: {}\r\nConnection: close\r\n\r\n", b.len()).into_bytes();
                        r.extend(b);
                        r
                    }
                    None => b"HTTP/1.1 503 Service Unavailable\r\nContent-Length: 0\r\nConnection: close\r\n\r\n".to_vec(),
                };
                let _ = s.write_all(&resp);
                let _ = s.flush();
            }
        })
        .expect("listener thread");
    Listener { port, hits, routes }
}

// =====================================================================================================
// recording resolver
// =====================================================================================================

#[derive(Clone, Debug)]
struct Rec {
    method: String,
    uri: String,
}

#[derive(Clone)]
struct Recorder {
    log: Arc<Mutex<Vec<Rec>>>,
    /// url -> body served with 200 (everything else: 404, empty body)
    serve: Arc<HashMap<String, Vec<u8>>>,
}

impl Recorder {
    fn answer(&self, req: Request<Vec<u8>>) -> Result<Response<Box<dyn Read>>, HttpResolverError> {
        let uri = req.uri().to_string();
        self.log.lock().unwrap().push(Rec { method: req.method().as_str().to_string(), uri: uri.clone() });
        let (status, body) = match self.serve.get(&uri) {
            Some(b) => (200, b.clone()),
            None => (404, vec![]),
        };
        Response::builder()
            .status(status)
            .header("content-length", body.len().to_string())
            .body(Box::new(Cursor::new(body)) as Box<dyn Read>)
            .map_err(HttpResolverError::Http)
    }
}

impl SyncHttpResolver for Recorder {
    fn http_resolve(&self, request: Request<Vec<u8>>) -> Result<Response<Box<dyn Read>>, HttpResolverError> {
        self.answer(request)
    }
}

#[async_trait]
impl AsyncHttpResolver for Recorder {
    async fn http_resolve_async(&self, request: Request<Vec<u8>>) -> Result<Response<Box<dyn Read>>, HttpResolverError> {
        tokio::task::yield_now().await;
        self.answer(request)
    }
}

// =====================================================================================================
// signers
// =====================================================================================================

/// TSA URL announced, SDK's default `send_timestamp_request` (private default Context => real connection).
struct TsaDefault {
    inner: Box<dyn Signer + Send + Sync>,
    url: Option<String>,
}

impl Signer for TsaDefault {
    fn sign(&self, data: &[u8]) -> c2pa::Result<Vec<u8>> {
        self.inner.sign(data)
    }
    fn alg(&self) -> SigningAlg {
        self.inner.alg()
    }
    fn certs(&self) -> c2pa::Result<Vec<Vec<u8>>> {
        self.inner.certs()
    }
    fn reserve_size(&self) -> usize {
        self.inner.reserve_size() + 8192
    }
    fn time_authority_url(&self) -> Option<String> {
        self.url.clone()
    }
}

/// TSA URL announced, but the caller supplies its own sender (which contacts nobody).
struct TsaOverride {
    inner: Box<dyn Signer + Send + Sync>,
    url: Option<String>,
    calls: Arc<Mutex<u32>>,
}

impl Signer for TsaOverride {
    fn sign(&self, data: &[u8]) -> c2pa::Result<Vec<u8>> {
        self.inner.sign(data)
    }
    fn alg(&self) -> SigningAlg {
        self.inner.alg()
    }
    fn certs(&self) -> c2pa::Result<Vec<Vec<u8>>> {
        self.inner.certs()
    }
    fn reserve_size(&self) -> usize {
        self.inner.reserve_size() + 8192
    }
    fn time_authority_url(&self) -> Option<String> {
        self.url.clone()
    }
    fn send_timestamp_request(&self, _message: &[u8]) -> Option<c2pa::Result<Vec<u8>>> {
        *self.calls.lock().unwrap() += 1;
        None
    }
}

struct AsyncTsaDefault(TsaDefault);

#[async_trait]
impl AsyncSigner for AsyncTsaDefault {
    async fn sign(&self, data: Vec<u8>) -> c2pa::Result<Vec<u8>> {
        self.0.inner.sign(&data)
    }
    fn alg(&self) -> SigningAlg {
        self.0.inner.alg()
    }
    fn certs(&self) -> c2pa::Result<Vec<Vec<u8>>> {
        self.0.inner.certs()
    }
    fn reserve_size(&self) -> usize {
        self.0.inner.reserve_size() + 8192
    }
    fn time_authority_url(&self) -> Option<String> {
        self.0.url.clone()
    }
}

struct AsyncTsaOverride(TsaOverride);

#[async_trait]
impl AsyncSigner for AsyncTsaOverride {
    async fn sign(&self, data: Vec<u8>) -> c2pa::Result<Vec<u8>> {
        self.0.inner.sign(&data)
    }
    fn alg(&self) -> SigningAlg {
        self.0.inner.alg()
    }
    fn certs(&self) -> c2pa::Result<Vec<Vec<u8>>> {
        self.0.inner.certs()
    }
    fn reserve_size(&self) -> usize {
        self.0.inner.reserve_size() + 8192
    }
    fn time_authority_url(&self) -> Option<String> {
        self.0.url.clone()
    }
    async fn send_timestamp_request(&self, _message: &[u8]) -> Option<c2pa::Result<Vec<u8>>> {
        *self.0.calls.lock().unwrap() += 1;
        None
    }
}

// =====================================================================================================
// per-thread world: listener + prepared assets whose URLs point at it
// =====================================================================================================

struct Base {
    label: String,
    format: String,
    /// variants by kind index; `None` = could not be prepared for this format
    variants: Vec<Option<Vec<u8>>>,
    /// remote manifest URL used for the remote variants of this base asset
    remote_url: String,
    /// side-car manifests: (remote-only, aia-remote-only)
    sidecars: (Vec<u8>, Vec<u8>),
}

struct World {
    listener: Listener,
    tsa_url: String,
    ocsp_prefix: String,
    chain: pki::Chain,
    bases: Vec<Base>,
}

#[derive(Clone)]
struct BaseSpec {
    label: String,
    format: String,
    bytes: Vec<u8>,
}

fn no_network_settings() -> Value {
    json!({
        "verify": { "remote_manifest_fetch": false, "ocsp_fetch": false },
        "builder": { "thumbnail": { "enabled": false } }
    })
}

fn definition() -> Value {
    json!({
        "title": "c28",
        "claim_generator_info": [{ "name": "verif-harness", "version": "0.1" }],
        "assertions": [{ "label": "org.verif.note", "data": { "note": "c28" } }]
    })
}

fn prep_sign(spec: &BaseSpec, signer: &dyn Signer, remote: Option<&str>, no_embed: bool) -> c2pa::Result<(Vec<u8>, Vec<u8>)> {
    let ctx = sdk::context_with(&no_network_settings());
    let mut b = Builder::from_context(ctx).with_definition(definition().to_string())?;
    b.set_intent(BuilderIntent::Create(DigitalSourceType::Empty));
    if let Some(u) = remote {
        b.set_remote_url(u);
        b.set_no_embed(no_embed);
    }
    let mut src = Cursor::new(spec.bytes.clone());
    let mut dst = Cursor::new(Vec::new());
    let manifest = b.sign(signer, &spec.format, &mut src, &mut dst)?;
    Ok((dst.into_inner(), manifest))
}

fn build_world(specs: &[BaseSpec]) -> World {
    let listener = start_listener();
    let port = listener.port;
    let tsa_url = format!("http://127.0.0.1:{port}/tsa");
    let ocsp_prefix = format!("http://127.0.0.1:{port}/ocsp/");
    let mut cs = pki::ChainSpec::simple(2, pki::KeyKind::P256, pki::KeyKind::P256, "c28");
    cs.ee = cs.ee.clone().with_ocsp_url(&ocsp_prefix);
    let chain = pki::make_chain(&cs, pki::now_epoch()).expect("generated chain");
    let plain = sdk::signer("ed25519");
    let aia = pki::PkiSigner::from_chain(&chain);
    let mut bases = vec![];
    for (i, spec) in specs.iter().enumerate() {
        let remote_url = format!("http://127.0.0.1:{port}/m/{i}.c2pa");
        let mut variants: Vec<Option<Vec<u8>>> = vec![None; KINDS.len()];
        variants[K_UNSIGNED as usize] = Some(spec.bytes.clone());
        variants[1] = prep_sign(spec, plain.as_ref(), None, false).ok().map(|x| x.0);
        let ro = prep_sign(spec, plain.as_ref(), Some(&remote_url), true).ok();
        variants[K_REMOTE_EMBEDDED as usize] = prep_sign(spec, plain.as_ref(), Some(&remote_url), false).ok().map(|x| x.0);
        variants[K_AIA_EMBEDDED as usize] = prep_sign(spec, &aia, None, false).ok().map(|x| x.0);
        let aro = prep_sign(spec, &aia, Some(&remote_url), true).ok();
        let sidecars = (ro.as_ref().map(|x| x.1.clone()).unwrap_or_default(), aro.as_ref().map(|x| x.1.clone()).unwrap_or_default());
        variants[K_REMOTE_ONLY as usize] = ro.map(|x| x.0);
        variants[K_AIA_REMOTE_ONLY as usize] = aro.map(|x| x.0);
        bases.push(Base { label: spec.label.clone(), format: spec.format.clone(), variants, remote_url, sidecars });
    }
    World { listener, tsa_url, ocsp_prefix, chain, bases }
}

thread_local! {
    static WORLD: RefCell<Option<Rc<World>>> = const { RefCell::new(None) };
}

fn world(specs: &[BaseSpec]) -> Rc<World> {
    WORLD.with(|w| {
        let mut g = w.borrow_mut();
        if g.is_none() {
            *g = Some(Rc::new(build_world(specs)));
        }
        g.as_ref().unwrap().clone()
    })
}

// =====================================================================================================
// running one case
// =====================================================================================================

fn settings_for(c: &Case) -> Value {
    let mut verify = serde_json::Map::new();
    match c.remote_fetch % 3 {
        0 => {
            verify.insert("remote_manifest_fetch".into(), json!(false));
        }
        1 => {
            verify.insert("remote_manifest_fetch".into(), json!(true));
        }
        _ => {}
    }
    verify.insert("ocsp_fetch".into(), json!(c.ocsp_fetch));
    let mut builder = serde_json::Map::new();
    builder.insert("thumbnail".into(), json!({ "enabled": false }));
    match c.csf % 3 {
        1 => {
            builder.insert("certificate_status_fetch".into(), json!("active"));
        }
        2 => {
            builder.insert("certificate_status_fetch".into(), json!("all"));
        }
        _ => {}
    }
    match c.cs_override % 3 {
        1 => {
            builder.insert("certificate_status_should_override".into(), json!(false));
        }
        2 => {
            builder.insert("certificate_status_should_override".into(), json!(true));
        }
        _ => {}
    }
    if c.auto_ts {
        builder.insert("auto_timestamp_assertion".into(), json!({ "enabled": true, "skip_existing": false, "fetch_scope": "all" }));
    }
    json!({ "verify": verify, "builder": builder })
}

fn block_on<F: std::future::Future>(f: F) -> F::Output {
    tokio::runtime::Builder::new_current_thread().enable_all().build().expect("tokio runtime").block_on(f)
}

#[derive(Debug)]
enum Outcome {
    Ok,
    Err(String, Option<String>),
}

struct Observed {
    outcome: Outcome,
    recorded: Vec<Rec>,
    hits: Vec<Hit>,
    override_calls: u32,
}

fn run_case(c: &Case, w: &World) -> Option<Observed> {
    let base = &w.bases[c.base as usize % w.bases.len()];
    let kind = c.kind as usize % KINDS.len();
    let asset = base.variants[kind].as_ref()?.clone();
    let unsigned = base.variants[K_UNSIGNED as usize].as_ref()?.clone();

    let log: Arc<Mutex<Vec<Rec>>> = Arc::new(Mutex::new(vec![]));
    let mut serve = HashMap::new();
    {
        let mut routes = w.listener.routes.lock().unwrap();
        routes.clear();
        if c.resolver % 3 != 0 {
            let sc = if kind == K_AIA_REMOTE_ONLY as usize { &base.sidecars.1 } else { &base.sidecars.0 };
            if !sc.is_empty() {
                serve.insert(base.remote_url.clone(), sc.clone());
                routes.insert(format!("/m/{}.c2pa", c.base as usize % w.bases.len()), sc.clone());
            }
        }
    }
    let mut ctx = Context::new().with_settings(settings_for(c).to_string()).expect("settings");
    if c.resolver % 3 != 2 {
        let rec = Recorder { log: log.clone(), serve: Arc::new(serve) };
        ctx = ctx.with_resolver(rec.clone()).with_resolver_async(rec);
    }
    let hits_before = w.listener.hits.lock().unwrap().len();
    let calls = Arc::new(Mutex::new(0u32));
    let fmt = base.format.clone();

    let to_outcome = |e: c2pa::Error| -> Outcome {
        let url = match &e {
            c2pa::Error::RemoteManifestUrl(u) => Some(u.clone()),
            _ => None,
        };
        let name = format!("{e:?}");
        let short = name.split(['(', ' ', '{']).next().unwrap_or("").to_string();
        if std::env::var("VERIF_C28_DEBUG").is_ok() {
            eprintln!("error detail: {name}");
        }
        Outcome::Err(short, url)
    };

    let outcome = match c.op % 3 {
        0 => {
            let r = if c.asynch {
                block_on(Reader::from_context(ctx).with_stream_async(&fmt, Cursor::new(asset)))
            } else {
                Reader::from_context(ctx).with_stream(&fmt, Cursor::new(asset))
            };
            match r {
                Ok(_) => Outcome::Ok,
                Err(e) => to_outcome(e),
            }
        }
        1 => {
            let mut b = Builder::from_context(ctx);
            let ij = json!({"title": "ingredient", "relationship": "componentOf"}).to_string();
            let mut s = Cursor::new(asset);
            let r = if c.asynch {
                block_on(b.add_ingredient_from_stream_async(ij, &fmt, &mut s)).map(|_| ())
            } else {
                b.add_ingredient_from_stream(ij, &fmt, &mut s).map(|_| ())
            };
            match r {
                Ok(()) => Outcome::Ok,
                Err(e) => to_outcome(e),
            }
        }
        _ => {
            let inner: Box<dyn Signer + Send + Sync> =
                if c.signer_aia { Box::new(pki::PkiSigner::from_chain(&w.chain)) } else { sdk::signer("es256") };
            let url = if c.signer % 3 == 0 { None } else { Some(w.tsa_url.clone()) };
            let r = (|| -> c2pa::Result<()> {
                let mut b = Builder::from_context(ctx).with_definition(definition().to_string())?;
                b.set_intent(BuilderIntent::Create(DigitalSourceType::Empty));
                if kind != K_UNSIGNED as usize {
                    let ij = json!({"title": "ingredient", "relationship": "componentOf"}).to_string();
                    let mut s = Cursor::new(asset);
                    if c.asynch {
                        block_on(b.add_ingredient_from_stream_async(ij, &fmt, &mut s))?;
                    } else {
                        b.add_ingredient_from_stream(ij, &fmt, &mut s)?;
                    }
                }
                match c.out % 3 {
                    1 => {
                        b.set_remote_url(base.remote_url.clone());
                        b.set_no_embed(true);
                    }
                    2 => {
                        b.set_remote_url(base.remote_url.clone());
                    }
                    _ => {}
                }
                let mut src = Cursor::new(unsigned);
                let mut dst = Cursor::new(Vec::new());
                if c.signer % 3 == 2 {
                    let s = TsaOverride { inner, url, calls: calls.clone() };
                    if c.asynch {
                        block_on(b.sign_async(&AsyncTsaOverride(s), &fmt, &mut src, &mut dst))?;
                    } else {
                        b.sign(&s, &fmt, &mut src, &mut dst)?;
                    }
                } else {
                    let s = TsaDefault { inner, url };
                    if c.asynch {
                        block_on(b.sign_async(&AsyncTsaDefault(s), &fmt, &mut src, &mut dst))?;
                    } else {
                        b.sign(&s, &fmt, &mut src, &mut dst)?;
                    }
                }
                Ok(())
            })();
            match r {
                Ok(()) => Outcome::Ok,
                Err(e) => to_outcome(e),
            }
        }
    };
    let recorded = log.lock().unwrap().clone();
    let hits = w.listener.hits.lock().unwrap()[hits_before..].to_vec();
    let override_calls = *calls.lock().unwrap();
    Some(Observed { outcome, recorded, hits, override_calls })
}

// =====================================================================================================
// judge
// =====================================================================================================

/// Request kinds the configuration of a case asks for.
#[derive(Default, Debug)]
struct Allowed {
    remote: bool,
    ocsp: bool,
    /// time-stamp request through the Context's resolver (auto time-stamp assertion for ingredient manifests)
    tsa_ctx: bool,
    /// time-stamp request by the signer's default sender (private default Context => real connection)
    tsa_direct: bool,
}

fn allowed(c: &Case) -> Allowed {
    let kind = c.kind % KINDS.len() as u8;
    let op = c.op % 3;
    let has_remote = matches!(kind, K_REMOTE_ONLY | K_REMOTE_EMBEDDED | K_AIA_REMOTE_ONLY);
    let has_aia_manifest = matches!(kind, K_AIA_EMBEDDED | K_AIA_REMOTE_ONLY);
    let has_manifest = kind != K_UNSIGNED;
    let loads_asset = op != 2 || kind != K_UNSIGNED;
    let builds = op != 0;
    Allowed {
        // the setting (explicitly true, or left at the SDK default which is documented as true) + an asset that names a URL
        remote: c.remote_fetch % 3 != 0 && has_remote && loads_asset,
        // verify.ocsp_fetch, or (builder operations only) builder.certificate_status_fetch; a certificate that names a responder
        ocsp: (c.ocsp_fetch || (builds && c.csf % 3 != 0)) && ((has_aia_manifest && loads_asset) || (op == 2 && c.signer_aia)),
        tsa_ctx: op == 2 && c.signer % 3 != 0 && c.auto_ts && has_manifest,
        tsa_direct: op == 2 && c.signer % 3 == 1,
    }
}

fn judge(run: &Run, specs: &[BaseSpec], c: &Case, selftest: &Option<String>) -> CaseResult {
    let w = world(specs);
    let base = &w.bases[c.base as usize % w.bases.len()];
    let kind = c.kind % KINDS.len() as u8;
    let opname = ["read", "add-ingredient", "sign"][c.op as usize % 3];
    let obs = match vh::catch(|| run_case(c, &w)) {
        Ok(Some(o)) => o,
        Ok(None) => {
            run.count(&format!("variant_unavailable:{}:{}", base.label, KINDS[kind as usize]));
            return Ok(());
        }
        Err(p) => return Err(Fail::new(format!("C28:panic:{}", vh::core::panic_site(&p)), format!("{opname}: {p}"))),
    };
    let mut al = allowed(c);
    match selftest.as_deref() {
        // sensitivity: an oracle that forgets that the fetch settings exist must raise alarms
        Some("forbid-remote") => al.remote = false,
        Some("forbid-ocsp") => al.ocsp = false,
        Some("forbid-tsa") => {
            al.tsa_direct = false;
            al.tsa_ctx = false;
        }
        _ => {}
    }
    let n_allowed = [al.remote, al.ocsp, al.tsa_ctx, al.tsa_direct].iter().filter(|b| **b).count();
    run.count(&format!("op:{opname}"));
    run.count(&format!("kind:{}", KINDS[kind as usize]));
    run.count(&format!("resolver:{}", c.resolver % 3));
    run.count(&format!("allowed_kinds:{n_allowed}"));
    run.count(if c.asynch { "async" } else { "sync" });
    match &obs.outcome {
        Outcome::Ok => run.count(&format!("outcome:{opname}:ok")),
        Outcome::Err(n, _) => run.count(&format!("outcome:{opname}:{n}")),
    }
    if n_allowed == 1 {
        run.nontrivial(c);
    }
    if std::env::var("VERIF_C28_DEBUG").is_ok() {
        eprintln!("{c:?} -> {:?} rec={:?} hits={:?}", obs.outcome, obs.recorded, obs.hits);
    }

    // ---- classify everything that was observed --------------------------------------------------------
    // (channel, method, url-or-path) -> kind
    let classify = |uri: &str| -> &'static str {
        let path = match uri.find("://") {
            Some(i) => uri[i + 3..].find('/').map(|j| &uri[i + 3 + j..]).unwrap_or("/"),
            None => uri,
        };
        let host_ok = !uri.contains("://") || uri.starts_with(&format!("http://127.0.0.1:{}/", w.listener.port));
        if !host_ok {
            "foreign"
        } else if path.starts_with("/m/") {
            "remote"
        } else if path.starts_with("/ocsp/") {
            "ocsp"
        } else if path == "/tsa" {
            "tsa"
        } else {
            "other"
        }
    };
    let recorder_on = c.resolver % 3 != 2;
    let mut seen: BTreeSet<String> = BTreeSet::new();
    for r in &obs.recorded {
        let k = classify(&r.uri);
        seen.insert(format!("ctx:{k}"));
        let ok = match k {
            "remote" => al.remote && r.uri == base.remote_url && r.method == "GET",
            "ocsp" => al.ocsp && r.uri.starts_with(&w.ocsp_prefix) && r.method == "GET",
            "tsa" => al.tsa_ctx && r.uri == w.tsa_url && r.method == "POST",
            _ => false,
        };
        if !ok {
            return Err(Fail::new(
                format!("C28:unsolicited-request:{k}:{opname}"),
                format!(
                    "{} {} handed to the Context resolver during {opname} of {}:{} although the configuration {:?} only allows {al:?}",
                    r.method, r.uri, base.label, KINDS[kind as usize], settings_for(c).to_string()
                ),
            ));
        }
    }
    for h in &obs.hits {
        let k = classify(&h.path);
        seen.insert(format!("net:{k}"));
        let ok = match k {
            // with a recording resolver installed only the signer's own default sender may open a connection
            "tsa" => h.method == "POST" && (al.tsa_direct || (!recorder_on && al.tsa_ctx)),
            "remote" => !recorder_on && al.remote && h.method == "GET" && base.remote_url.ends_with(&h.path),
            "ocsp" => !recorder_on && al.ocsp && h.method == "GET",
            _ => false,
        };
        if !ok {
            let allowed_kind = match k {
                "tsa" => al.tsa_ctx || al.tsa_direct,
                "remote" => al.remote,
                "ocsp" => al.ocsp,
                _ => false,
            };
            let sig = if allowed_kind {
                format!("C28:request-bypasses-context-resolver:{k}:{opname}")
            } else {
                format!("C28:unsolicited-connection:{k}:{opname}")
            };
            return Err(Fail::new(
                sig,
                format!(
                    "{} {} arrived at the loopback listener during {opname} of {}:{} (custom resolver installed: {recorder_on}); configuration {} allows {al:?}",
                    h.method, h.path, base.label, KINDS[kind as usize], settings_for(c)
                ),
            ));
        }
    }
    for s in &seen {
        run.count(&format!("observed:{s}"));
    }
    if seen.is_empty() {
        run.count("observed:nothing");
    }
    if c.signer % 3 == 2 && c.op % 3 == 2 {
        run.count(if obs.override_calls > 0 { "override_sender_called" } else { "override_sender_not_called" });
    }

    // ---- second sentence: remote-only + fetch disabled => the remote-manifest error carrying the URL -----
    if c.op % 3 == 0 && matches!(kind, K_REMOTE_ONLY | K_AIA_REMOTE_ONLY) && c.remote_fetch % 3 == 0 {
        run.count("remote_only_fetch_disabled");
        match &obs.outcome {
            Outcome::Err(n, Some(u)) if n == "RemoteManifestUrl" && *u == base.remote_url => {}
            other => {
                return Err(Fail::new(
                    "C28:remote-only-fetch-disabled-wrong-result",
                    format!("reading {}:{} with remote_manifest_fetch=false gave {other:?}, expected Err(RemoteManifestUrl({:?}))", base.label, KINDS[kind as usize], base.remote_url),
                ));
            }
        }
    }
    Ok(())
}

// =====================================================================================================
// generators
// =====================================================================================================

fn factorial(n_bases: usize) -> Vec<Case> {
    let mut v = vec![];
    for base in 0..n_bases as u8 {
        let mut idx = 0usize;
        // settings power set: remote fetch x ocsp fetch x certificate status fetch
        for mask in 0..8u8 {
            let remote_fetch = mask & 1;
            let ocsp_fetch = mask & 2 != 0;
            let (csf, cs_override) = if mask & 4 != 0 { (2, 2) } else { (0, 0) };
            for kind in 0..KINDS.len() as u8 {
                for asynch in [false, true] {
                    for op in [0u8, 1] {
                        v.push(Case { op, asynch, base, kind, remote_fetch, ocsp_fetch, csf, cs_override, auto_ts: false, signer: 0, signer_aia: false, out: 0, resolver: 0 });
                    }
                }
            }
            for signer in 0..3u8 {
                for out in 0..3u8 {
                    for kind in [K_UNSIGNED, K_AIA_EMBEDDED] {
                        idx += 1;
                        v.push(Case {
                            op: 2,
                            asynch: idx % 2 == 0,
                            base,
                            kind,
                            remote_fetch,
                            ocsp_fetch,
                            csf,
                            cs_override,
                            auto_ts: (idx / 2) % 2 == 0,
                            signer,
                            signer_aia: (idx / 4) % 2 == 0,
                            out,
                            resolver: 0,
                        });
                    }
                }
            }
            // the kinds that can cause traffic, with a serving recorder and with the SDK's own HTTP stack
            for kind in [K_REMOTE_ONLY, K_AIA_EMBEDDED, K_AIA_REMOTE_ONLY] {
                for resolver in [1u8, 2] {
                    for op in [0u8, 1] {
                        idx += 1;
                        v.push(Case { op, asynch: idx % 2 == 0, base, kind, remote_fetch, ocsp_fetch, csf, cs_override, auto_ts: false, signer: 0, signer_aia: false, out: 0, resolver });
                    }
                }
            }
        }
    }
    v
}

fn case_strategy(n_bases: usize) -> impl Strategy<Value = Case> {
    (
        (0u8..3, any::<bool>(), 0..n_bases as u8, 0..KINDS.len() as u8),
        (0u8..3, any::<bool>(), 0u8..3, 0u8..3, any::<bool>()),
        (0u8..3, any::<bool>(), 0u8..3, 0u8..3),
    )
        .prop_map(|((op, asynch, base, kind), (remote_fetch, ocsp_fetch, csf, cs_override, auto_ts), (signer, signer_aia, out, resolver))| Case {
            op,
            asynch,
            base,
            kind,
            remote_fetch,
            ocsp_fetch,
            csf,
            cs_override,
            auto_ts,
            signer,
            signer_aia,
            out,
            resolver,
        })
}

fn base_specs(run: &Run) -> Vec<BaseSpec> {
    let mut rng = vh::rng::SplitMix64::new(run.seed ^ 0xC28);
    // formats with a remote-reference (XMP) writer
    let kinds: Vec<&str> = if run.quick() {
        vec!["jpeg", "png", "gif", "tiff", "mp4", "svg"]
    } else {
        vec!["jpeg", "png", "gif", "tiff", "wav", "webp", "avi", "svg", "mp3", "mp4", "jxl", "jpeg", "png", "mp4", "tiff", "gif", "heic", "m4a", "mov", "avif"]
    };
    kinds
        .iter()
        .enumerate()
        .map(|(i, k)| {
            let s = vh::assets::synth(k, &mut rng, 0);
            BaseSpec { label: format!("synth:{k}#{i}"), format: s.format.to_string(), bytes: s.bytes }
        })
        .collect()
}

// =====================================================================================================
// positive controls + strace line
// =====================================================================================================

/// The observation points must see the traffic that an enabling configuration causes; otherwise silence proves nothing.
fn positive_controls(run: &Run, specs: &[BaseSpec]) {
    let w = world(specs);
    let base = Case { op: 0, asynch: false, base: 0, kind: K_REMOTE_ONLY, remote_fetch: 1, ocsp_fetch: false, csf: 0, cs_override: 0, auto_ts: false, signer: 0, signer_aia: false, out: 0, resolver: 0 };
    let mut checks: Vec<(&str, Case, Box<dyn Fn(&Observed, &World) -> bool>)> = vec![];
    for asynch in [false, true] {
        checks.push((
            "remote fetch enabled -> recorder sees GET <url>",
            Case { asynch, ..base.clone() },
            Box::new(|o, w| o.recorded.len() == 1 && o.recorded[0].uri == w.bases[0].remote_url && o.hits.is_empty()),
        ));
        checks.push((
            "ocsp fetch enabled + AIA certificate -> recorder sees GET <ocsp url>/...",
            Case { asynch, kind: K_AIA_EMBEDDED, remote_fetch: 0, ocsp_fetch: true, ..base.clone() },
            Box::new(|o, w| !o.recorded.is_empty() && o.recorded.iter().all(|r| r.uri.starts_with(&w.ocsp_prefix)) && o.hits.is_empty()),
        ));
        checks.push((
            "certificate_status_fetch + AIA ingredient -> recorder sees GET <ocsp url>/...",
            Case { asynch, op: 1, kind: K_AIA_EMBEDDED, remote_fetch: 0, csf: 2, cs_override: 2, ..base.clone() },
            Box::new(|o, w| !o.recorded.is_empty() && o.recorded.iter().all(|r| r.uri.starts_with(&w.ocsp_prefix)) && o.hits.is_empty()),
        ));
        checks.push((
            "signer with TSA URL -> listener sees POST /tsa",
            Case { asynch, op: 2, kind: K_UNSIGNED, remote_fetch: 0, signer: 1, ..base.clone() },
            Box::new(|o, _| o.recorded.is_empty() && !o.hits.is_empty() && o.hits.iter().all(|h| h.method == "POST" && h.path == "/tsa")),
        ));
        checks.push((
            "default resolver + remote fetch enabled -> listener sees GET /m/0.c2pa",
            Case { asynch, resolver: 2, ..base.clone() },
            Box::new(|o, _| o.recorded.is_empty() && o.hits.len() == 1 && o.hits[0].path == "/m/0.c2pa" && o.hits[0].method == "GET"),
        ));
        checks.push((
            "auto time-stamp assertion + TSA URL + ingredient manifest -> recorder sees POST <tsa url>",
            Case { asynch, op: 2, kind: 1, remote_fetch: 0, signer: 2, auto_ts: true, ..base.clone() },
            Box::new(|o, w| o.recorded.iter().any(|r| r.uri == w.tsa_url && r.method == "POST") && o.hits.is_empty()),
        ));
    }
    for (what, case, pred) in checks {
        let obs = vh::catch(|| run_case(&case, &w));
        let ok = matches!(&obs, Ok(Some(o)) if pred(o, &w));
        run.count(if ok { "positive_control_ok" } else { "positive_control_failed" });
        if !ok {
            let detail = match obs {
                Ok(Some(o)) => format!("outcome {:?}, recorded {:?}, hits {:?}", o.outcome, o.recorded, o.hits),
                Ok(None) => "variant unavailable".to_string(),
                Err(p) => format!("panic {p}"),
            };
            run.inconclusive(format!("positive control failed ({what}, async={}): {detail}", case.asynch));
        }
    }
}

fn is_loopback(addr: &str) -> bool {
    let a = addr.trim_matches(|c| c == '"' || c == '[' || c == ']');
    a.starts_with("127.") || a == "::1" || a.starts_with("::ffff:127.")
}

/// Re-run the quick factorial (including the cases that use the SDK's own HTTP stack) in a child process under strace.
fn strace_line(run: &Run) {
    let dir = vh::core::verif_root().join("work").join("C28");
    let _ = std::fs::remove_dir_all(dir.join("child"));
    if std::fs::create_dir_all(dir.join("child")).is_err() {
        run.note("strace line skipped: cannot create work directory");
        return;
    }
    let log = dir.join("strace.log");
    let _ = std::fs::remove_file(&log);
    let exe = match std::env::current_exe() {
        Ok(e) => e,
        Err(e) => {
            run.note(format!("strace line skipped: {e}"));
            return;
        }
    };
    let out = std::process::Command::new("strace")
        .args(["-f", "-e", "trace=connect", "-o"])
        .arg(&log)
        .arg(&exe)
        .arg("quick")
        .env("VERIF_C28_CHILD", "1")
        .env("VERIF_ROOT_DIR", dir.join("child"))
        .env("VERIF_SEED", run.seed_as_reported().to_string())
        .output();
    let out = match out {
        Ok(o) => o,
        Err(e) => {
            run.note(format!("strace line skipped: cannot start strace: {e}"));
            run.count("strace_unavailable");
            return;
        }
    };
    let txt = std::fs::read_to_string(&log).unwrap_or_default();
    if txt.is_empty() || txt.contains("ptrace(PTRACE_TRACEME") || txt.contains("Operation not permitted") && !txt.contains("connect(") {
        run.note(format!("strace line skipped: strace could not attach in this sandbox (exit {:?})", out.status.code()));
        run.count("strace_unavailable");
        return;
    }
    let (mut inet, mut loopback, mut foreign) = (0u64, 0u64, vec![]);
    for line in txt.lines() {
        if !line.contains("connect(") || !(line.contains("sa_family=AF_INET,") || line.contains("sa_family=AF_INET6,")) {
            continue;
        }
        inet += 1;
        let addr = if let Some(i) = line.find("inet_addr(\"") {
            line[i + 11..].split('"').next().unwrap_or("").to_string()
        } else if let Some(i) = line.find("inet_pton(AF_INET6, \"") {
            line[i + 21..].split('"').next().unwrap_or("").to_string()
        } else {
            "?".to_string()
        };
        if is_loopback(&addr) {
            loopback += 1;
        } else {
            foreign.push(line.to_string());
        }
    }
    run.extra("strace", json!({"inet_connects": inet, "loopback": loopback, "non_loopback": foreign.len(), "child_exit": out.status.code()}));
    run.count_n("strace_loopback_connects", loopback);
    if loopback == 0 {
        run.inconclusive("strace line: the child made no loopback connect at all (positive traffic expected) — tracing is blind");
    }
    if let Some(first) = foreign.first() {
        let f = Fail::new("C28:connect-to-non-loopback-address", format!("{} connect(2) calls to non-loopback addresses although every URL in the inputs is on 127.0.0.1; first: {first}", foreign.len()));
        run.fail("strace", &f, json!({"strace_line": first}));
    }
}

fn main() {
    vh::quiet_panics();
    let run = Run::from_args("C28", "exploration");
    let child = std::env::var("VERIF_C28_CHILD").is_ok();
    let selftest = std::env::var("VERIF_SELFTEST").ok();
    run.set_rule("case = (operation {read, add ingredient, sign [+ingredient]} x sync/async x base asset x prepared variant {unsigned, embedded, remote-only, remote+embedded, AIA-certificate embedded, AIA-certificate remote-only} x verify.remote_manifest_fetch {false,true,unset} x verify.ocsp_fetch x builder.certificate_status_fetch {unset,active,all} x certificate_status_should_override {unset,false,true} x builder.auto_timestamp_assertion.enabled x signer {no TSA, TSA URL, TSA URL + own send_timestamp_request} x signing certificate with/without OCSP URL x output {embedded, remote only, remote+embedded} x resolver {recording 404, recording + serving the side-car, SDK default stack}). Full factorial over the settings power set first, random cases in thorough. Every URL in every input points at the harness's loopback listener. Non-trivial = exactly one request kind is enabled by the case.");
    run.assume("the recording resolver sees exactly what the SDK hands to Context::resolver()/resolver_async(); requests that bypass it arrive at the loopback listener because every URL in the inputs names it");
    run.assume("verify.remote_manifest_fetch left unset counts as enabled (documented default true)");
    run.assume("builder.certificate_status_fetch enables OCSP requests for builder operations only; verify.ocsp_fetch for every operation that validates a manifest");
    run.assume("a time-stamp request needs a signer that announces a TSA URL; with builder.auto_timestamp_assertion.enabled it may also go through the Context's resolver for ingredient manifests");
    let specs = base_specs(&run);
    run.extra("base_assets", json!(specs.iter().map(|s| s.label.clone()).collect::<Vec<_>>()));

    positive_controls(&run, &specs);

    let threads = if child { 1 } else { run.scale(4, 12) };
    let cases = factorial(if child { 1 } else { specs.len() });
    run.extra("factorial_cases", json!(cases.len()));
    run.drive_enum_par("factorial", cases, threads, |c| judge(&run, &specs, c, &selftest));
    if !child {
        let n = run.scale(20000, 100000);
        run.drive_par("random", n, threads, case_strategy(specs.len()), |c| judge(&run, &specs, c, &selftest));
        if !run.quick() && run.replay.is_none() {
            strace_line(&run);
        }
    }
    run.finish();
}
