//! C19 — ingredient graph validation terminates and rejects malformed graphs.
//!
//! Part A (public API only): legitimate Builder-made graphs (linear chains, chains around the depth limit,
//! wide fans, shared sub-DAGs with 2^n paths) and dangling variants of them made by removing / hiding an
//! ingredient manifest box in the store bytes (the active manifest stays bit-identical).
//! Part B (hook `verif_hooks::craft_store`): arbitrary directed graphs — exhaustive on small node counts,
//! random families up to 300 manifests.
//!
//! Every read runs in a re-exec'ed child process (`--child`) under a watchdog, once on the main thread and
//! once on a 1 MB-stack thread. Work is measured by counters (progress callbacks + reported statuses), never
//! by seconds. Oracle: a graph whose part reachable from the active manifest has a cycle, a self reference,
//! a dangling target or a path deeper than the limit is never Valid/Trusted; well-formed graphs are
//! Valid/Trusted (non-vacuity); work <= c*(V+E)^2 with c fitted on small positive controls (x20).

use std::{
    collections::{BTreeSet, VecDeque},
    io::{Cursor, Read},
    os::unix::process::ExitStatusExt,
    process::{Command, Stdio},
    sync::{
        atomic::{AtomicU64, Ordering},
        Arc, Mutex, OnceLock,
    },
    time::{Duration, Instant},
};

use c2pa::{
    verif_hooks::{craft_store, VerifGraphEdge, VerifGraphNode},
    Builder, BuilderIntent, DigitalSourceType, Reader,
};
use proptest::prelude::*;
use serde::{Deserialize, Serialize};
use serde_json::{json, Value};
use vh::{rng::SplitMix64, sdk, CaseResult, Fail, Run};

const FMT: &str = "image/png";
const WORK_DIR: &str = "/verif/work/C19";
/// Watchdog for one child (two reads). Healthy children finish in well under 3 s even for 300 manifests.
const WATCHDOG_S: u64 = 60;
const THREAD_STACK: usize = 1 << 20;
/// Same-length strings present in every Builder-made manifest (assertion data / claim generator name); editing them
/// in the store bytes changes every manifest box hash, so every recorded ingredient hash becomes stale.
const STALE_MARKER: &str = "c19-stale-marker-0";
const GENERATOR_NAME: &str = "verif-harness";

// ------------------------------------------------------------------------------------------------
// child: read one asset, report outcome + counters as one JSON line
// ------------------------------------------------------------------------------------------------

#[derive(Clone, Debug, Serialize, Deserialize, Default)]
struct ReadRes {
    /// "ok" (a Reader was returned), "err" (Reader returned Err), "panic"
    outcome: String,
    state: String,
    detail: String,
    progress: u64,
    entries: u64,
    manifests: u64,
    failures: Vec<String>,
}

impl ReadRes {
    fn accepted(&self) -> bool {
        self.outcome == "ok" && (self.state == "Valid" || self.state == "Trusted")
    }
    fn work(&self) -> u64 {
        self.progress + self.entries
    }
}

#[allow(unconditional_recursion)]
fn burn_stack(n: u64) -> u64 {
    let pad = [n; 64];
    std::hint::black_box(&pad);
    burn_stack(n + 1) + pad[3]
}

fn read_once(asset: &[u8], sidecar: Option<&[u8]>, cap: u64) -> ReadRes {
    // self-test faults, injected only in the small-stack variant and only for big stores
    if std::thread::current().name() == Some("c19-small-stack") && asset.len() > 200_000 {
        match std::env::var("VERIF_SELFTEST").as_deref() {
            Ok("child-overflow") => {
                std::hint::black_box(burn_stack(0));
            }
            Ok("child-hang") => std::thread::sleep(Duration::from_secs(100_000)),
            _ => {}
        }
    }
    let counter = Arc::new(AtomicU64::new(0));
    let c2 = counter.clone();
    // the callback cancels the read once the caller's work bound is exceeded, so that a blow-up is reported
    // by the counter at once instead of by the watchdog
    let ctx = sdk::context().with_progress_callback(move |_, _, _| c2.fetch_add(1, Ordering::Relaxed) < cap);
    let r = vh::catch(|| match sidecar {
        Some(store) => Reader::from_context(ctx).with_manifest_data_and_stream(store, FMT, Cursor::new(asset.to_vec())),
        None => sdk::read_with(ctx, FMT, asset),
    });
    let mut out = ReadRes { progress: 0, ..Default::default() };
    match r {
        Err(p) => {
            out.outcome = "panic".into();
            out.detail = vh::core::panic_site(&p);
        }
        Ok(Err(e)) => {
            out.outcome = "err".into();
            let mut d = format!("{e:?}");
            d.truncate(160);
            out.detail = d;
        }
        Ok(Ok(reader)) => {
            out.outcome = "ok".into();
            out.state = sdk::state_name(reader.validation_state()).to_string();
            out.manifests = reader.manifests().len() as u64;
            if std::env::var("VERIF_C19_JSON").is_ok() {
                // experiment switch (not part of the verdict): also render the reports
                out.detail = format!("json={} detailed={}", reader.json().len(), reader.detailed_json().len());
            }
            if let Some(res) = reader.validation_results() {
                let mut n = 0u64;
                let mut fails = BTreeSet::new();
                let mut add = |sc: &c2pa::validation_results::StatusCodes| {
                    n += (sc.success().len() + sc.informational().len() + sc.failure().len()) as u64;
                    for f in sc.failure() {
                        fails.insert(f.code().to_string());
                    }
                };
                if let Some(a) = res.active_manifest() {
                    add(a);
                }
                if let Some(d) = res.ingredient_deltas() {
                    for idv in d {
                        add(idv.validation_deltas());
                    }
                }
                out.entries = n;
                out.failures = fails.into_iter().take(8).collect();
            }
        }
    }
    out.progress = counter.load(Ordering::Relaxed);
    out
}

fn child_main(args: &[String]) -> ! {
    // --child <thread stack bytes>; then one request per stdin line: "<asset path>\t<sidecar store path | ->"
    vh::quiet_panics();
    let stack: usize = args[0].parse().expect("child: stack");
    let stdin = std::io::stdin();
    let mut line = String::new();
    loop {
        line.clear();
        match stdin.read_line(&mut line) {
            Ok(0) | Err(_) => break,
            Ok(_) => {}
        }
        let mut it = line.trim_end().split('\t');
        let (Some(pa), Some(ps)) = (it.next(), it.next()) else { break };
        let cap: u64 = it.next().and_then(|c| c.parse().ok()).unwrap_or(u64::MAX);
        let asset = std::fs::read(pa).expect("child: asset");
        let sidecar = if ps == "-" { None } else { Some(std::fs::read(ps).expect("child: store")) };
        let main_res = read_once(&asset, sidecar.as_deref(), cap);
        // report the first result before the stack-limited variant so that a crash there is attributable
        println!("MAIN {}", serde_json::to_string(&main_res).unwrap());
        let th = std::thread::Builder::new()
            .name("c19-small-stack".into())
            .stack_size(stack)
            .spawn(move || read_once(&asset, sidecar.as_deref(), cap))
            .expect("spawn");
        let thread_res = th.join().unwrap_or_else(|_| ReadRes { outcome: "panic".into(), ..Default::default() });
        println!("THREAD {}", serde_json::to_string(&thread_res).unwrap());
    }
    std::process::exit(0);
}

#[derive(Clone, Debug)]
enum ChildOutcome {
    Done { main: ReadRes, thread: ReadRes },
    Hang { after_main: bool },
    StackOverflow { after_main: bool, tail: String },
    Crashed(String),
}

static FILE_CTR: AtomicU64 = AtomicU64::new(0);

/// A persistent reader process owned by one harness thread; replaced after every abnormal end.
struct Worker {
    child: std::process::Child,
    stdin: std::process::ChildStdin,
    lines: std::sync::mpsc::Receiver<String>,
    stderr: Arc<Mutex<String>>,
}

impl Worker {
    fn spawn() -> Result<Worker, String> {
        let exe = std::env::current_exe().unwrap_or_else(|_| "/proc/self/exe".into());
        let mut child = Command::new(exe)
            .args(["--child", &THREAD_STACK.to_string()])
            .stdin(Stdio::piped())
            .stdout(Stdio::piped())
            .stderr(Stdio::piped())
            .spawn()
            .map_err(|e| format!("spawn: {e}"))?;
        let stdin = child.stdin.take().unwrap();
        let so = child.stdout.take().unwrap();
        let mut se = child.stderr.take().unwrap();
        let (tx, rx) = std::sync::mpsc::channel();
        std::thread::spawn(move || {
            use std::io::BufRead;
            for l in std::io::BufReader::new(so).lines() {
                match l {
                    Ok(l) => {
                        if tx.send(l).is_err() {
                            break;
                        }
                    }
                    Err(_) => break,
                }
            }
        });
        let stderr = Arc::new(Mutex::new(String::new()));
        let e2 = stderr.clone();
        std::thread::spawn(move || {
            let mut buf = [0u8; 4096];
            loop {
                match se.read(&mut buf) {
                    Ok(0) | Err(_) => break,
                    Ok(n) => {
                        let mut g = e2.lock().unwrap();
                        if g.len() < 1 << 16 {
                            g.push_str(&String::from_utf8_lossy(&buf[..n]));
                        }
                    }
                }
            }
        });
        Ok(Worker { child, stdin, lines: rx, stderr })
    }
}

impl Drop for Worker {
    fn drop(&mut self) {
        let _ = self.child.kill();
        let _ = self.child.wait();
    }
}

thread_local! {
    static WORKER: std::cell::RefCell<Option<Worker>> = const { std::cell::RefCell::new(None) };
}

fn run_child_once(asset: &[u8], sidecar: Option<&[u8]>, cap: u64, watchdog: Duration) -> ChildOutcome {
    use std::io::Write;
    let _ = std::fs::create_dir_all(WORK_DIR);
    let id = FILE_CTR.fetch_add(1, Ordering::SeqCst);
    let pa = format!("{WORK_DIR}/{}-{id}.asset", std::process::id());
    let ps = format!("{WORK_DIR}/{}-{id}.store", std::process::id());
    if std::fs::write(&pa, asset).is_err() {
        return ChildOutcome::Crashed("cannot write scratch file".into());
    }
    let side_arg = match sidecar {
        Some(s) => {
            let _ = std::fs::write(&ps, s);
            ps.clone()
        }
        None => "-".to_string(),
    };
    let out = WORKER.with(|cell| {
        let mut slot = cell.borrow_mut();
        if slot.is_none() {
            match Worker::spawn() {
                Ok(w) => *slot = Some(w),
                Err(e) => return ChildOutcome::Crashed(e),
            }
        }
        let w = slot.as_mut().unwrap();
        w.stderr.lock().unwrap().clear();
        if writeln!(w.stdin, "{pa}\t{side_arg}\t{cap}").and_then(|_| w.stdin.flush()).is_err() {
            *slot = None;
            return ChildOutcome::Crashed("worker stdin closed".into());
        }
        let deadline = Instant::now() + watchdog;
        let mut main: Option<ReadRes> = None;
        let mut thread: Option<ReadRes> = None;
        let mut timed_out = false;
        let mut died = false;
        while thread.is_none() {
            let left = deadline.saturating_duration_since(Instant::now());
            match w.lines.recv_timeout(left) {
                Ok(l) => {
                    if let Some(j) = l.strip_prefix("MAIN ") {
                        main = serde_json::from_str::<ReadRes>(j).ok();
                    } else if let Some(j) = l.strip_prefix("THREAD ") {
                        thread = serde_json::from_str::<ReadRes>(j).ok();
                        if thread.is_none() {
                            died = true;
                            break;
                        }
                    }
                }
                Err(std::sync::mpsc::RecvTimeoutError::Timeout) => {
                    timed_out = true;
                    break;
                }
                Err(std::sync::mpsc::RecvTimeoutError::Disconnected) => {
                    died = true;
                    break;
                }
            }
        }
        if let (Some(m), Some(t), false) = (&main, &thread, died) {
            return ChildOutcome::Done { main: m.clone(), thread: t.clone() };
        }
        if timed_out {
            *slot = None; // kills the worker
            return ChildOutcome::Hang { after_main: main.is_some() };
        }
        // the worker ended by itself: find out how
        let status = w.child.wait().ok();
        std::thread::sleep(Duration::from_millis(20)); // let the stderr drain thread finish
        let stderr = w.stderr.lock().unwrap().clone();
        *slot = None;
        let tail = |s: &str| {
            let t: String = s.chars().rev().take(300).collect::<String>().chars().rev().collect();
            t.replace('\n', " | ")
        };
        match status {
            Some(st) => {
                if stderr.contains("overflowed its stack") || st.signal() == Some(libc::SIGSEGV) {
                    ChildOutcome::StackOverflow { after_main: main.is_some(), tail: tail(&stderr) }
                } else {
                    ChildOutcome::Crashed(format!("status {st:?} stderr: {}", tail(&stderr)))
                }
            }
            None => ChildOutcome::Crashed("wait failed".into()),
        }
    });
    let _ = std::fs::remove_file(&pa);
    let _ = std::fs::remove_file(&ps);
    out
}

/// One retry with a doubled watchdog before a hang is reported (the machine is shared).
fn run_child(asset: &[u8], sidecar: Option<&[u8]>, cap: u64) -> ChildOutcome {
    let wd = if selftest() == "child-hang" { 3 } else { WATCHDOG_S };
    match run_child_once(asset, sidecar, cap, Duration::from_secs(wd)) {
        ChildOutcome::Hang { .. } => run_child_once(asset, sidecar, cap, Duration::from_secs(wd * 2)),
        o => o,
    }
}

// ------------------------------------------------------------------------------------------------
// graph model (reference, independent of the SDK)
// ------------------------------------------------------------------------------------------------

#[derive(Clone, Debug, Serialize, Deserialize, PartialEq, Eq, Hash)]
struct Edge {
    /// target node index; `>= nodes.len()` = a manifest that is not in the store
    t: u16,
    /// 0 parentOf, 1 componentOf, 2 inputTo
    rel: u8,
    /// ingredient assertion version 1..3
    ver: u8,
    /// filler hash even when the real one is available
    bogus: bool,
}

#[derive(Clone, Debug, Serialize, Deserialize, PartialEq, Eq, Hash, Default)]
struct Node {
    upd: bool,
    e: Vec<Edge>,
}

/// Node 0 is the active manifest.
#[derive(Clone, Debug, Serialize, Deserialize, PartialEq, Eq, Hash)]
struct Graph {
    family: String,
    nodes: Vec<Node>,
}

#[derive(Debug, Default, Clone)]
struct Analysis {
    v: usize,
    e: usize,
    reachable: usize,
    cycle: bool,
    self_ref: bool,
    dangling: bool,
    /// largest shortest-path distance (in references) from the active manifest
    min_depth: usize,
    /// longest path (in references) in the reachable part; only meaningful when acyclic
    longest: usize,
    shared: bool,
    bogus_reachable: bool,
    update_reachable: bool,
    multi_parent: bool,
    /// an edge whose target is built after its source (gets a filler hash although not marked bogus)
    unhashable: bool,
}

/// Build order used for crafting: DFS post-order (targets before sources), unreachable nodes first, node 0 last.
fn build_order(g: &Graph) -> Vec<usize> {
    let n = g.nodes.len();
    let mut state = vec![0u8; n];
    let mut order = vec![];
    let dfs = |root: usize, state: &mut Vec<u8>, order: &mut Vec<usize>| {
        if state[root] != 0 {
            return;
        }
        // iterative DFS
        let mut stack: Vec<(usize, usize)> = vec![(root, 0)];
        state[root] = 1;
        while let Some(&mut (u, ref mut k)) = stack.last_mut() {
            if *k < g.nodes[u].e.len() {
                let t = g.nodes[u].e[*k].t as usize;
                *k += 1;
                if t < n && state[t] == 0 {
                    state[t] = 1;
                    stack.push((t, 0));
                }
            } else {
                state[u] = 2;
                order.push(u);
                stack.pop();
            }
        }
    };
    // reachable part, without emitting node 0 until the very end
    let mut reach_order = vec![];
    dfs(0, &mut state, &mut reach_order);
    let mut rest = vec![];
    for r in 1..n {
        dfs(r, &mut state, &mut rest);
    }
    order.extend(rest);
    order.extend(reach_order); // node 0 finishes last in its own DFS
    order
}

fn analyse(g: &Graph) -> Analysis {
    let n = g.nodes.len();
    let mut a = Analysis { v: n, ..Default::default() };
    a.e = g.nodes.iter().map(|x| x.e.len()).sum();
    // BFS for reachability + min depth
    let mut dist = vec![usize::MAX; n];
    let mut q = VecDeque::new();
    dist[0] = 0;
    q.push_back(0usize);
    while let Some(u) = q.pop_front() {
        for e in &g.nodes[u].e {
            let t = e.t as usize;
            if t < n && dist[t] == usize::MAX {
                dist[t] = dist[u] + 1;
                q.push_back(t);
            }
        }
    }
    let reach: Vec<usize> = (0..n).filter(|i| dist[*i] != usize::MAX).collect();
    a.reachable = reach.len();
    a.min_depth = reach.iter().map(|i| dist[*i]).max().unwrap_or(0);
    let order = build_order(g);
    let mut pos = vec![0usize; n];
    for (p, ix) in order.iter().enumerate() {
        pos[*ix] = p;
    }
    let mut indeg = vec![0usize; n];
    // an update manifest anywhere in the store (it needs a parent with a hard binding, which crafted nodes lack)
    a.update_reachable = g.nodes.iter().any(|x| x.upd);
    for &u in &reach {
        let node = &g.nodes[u];
        if node.e.iter().filter(|e| e.rel == 0).count() > 1 {
            a.multi_parent = true;
        }
        for e in &node.e {
            let t = e.t as usize;
            if t >= n {
                a.dangling = true;
                continue;
            }
            if t == u {
                a.self_ref = true;
            }
            if e.bogus {
                a.bogus_reachable = true;
            } else if pos[t] >= pos[u] {
                a.unhashable = true;
            }
            indeg[t] += 1;
        }
    }
    a.shared = reach.iter().any(|i| indeg[*i] > 1);
    // cycle detection + longest path on the reachable part (Kahn)
    let mut deg = indeg.clone();
    let mut ready: Vec<usize> = reach.iter().copied().filter(|i| deg[*i] == 0).collect();
    let mut longest = vec![0usize; n];
    let mut done = 0;
    while let Some(u) = ready.pop() {
        done += 1;
        for e in &g.nodes[u].e {
            let t = e.t as usize;
            if t < n {
                longest[t] = longest[t].max(longest[u] + 1);
                deg[t] -= 1;
                if deg[t] == 0 {
                    ready.push(t);
                }
            }
        }
    }
    a.cycle = done != reach.len();
    a.longest = longest.iter().copied().max().unwrap_or(0);
    a
}

fn depth_limit() -> usize {
    static L: OnceLock<usize> = OnceLock::new();
    *L.get_or_init(|| {
        let mut v = 200;
        if let Ok(src) = std::fs::read_to_string("/repo/sdk/src/store.rs") {
            for l in src.lines() {
                if let Some(r) = l.trim().strip_prefix("const MAX_INGREDIENT_DEPTH: usize =") {
                    if let Ok(x) = r.trim().trim_end_matches(';').trim().parse::<usize>() {
                        v = x;
                    }
                }
            }
        }
        v
    })
}

// ------------------------------------------------------------------------------------------------
// judging
// ------------------------------------------------------------------------------------------------

struct Bound {
    /// fitted constant (already x20)
    c: f64,
}

static BOUND: OnceLock<Bound> = OnceLock::new();
/// (largest work/limit seen, where, largest work/(V+E) on graphs with V+E >= 50)
static CLOSEST: Mutex<(f64, String, f64)> = Mutex::new((0.0, String::new(), 0.0));
static SELFTEST: OnceLock<String> = OnceLock::new();

fn selftest() -> &'static str {
    SELFTEST.get_or_init(|| std::env::var("VERIF_SELFTEST").unwrap_or_default())
}

fn work_limit(v: usize, e: usize) -> u64 {
    let c = BOUND.get().map(|b| b.c).unwrap_or(4000.0);
    let s = (v + e).max(3) as f64;
    (c * s * s) as u64
}

/// What the graph's shape demands of the verdict.
#[derive(Debug, Clone, PartialEq)]
enum Expect {
    /// (signature suffix, reason)
    Reject(&'static str),
    Accept,
    Free,
}

fn judge_outcome(run: &Run, label: &str, v: usize, e: usize, expect: &Expect, out: &ChildOutcome) -> CaseResult {
    let (main, thread) = match out {
        ChildOutcome::Done { main, thread } => (main.clone(), thread.clone()),
        ChildOutcome::Hang { after_main } => {
            return Err(Fail::new(
                if *after_main { "C19:hang-small-stack-thread" } else { "C19:hang" },
                format!("{label}: validation did not finish within the watchdog ({} s, retried with {} s) (V={v}, E={e})", WATCHDOG_S, WATCHDOG_S * 2),
            ));
        }
        ChildOutcome::StackOverflow { after_main, tail } => {
            return Err(Fail::new(
                if *after_main { "C19:stack-overflow-1mb-thread" } else { "C19:stack-overflow-main-thread" },
                format!("{label}: child died of stack overflow (V={v}, E={e}): {tail}"),
            ));
        }
        ChildOutcome::Crashed(why) => {
            run.count("child_crashed");
            run.inconclusive(format!("{label}: child crashed for a reason other than stack overflow: {why}"));
            return Ok(());
        }
    };
    let mut main = main;
    if selftest() == "accept-cyclic" && matches!(expect, Expect::Reject("cyclic")) {
        // deliberately corrupted SDK answer: pretend the cyclic graph was accepted
        main.outcome = "ok".into();
        main.state = "Valid".into();
    }
    if selftest() == "exp-work" {
        main.progress = main.progress.saturating_mul(1u64 << (v.min(40) as u32));
    }
    if run.replay.is_some() {
        eprintln!("replay: {label}: V={v} E={e} main={main:?}");
    }
    run.count(&format!("outcome_{}{}", main.outcome, if main.outcome == "ok" { format!("_{}", main.state) } else { String::new() }));
    if main.outcome == "panic" {
        run.count("reader_panicked");
        run.note(format!("{label}: reader panicked at {}", main.detail));
    }
    // both stack variants must agree (same bytes, same settings)
    if main.outcome != thread.outcome || main.state != thread.state || main.progress != thread.progress {
        if selftest().is_empty() {
            return Err(Fail::new(
                "C19:stack-variants-disagree",
                format!("{label}: main-thread read {main:?} vs 1 MB-thread read {thread:?}"),
            ));
        }
    }
    let limit = work_limit(v, e);
    {
        let mut g = CLOSEST.lock().unwrap();
        let ratio = main.work() as f64 / limit as f64;
        if ratio > g.0 {
            g.0 = ratio;
            g.1 = format!("{label}: V={v} E={e} work={} limit={limit}", main.work());
        }
        let lin = main.work() as f64 / (v + e).max(1) as f64;
        if v + e >= 50 && lin > g.2 {
            g.2 = lin;
        }
    }
    if main.work() > limit {
        return Err(Fail::new(
            "C19:work-superquadratic",
            format!("{label}: work {} (progress {} + statuses {}) exceeds c*(V+E)^2 = {limit} for V={v}, E={e}", main.work(), main.progress, main.entries),
        ));
    }
    match expect {
        Expect::Reject(why) => {
            if main.accepted() || thread.accepted() {
                return Err(Fail::new(
                    format!("C19:{why}-graph-reported-{}", main.state.to_lowercase()),
                    format!("{label}: {why} ingredient graph is reported {} (V={v}, E={e})", main.state),
                ));
            }
        }
        Expect::Accept => {
            if !main.accepted() {
                return Err(Fail::new(
                    "C19:wellformed-graph-not-valid",
                    format!("{label}: well-formed graph (V={v}, E={e}) reads {} {} {} {:?}", main.outcome, main.state, main.detail, main.failures),
                ));
            }
        }
        Expect::Free => {}
    }
    Ok(())
}

/// Harness trouble and lost positive controls are not statements about the property: they make the run
/// inconclusive (exit 2) instead of raising a violation.
fn soften(run: &Run, r: CaseResult) -> CaseResult {
    match r {
        Err(f) if f.signature.starts_with("C19:harness-") || f.signature == "C19:wellformed-graph-not-valid" => {
            run.count(&format!("inconclusive_{}", &f.signature[4..]));
            run.inconclusive(format!("{}: {}", f.signature, f.what));
            Ok(())
        }
        other => other,
    }
}

fn expectation(a: &Analysis) -> Expect {
    let limit = depth_limit();
    if a.self_ref {
        Expect::Reject("self-referencing")
    } else if a.cycle {
        Expect::Reject("cyclic")
    } else if a.dangling {
        Expect::Reject("dangling")
    } else if a.min_depth > limit {
        // every traversal from the active manifest needs a path with more than `limit` references
        Expect::Reject("over-deep")
    } else if a.bogus_reachable {
        // a reachable reference records a hash that is not the target manifest's: ingredient.manifest.mismatch
        Expect::Reject("stale-hash")
    } else if !a.bogus_reachable && !a.unhashable && !a.update_reachable && !a.multi_parent && a.longest + 2 <= limit {
        Expect::Accept
    } else {
        Expect::Free
    }
}

// ------------------------------------------------------------------------------------------------
// Part B: crafted graphs
// ------------------------------------------------------------------------------------------------

fn craft_ctx() -> c2pa::Context {
    let mut s = sdk::base_settings(true);
    sdk::merge(&mut s, &json!({"verify": {"verify_after_sign": false, "verify_after_reading": false}}));
    sdk::context_with(&s)
}

fn craft(g: &Graph) -> Result<Vec<u8>, String> {
    let nodes: Vec<VerifGraphNode> = g
        .nodes
        .iter()
        .map(|n| VerifGraphNode {
            update_manifest: n.upd,
            claim_version: 2,
            edges: n
                .e
                .iter()
                .map(|e| VerifGraphEdge { target: e.t as usize, relationship: e.rel, version: e.ver, bogus_hash: e.bogus })
                .collect(),
        })
        .collect();
    let order = build_order(g);
    static SIGNER: OnceLock<Box<dyn c2pa::Signer + Send + Sync>> = OnceLock::new();
    static ASSET: OnceLock<Vec<u8>> = OnceLock::new();
    thread_local! {
        static CTX: c2pa::Context = craft_ctx();
    }
    let signer = SIGNER.get_or_init(|| sdk::signer("ed25519"));
    let asset = ASSET.get_or_init(|| sdk::fixture("libpng-test.png"));
    CTX.with(|ctx| match vh::catch(|| craft_store(&nodes, &order, FMT, asset, signer.as_ref(), ctx)) {
        Ok(Ok(c)) => Ok(c.asset),
        Ok(Err(e)) => Err(format!("{e:?}")),
        Err(p) => Err(format!("panic {p}")),
    })
}

fn judge_graph(run: &Run, g: &Graph) -> CaseResult {
    if g.nodes.is_empty() || g.nodes.len() > 400 {
        return Ok(());
    }
    let a = analyse(g);
    let expect = expectation(&a);
    run.count(&format!("family_{}", g.family));
    run.count(match &expect {
        Expect::Reject(w) => match *w {
            "cyclic" => "expect_reject_cyclic",
            "self-referencing" => "expect_reject_self",
            "dangling" => "expect_reject_dangling",
            "stale-hash" => "expect_reject_stale_hash",
            _ => "expect_reject_overdeep",
        },
        Expect::Accept => "expect_accept",
        Expect::Free => "expect_free",
    });
    if a.shared {
        run.count("has_shared_subgraph");
    }
    if a.cycle || a.self_ref || a.shared || a.min_depth + 10 >= depth_limit() {
        run.nontrivial(g);
    }
    let asset = match craft(g) {
        Ok(x) => x,
        Err(e) => {
            // crafting is harness work: a refusal is not a verdict about validation
            run.count("craft_refused");
            if matches!(expect, Expect::Accept) {
                return Err(Fail::new("C19:harness-craft-failed", format!("well-formed graph could not be crafted: {e}")));
            }
            return Ok(());
        }
    };
    let out = run_child(&asset, None, work_limit(a.v, a.e));
    if a.longest > depth_limit() && !a.cycle && a.min_depth <= depth_limit() {
        // observational: longest path exceeds the limit although every node is also reachable on a short path
        if let ChildOutcome::Done { main, .. } = &out {
            run.count(if main.accepted() { "longpath_shortcut_accepted" } else { "longpath_shortcut_rejected" });
        }
    }
    judge_outcome(run, &format!("crafted {} graph", g.family), a.v, a.e, &expect, &out)
}

/// Edge attributes that keep a well-formed graph acceptable: at most one parentOf per node.
fn attr_edges(targets: &[u16], rng: &mut SplitMix64, plain: bool) -> Vec<Edge> {
    let mut parent_used = false;
    targets
        .iter()
        .map(|t| {
            let mut rel = if plain { 1 } else { (rng.next_u64() % 3) as u8 };
            if rel == 0 {
                if parent_used {
                    rel = 1;
                }
                parent_used = true;
            }
            let ver = if plain { 3 } else { [3u8, 3, 2, 1][(rng.next_u64() % 4) as usize] };
            Edge { t: *t, rel, ver, bogus: false }
        })
        .collect()
}

/// All directed graphs (self loops allowed, no parallel edges) on `n` nodes with at most `max_edges` edges.
fn enumerate_graphs(n: usize, max_edges: usize, seed: u64) -> Vec<Graph> {
    let bits = n * n;
    let mut out = vec![];
    for mask in 0u32..(1u32 << bits) {
        if mask.count_ones() as usize > max_edges {
            continue;
        }
        let mut rng = SplitMix64::new(seed ^ ((n as u64) << 40) ^ mask as u64);
        let mut nodes = vec![];
        for u in 0..n {
            let targets: Vec<u16> = (0..n).filter(|t| mask >> (u * n + t) & 1 == 1).map(|t| t as u16).collect();
            nodes.push(Node { upd: false, e: attr_edges(&targets, &mut rng, false) });
        }
        out.push(Graph { family: format!("enum{n}"), nodes });
    }
    out.sort_by_key(|g| g.nodes.iter().map(|x| x.e.len()).sum::<usize>());
    out
}

#[derive(Clone, Debug, Serialize, Deserialize)]
struct RandSpec {
    /// 0 chain, 1 fan, 2 layered DAG (2^n paths), 3 dense cyclic, 4 random DAG, 5 DAG + one defect, 6 long path with shortcut,
    /// 7 update-manifest parent cycle
    family: u8,
    size: u16,
    seed: u64,
}

fn g_chain(len: usize, seed: u64, plain: bool) -> Graph {
    let mut s2 = SplitMix64::new(seed);
    let nodes = (0..=len)
        .map(|i| Node { upd: false, e: if i < len { attr_edges(&[(i + 1) as u16], &mut s2, plain) } else { vec![] } })
        .collect();
    Graph { family: "chain".into(), nodes }
}

fn gen_random(spec: &RandSpec, max_nodes: usize) -> Graph {
    let mut rng = SplitMix64::new(spec.seed);
    let limit = depth_limit();
    let mut r = |m: usize| (rng.next_u64() % m.max(1) as u64) as usize;
    let size = spec.size as usize;
    match spec.family % 10 {
        0 => {
            // linear chain; sizes concentrate on small values and on the band around the limit
            let len = match size % 4 {
                0 => 1 + (size / 4) % 8,
                1 => limit - 10 + (size / 4) % 21,
                2 => limit - 2 + (size / 4) % 6,
                _ => 2 + size % max_nodes.saturating_sub(2).max(1),
            }
            .min(max_nodes.max(2) - 1);
            g_chain(len, spec.seed ^ 1, false)
        }
        1 => {
            let k = 1 + size % (max_nodes - 1).max(1);
            let mut s2 = SplitMix64::new(spec.seed ^ 2);
            let targets: Vec<u16> = (1..=k as u16).collect();
            let mut nodes = vec![Node { upd: false, e: attr_edges(&targets, &mut s2, false) }];
            nodes.extend((0..k).map(|_| Node::default()));
            Graph { family: "fan".into(), nodes }
        }
        2 => {
            // layers of width w; every node has two references into the next layer (possibly the same node twice)
            let w = 1 + r(3);
            let layers = (2 + size % 150).min((max_nodes - 1) / w).min(limit - 3).max(1);
            let mut nodes = vec![Node::default()];
            let idx = |l: usize, j: usize| (1 + l * w + j) as u16;
            let mut s2 = SplitMix64::new(spec.seed ^ 3);
            let first: Vec<u16> = vec![idx(0, r(w)), idx(0, r(w))];
            nodes[0].e = attr_edges(&first, &mut s2, false);
            for l in 0..layers {
                for _ in 0..w {
                    let e = if l + 1 < layers { attr_edges(&[idx(l + 1, r(w)), idx(l + 1, r(w))], &mut s2, false) } else { vec![] };
                    nodes.push(Node { upd: false, e });
                }
            }
            Graph { family: "layered".into(), nodes }
        }
        3 => {
            let n = 2 + size % (max_nodes - 1).max(1);
            let d = 1 + r(4);
            let mut s2 = SplitMix64::new(spec.seed ^ 4);
            let mut nodes = vec![];
            for _ in 0..n {
                let k = r(d + 1);
                let targets: Vec<u16> = (0..k).map(|_| if r(40) == 0 { (n + r(3)) as u16 } else { r(n) as u16 }).collect();
                let mut e = attr_edges(&targets, &mut s2, false);
                for x in e.iter_mut() {
                    x.bogus = r(6) == 0;
                }
                nodes.push(Node { upd: r(12) == 0, e });
            }
            if nodes[0].e.is_empty() {
                nodes[0].e = attr_edges(&[1], &mut s2, true);
            }
            Graph { family: "dense_cyclic".into(), nodes }
        }
        4 | 5 => {
            let n = 2 + size % (max_nodes - 1).max(1);
            let mut s2 = SplitMix64::new(spec.seed ^ 5);
            let mut nodes = vec![];
            for u in 0..n {
                let k = if u + 1 < n { r(4) } else { 0 };
                // forward edges only, short spans keep the depth below the limit
                let targets: Vec<u16> = (0..k).map(|_| (u + 1 + r((n - u - 1).min(6))) as u16).collect();
                nodes.push(Node { upd: false, e: attr_edges(&targets, &mut s2, false) });
            }
            if nodes[0].e.is_empty() {
                nodes[0].e = attr_edges(&[1], &mut s2, true);
            }
            // keep depth in range: forward spans >= 1 can still make long chains, cut at limit-3 by dropping edges
            let mut g = Graph { family: "dag".into(), nodes };
            let a = analyse(&g);
            if a.longest + 3 > limit {
                for u in (limit - 3)..g.nodes.len() {
                    g.nodes[u].e.clear();
                }
            }
            if spec.family % 10 == 5 {
                g.family = "dag_defect".into();
                let a = analyse(&g);
                let reach: Vec<usize> = {
                    // nodes reachable from 0
                    let mut seen = vec![false; n];
                    let mut st = vec![0usize];
                    seen[0] = true;
                    while let Some(u) = st.pop() {
                        for e in &g.nodes[u].e {
                            let t = e.t as usize;
                            if t < n && !seen[t] {
                                seen[t] = true;
                                st.push(t);
                            }
                        }
                    }
                    (0..n).filter(|i| seen[*i]).collect()
                };
                let _ = a;
                let u = reach[r(reach.len())];
                let defect = r(3);
                let t = match defect {
                    0 => u,                                         // self reference
                    1 => (n + r(2)) as u16 as usize,                // dangling
                    _ => reach[r(reach.len())].min(u),              // back edge (or self)
                };
                g.nodes[u].e.push(Edge { t: t as u16, rel: 1, ver: 3, bogus: false });
            }
            g
        }
        6 => {
            // node M reachable directly (first edge) and through a long detour; behind M another long chain
            let detour = (limit / 2 + 5 + size % 20).min(max_nodes / 2 - 2);
            let tail = (limit / 2 + 5 + (size / 20) % 20).min(max_nodes / 2 - 2);
            let m = 1usize;
            let mut nodes = vec![Node::default(); 2 + tail + detour];
            // tail: M -> T1 -> ... -> Ttail
            let t0 = 2;
            for i in 0..tail {
                let from = if i == 0 { m } else { t0 + i - 1 };
                nodes[from].e.push(Edge { t: (t0 + i) as u16, rel: 1, ver: 3, bogus: false });
            }
            // detour: 0 -> D1 -> ... -> Ddetour -> M
            let d0 = 2 + tail;
            let short_first = size % 2 == 0;
            if short_first {
                nodes[0].e.push(Edge { t: m as u16, rel: 1, ver: 3, bogus: false });
            }
            nodes[0].e.push(Edge { t: d0 as u16, rel: 1, ver: 3, bogus: false });
            if !short_first {
                nodes[0].e.push(Edge { t: m as u16, rel: 1, ver: 3, bogus: false });
            }
            for i in 0..detour {
                let to = if i + 1 < detour { d0 + i + 1 } else { m };
                nodes[d0 + i].e.push(Edge { t: to as u16, rel: 1, ver: 3, bogus: false });
            }
            Graph { family: "longpath_shortcut".into(), nodes }
        }
        8 | 9 => {
            // stale-hash shared DAGs: layers of width w (w = 1: "diamond chain"), every node references the next
            // layer twice, and the recorded hashes are fillers (all of them, or each with probability 1/2), so
            // nothing can be short-circuited on "ingredient hash matched": 2^layers paths over a linear store
            let diamond = spec.family % 10 == 8;
            let w = if diamond { 1 } else { 1 + r(3) };
            let layers = if diamond { 8 + size % 23 } else { (8 + size % 140).min((max_nodes - 1) / w).min(limit - 3) };
            let partial = (size / 7) % 3 == 0;
            let idx = |l: usize, j: usize| (1 + l * w + j) as u16;
            let mut s2 = SplitMix64::new(spec.seed ^ 8);
            let mut nodes = vec![Node::default()];
            let mk = |targets: [u16; 2], s2: &mut SplitMix64| {
                let mut e = attr_edges(&targets, s2, false);
                let mut any = false;
                for x in e.iter_mut() {
                    x.bogus = !partial || s2.next_u64() % 2 == 0;
                    any |= x.bogus;
                }
                if !any {
                    e[0].bogus = true;
                }
                e
            };
            let first = [idx(0, r(w)), idx(0, r(w))];
            nodes[0].e = mk(first, &mut s2);
            for l in 0..layers {
                for _ in 0..w {
                    let e = if l + 1 < layers { mk([idx(l + 1, r(w)), idx(l + 1, r(w))], &mut s2) } else { vec![] };
                    nodes.push(Node { upd: false, e });
                }
            }
            Graph { family: if diamond { "stale_diamond".into() } else { "stale_layered".into() }, nodes }
        }
        _ => {
            // update manifests whose parentOf references form a cycle (hash-binding search must terminate)
            let n = 1 + size % 6;
            let nodes = (0..n)
                .map(|i| Node { upd: true, e: vec![Edge { t: ((i + 1) % n) as u16, rel: 0, ver: 2 + (i % 2) as u8, bogus: false }] })
                .collect();
            Graph { family: "update_parent_cycle".into(), nodes }
        }
    }
}

// ------------------------------------------------------------------------------------------------
// Part A: Builder-made graphs (public API only)
// ------------------------------------------------------------------------------------------------

fn sign_ctx() -> c2pa::Context {
    let mut s = sdk::base_settings(true);
    sdk::merge(&mut s, &json!({"verify": {"verify_after_sign": false}}));
    sdk::context_with(&s)
}

/// Sign the clean fixture with the given ingredient assets: (asset bytes, relationship).
fn sign_with_ingredients(title: &str, ingredients: &[(&[u8], &str)]) -> Result<Vec<u8>, String> {
    let def = json!({
        "title": title,
        "claim_generator_info": [{ "name": GENERATOR_NAME, "version": "0.1" }],
        "assertions": [{ "label": "org.verif.note", "data": { "note": title, "marker": STALE_MARKER } }]
    });
    let has_parent = ingredients.iter().any(|(_, r)| *r == "parentOf");
    let r = vh::catch(|| -> c2pa::Result<Vec<u8>> {
        let mut b = Builder::from_context(sign_ctx()).with_definition(def.to_string())?;
        b.set_intent(if has_parent { BuilderIntent::Edit } else { BuilderIntent::Create(DigitalSourceType::Empty) });
        for (i, (bytes, rel)) in ingredients.iter().enumerate() {
            let j = json!({"title": format!("ingredient {i}"), "relationship": rel});
            b.add_ingredient_from_stream(j.to_string(), FMT, &mut Cursor::new(bytes.to_vec()))?;
        }
        let signer = sdk::signer("ed25519");
        let mut src = Cursor::new(sdk::fixture("libpng-test.png"));
        let mut dst = Cursor::new(Vec::new());
        b.sign(signer.as_ref(), FMT, &mut src, &mut dst)?;
        Ok(dst.into_inner())
    });
    match r {
        Ok(Ok(v)) => Ok(v),
        Ok(Err(e)) => Err(format!("{e:?}")),
        Err(p) => Err(format!("panic {p}")),
    }
}

/// Stages of one linear chain (stage i has i ancestors), extended on demand; shared by all chain cases.
static CHAIN: Mutex<Vec<Vec<u8>>> = Mutex::new(Vec::new());

fn chain_stage(depth: usize) -> Result<Vec<u8>, (usize, String)> {
    let mut c = CHAIN.lock().unwrap();
    while c.len() <= depth {
        let i = c.len();
        let next = if i == 0 {
            sign_with_ingredients("A0", &[])
        } else {
            let prev = c[i - 1].clone();
            sign_with_ingredients(&format!("A{i}"), &[(&prev, "parentOf")])
        };
        match next {
            Ok(b) => c.push(b),
            Err(e) => return Err((i, e)),
        }
    }
    Ok(c[depth].clone())
}

#[derive(Clone, Debug, Serialize, Deserialize, PartialEq, Eq, Hash)]
enum BCase {
    /// linear chain with `depth` ancestors
    Chain { depth: usize },
    /// A(i+1) takes A(i) twice: parentOf + second relationship (1 componentOf, 2 inputTo); `depth` levels
    Shared { depth: usize, second: u8 },
    /// one manifest with `k` independently signed componentOf ingredients
    Fan { k: usize },
    /// chain of `depth` ancestors, then the manifest of ancestor `victim` (1 = direct parent) is removed / hidden:
    /// method 0 delete box + sidecar read, 1 same-size description-UUID patch, 2 same-size label patch
    Dangling { depth: usize, victim: usize, method: u8 },
    /// update manifest on top of a chain of `depth` ancestors
    Update { depth: usize },
    /// the Shared graph (every level takes the previous one twice), then a same-length string that occurs in every
    /// manifest is edited in the store bytes (0: assertion data, 1: claim generator name inside the claim), so that
    /// every recorded ingredient hash is stale; `width` > 1 gives a layered DAG (each level has `width` siblings
    /// that all take two members of the previous level)
    StaleShared { depth: usize, second: u8, marker: u8, width: usize },
}

// ---- minimal JUMBF top-level walker --------------------------------------------------------------

struct Child {
    start: usize,
    end: usize,
    /// offset of the 16-byte description UUID, offset of the label, label
    uuid_at: usize,
    label_at: usize,
    label: String,
}

fn box_header(b: &[u8], at: usize) -> Option<(usize, usize, [u8; 4])> {
    // (header length, total length, type)
    if at + 8 > b.len() {
        return None;
    }
    let l = u32::from_be_bytes(b[at..at + 4].try_into().ok()?) as usize;
    let t: [u8; 4] = b[at + 4..at + 8].try_into().ok()?;
    match l {
        1 => {
            if at + 16 > b.len() {
                return None;
            }
            let xl = u64::from_be_bytes(b[at + 8..at + 16].try_into().ok()?) as usize;
            Some((16, xl, t))
        }
        0 => Some((8, b.len() - at, t)),
        l if l >= 8 => Some((8, l, t)),
        _ => None,
    }
}

/// Manifest boxes directly inside the store superbox.
fn store_children(store: &[u8]) -> Option<Vec<Child>> {
    let (h, total, t) = box_header(store, 0)?;
    if &t != b"jumb" || total > store.len() {
        return None;
    }
    let mut at = h;
    let mut out = vec![];
    let mut first = true;
    while at < total {
        let (ch, cl, ct) = box_header(store, at)?;
        if cl < ch || at + cl > total {
            return None;
        }
        if first {
            // the store's own description box
            if &ct != b"jumd" {
                return None;
            }
            first = false;
        } else if &ct == b"jumb" {
            let (dh, dl, dt) = box_header(store, at + ch)?;
            if &dt != b"jumd" || dl < dh + 17 {
                return None;
            }
            let uuid_at = at + ch + dh;
            let label_at = uuid_at + 17;
            let lend = store[label_at..at + ch + dl].iter().position(|c| *c == 0)? + label_at;
            out.push(Child {
                start: at,
                end: at + cl,
                uuid_at,
                label_at,
                label: String::from_utf8_lossy(&store[label_at..lend]).to_string(),
            });
        }
        at += cl;
    }
    Some(out)
}

fn delete_child(store: &[u8], c: &Child) -> Option<Vec<u8>> {
    let (h, total, _) = box_header(store, 0)?;
    let mut out = Vec::with_capacity(store.len());
    out.extend_from_slice(&store[..c.start]);
    out.extend_from_slice(&store[c.end..]);
    let new_total = total - (c.end - c.start);
    if h == 16 {
        out[8..16].copy_from_slice(&(new_total as u64).to_be_bytes());
    } else {
        out[0..4].copy_from_slice(&(new_total as u32).to_be_bytes());
    }
    Some(out)
}

fn judge_builder(run: &Run, c: &BCase) -> CaseResult {
    let limit = depth_limit();
    match c {
        BCase::Chain { depth } => {
            run.count(if *depth + 10 >= limit { "A_chain_near_limit" } else { "A_chain" });
            if *depth + 10 >= limit {
                run.nontrivial(c);
            }
            let asset = match chain_stage(*depth) {
                Ok(a) => a,
                Err((at, e)) => {
                    // the Builder itself refuses: no artefact, nothing can be reported Valid
                    run.count("A_chain_builder_refused");
                    run.note(format!("Builder refused chain stage {at}: {e}"));
                    if at + 2 <= limit {
                        return Err(Fail::new("C19:harness-chain-build-failed", format!("cannot build a legitimate chain of depth {at}: {e}")));
                    }
                    return Ok(());
                }
            };
            let expect = if *depth > limit {
                Expect::Reject("over-deep")
            } else if *depth + 2 <= limit {
                Expect::Accept
            } else {
                Expect::Free
            };
            let out = run_child(&asset, None, work_limit(depth + 1, *depth));
            if let ChildOutcome::Done { main, .. } = &out {
                if *depth + 10 >= limit {
                    run.count(&format!("A_chain_depth_{depth}_{}", if main.accepted() { "accepted" } else { "rejected" }));
                }
            }
            judge_outcome(run, &format!("Builder chain depth {depth}"), depth + 1, *depth, &expect, &out)
        }
        BCase::Shared { depth, second } => {
            run.count("A_shared_subdag");
            run.nontrivial(c);
            let rel2 = if *second == 2 { "inputTo" } else { "componentOf" };
            let mut cur = sign_with_ingredients("S0", &[]).map_err(|e| Fail::new("C19:harness-sign-failed", e))?;
            for i in 1..=*depth {
                cur = sign_with_ingredients(&format!("S{i}"), &[(&cur, "parentOf"), (&cur, rel2)])
                    .map_err(|e| Fail::new("C19:harness-sign-failed", format!("shared level {i}: {e}")))?;
            }
            let out = run_child(&cur, None, work_limit(depth + 1, 2 * depth));
            judge_outcome(run, &format!("Builder shared sub-DAG depth {depth} ({rel2})"), depth + 1, 2 * depth, &Expect::Accept, &out)
        }
        BCase::StaleShared { depth, second, marker, width } => {
            run.count(&format!("A_stale_shared_marker{marker}_w{width}"));
            run.nontrivial(c);
            let rel2 = if *second == 2 { "inputTo" } else { "componentOf" };
            let w = (*width).max(1);
            let mut level: Vec<Vec<u8>> = vec![];
            for j in 0..w {
                level.push(sign_with_ingredients(&format!("T0_{j}"), &[]).map_err(|e| Fail::new("C19:harness-sign-failed", e))?);
            }
            for i in 1..=*depth {
                let mut next = vec![];
                // the top level is a single manifest
                let members = if i == *depth { 1 } else { w };
                for j in 0..members {
                    let a = &level[j % level.len()];
                    let b = &level[(j + i) % level.len()];
                    next.push(
                        sign_with_ingredients(&format!("T{i}_{j}"), &[(a, "parentOf"), (b, rel2)])
                            .map_err(|e| Fail::new("C19:harness-sign-failed", format!("stale level {i}: {e}")))?,
                    );
                }
                level = next;
            }
            let asset = level.remove(0);
            let store = sdk::store_of(FMT, &asset).map_err(|e| Fail::new("C19:harness-store-extract", format!("{e:?}")))?;
            let manifests = store_children(&store).map(|k| k.len()).unwrap_or(0);
            let (from, to): (&[u8], Vec<u8>) = if *marker == 0 {
                (STALE_MARKER.as_bytes(), STALE_MARKER.replace("-0", "-1").into_bytes())
            } else {
                (GENERATOR_NAME.as_bytes(), GENERATOR_NAME.replace("harness", "harnesz").into_bytes())
            };
            let mut edited = store.clone();
            let mut hits = 0usize;
            let mut i = 0;
            while i + from.len() <= edited.len() {
                if &edited[i..i + from.len()] == from {
                    edited[i..i + from.len()].copy_from_slice(&to);
                    hits += 1;
                    i += from.len();
                } else {
                    i += 1;
                }
            }
            if hits < manifests || manifests < depth + 1 {
                return Err(Fail::new("C19:harness-stale-edit", format!("marker found {hits} times in {manifests} manifests (depth {depth})")));
            }
            let new_asset = c2pa::jumbf_io::save_jumbf_to_memory(FMT, &asset, &edited).map_err(|e| Fail::new("C19:harness-embed", format!("{e:?}")))?;
            let e = (2 * manifests.saturating_sub(w)).max(2 * depth);
            let out = run_child(&new_asset, None, work_limit(manifests, e));
            if let ChildOutcome::Done { main, .. } = &out {
                if main.failures.iter().any(|f| f == "ingredient.manifest.mismatch") {
                    run.count("A_stale_shared_mismatch_reported");
                }
                run.note(format!(
                    "stale Builder DAG depth {depth} width {w} marker {marker}: {manifests} manifests, progress callbacks {} statuses {} outcome {} {}",
                    main.progress, main.entries, main.outcome, main.state
                ));
            }
            judge_outcome(
                run,
                &format!("Builder shared sub-DAG depth {depth} width {w} ({rel2}) with every manifest edited (marker {marker})"),
                manifests,
                e,
                &Expect::Reject("stale-hash"),
                &out,
            )
        }
        BCase::Fan { k } => {
            run.count("A_fan");
            let mut leaves = vec![];
            for i in 0..*k {
                leaves.push(sign_with_ingredients(&format!("L{i}"), &[]).map_err(|e| Fail::new("C19:harness-sign-failed", e))?);
            }
            let ing: Vec<(&[u8], &str)> = leaves.iter().map(|l| (l.as_slice(), "componentOf")).collect();
            let top = sign_with_ingredients("fan", &ing).map_err(|e| Fail::new("C19:harness-sign-failed", e))?;
            let out = run_child(&top, None, work_limit(k + 1, *k));
            judge_outcome(run, &format!("Builder fan {k}"), k + 1, *k, &Expect::Accept, &out)
        }
        BCase::Update { depth } => {
            run.count("A_update_manifest");
            let base = chain_stage(*depth).map_err(|(at, e)| Fail::new("C19:harness-chain-build-failed", format!("stage {at}: {e}")))?;
            let r = vh::catch(|| -> c2pa::Result<Vec<u8>> {
                let mut b = Builder::from_context(sign_ctx());
                b.set_intent(BuilderIntent::Update);
                let signer = sdk::signer("ed25519");
                let mut src = Cursor::new(base.clone());
                let mut dst = Cursor::new(Vec::new());
                b.sign(signer.as_ref(), FMT, &mut src, &mut dst)?;
                Ok(dst.into_inner())
            });
            let asset = match r {
                Ok(Ok(a)) => a,
                other => return Err(Fail::new("C19:harness-sign-failed", format!("update manifest: {other:?}"))),
            };
            let out = run_child(&asset, None, work_limit(depth + 2, depth + 1));
            judge_outcome(run, &format!("Builder update manifest over chain {depth}"), depth + 2, depth + 1, &Expect::Accept, &out)
        }
        BCase::Dangling { depth, victim, method } => {
            run.count(&format!("A_dangling_method{method}"));
            run.nontrivial(c);
            let asset = chain_stage(*depth).map_err(|(at, e)| Fail::new("C19:harness-chain-build-failed", format!("stage {at}: {e}")))?;
            let store = sdk::store_of(FMT, &asset).map_err(|e| Fail::new("C19:harness-store-extract", format!("{e:?}")))?;
            let kids = store_children(&store).ok_or_else(|| Fail::new("C19:harness-jumbf-walk", "cannot walk the store"))?;
            if kids.len() != depth + 1 || *victim == 0 || *victim > *depth {
                return Err(Fail::new("C19:harness-jumbf-walk", format!("expected {} manifests, found {}", depth + 1, kids.len())));
            }
            // the active manifest is the last box; ancestors precede it in order of age
            let k = &kids[kids.len() - 1 - victim];
            let (new_asset, sidecar): (Vec<u8>, Option<Vec<u8>>) = match method {
                0 => {
                    let s = delete_child(&store, k).ok_or_else(|| Fail::new("C19:harness-jumbf-walk", "delete"))?;
                    // control: the untouched store read the same way is accepted (checked once per depth below)
                    (asset.clone(), Some(s))
                }
                1 => {
                    let mut s = store.clone();
                    s[k.uuid_at] ^= 0x20; // "c2ma" -> "C2ma": an unknown box type, skipped by readers
                    (c2pa::jumbf_io::save_jumbf_to_memory(FMT, &asset, &s).map_err(|e| Fail::new("C19:harness-embed", format!("{e:?}")))?, None)
                }
                _ => {
                    let mut s = store.clone();
                    // change one hex digit of the manifest's URN: same size, the referenced label no longer exists
                    let pos = k.label.rfind(|ch: char| ch.is_ascii_hexdigit()).unwrap_or(k.label.len() - 1);
                    let b = &mut s[k.label_at + pos];
                    *b = if *b == b'0' { b'1' } else { b'0' };
                    (c2pa::jumbf_io::save_jumbf_to_memory(FMT, &asset, &s).map_err(|e| Fail::new("C19:harness-embed", format!("{e:?}")))?, None)
                }
            };
            if *method == 0 && *victim == 1 {
                // non-vacuity of the sidecar read path: untouched store + same asset must be accepted
                let ctl = run_child(&asset, Some(&store), work_limit(depth + 1, *depth));
                judge_outcome(run, &format!("sidecar-read control, chain {depth}"), depth + 1, *depth, &Expect::Accept, &ctl)?;
            }
            let out = run_child(&new_asset, sidecar.as_deref(), work_limit(*depth, *depth));
            if let ChildOutcome::Done { main, .. } = &out {
                for f in &main.failures {
                    if f.contains("ingredient") {
                        run.count(&format!("A_dangling_code_{f}"));
                    }
                }
            }
            judge_outcome(
                run,
                &format!("chain {depth} with ancestor {victim} removed (method {method})"),
                *depth,
                *depth,
                &Expect::Reject("dangling"),
                &out,
            )
        }
    }
}

// ------------------------------------------------------------------------------------------------

fn fit_bound(run: &Run) {
    // positive controls: Builder chains of depth 1..5 (V+E = 3..11) and crafted chains of the same sizes
    let mut worst: f64 = 0.0;
    let mut rows = vec![];
    let mut consider = |what: String, v: usize, e: usize, out: &ChildOutcome, rows: &mut Vec<Value>| match out {
        ChildOutcome::Done { main, .. } if main.accepted() => {
            let s = (v + e) as f64;
            let ratio = main.work() as f64 / (s * s);
            rows.push(json!({"control": what, "V": v, "E": e, "progress": main.progress, "statuses": main.entries, "state": main.state}));
            if ratio > worst {
                worst = ratio;
            }
            true
        }
        other => {
            run.inconclusive(format!("positive control {what} was not accepted: {other:?}"));
            false
        }
    };
    for d in 1..=5usize {
        match chain_stage(d) {
            Ok(a) => {
                let out = run_child(&a, None, u64::MAX);
                consider(format!("builder chain {d}"), d + 1, d, &out, &mut rows);
            }
            Err((at, e)) => run.inconclusive(format!("cannot build control chain stage {at}: {e}")),
        }
        let g = Graph {
            family: "control".into(),
            nodes: (0..=d).map(|i| Node { upd: false, e: if i < d { vec![Edge { t: (i + 1) as u16, rel: 1, ver: 3, bogus: false }] } else { vec![] } }).collect(),
        };
        match craft(&g) {
            Ok(a) => {
                let out = run_child(&a, None, u64::MAX);
                consider(format!("crafted chain {d}"), d + 1, d, &out, &mut rows);
            }
            Err(e) => run.inconclusive(format!("cannot craft control chain {d}: {e}")),
        }
    }
    let mut c = (worst * 20.0).max(1.0);
    if selftest() == "tiny-bound" {
        c = 0.02; // every larger read must then be cancelled by the in-child cap and flagged
    }
    run.extra("work_bound", json!({"c_times_20": c, "formula": "work = progress callbacks + reported statuses <= c*(V+E)^2", "controls": rows}));
    let _ = BOUND.set(Bound { c });
}

fn main() {
    let args: Vec<String> = std::env::args().collect();
    if args.len() >= 3 && args[1] == "--child" {
        child_main(&args[2..]);
    }
    vh::quiet_panics();
    let run = Run::from_args("C19", "exploration");
    let _ = std::fs::create_dir_all(WORK_DIR);
    if let Ok(rd) = std::fs::read_dir(WORK_DIR) {
        for e in rd.flatten() {
            let _ = std::fs::remove_file(e.path());
        }
    }
    run.set_rule("Part A: Builder-made ingredient graphs (linear chains depth 1..5 and limit-10..limit+5, shared sub-DAGs where every level takes the previous one twice, wide fans, update manifests) plus dangling variants (an ancestor's manifest box deleted / hidden by a same-size patch; active manifest bit-identical). Part B: stores crafted through verif_hooks::craft_store — every directed graph (self loops allowed) on <=3 nodes, on 4 nodes up to an edge bound, and random families up to 300 manifests (chains around the limit, fans, layered DAGs with 2^n paths, dense cyclic, DAG + one defect, long path with shortcut, update-manifest parent cycles). Non-trivial = cycle, self reference, shared sub-graph (a node with two incoming reachable references) or depth within 10 of the limit.");
    run.assume("the ed25519 fixture credential chains to the fixture trust anchors (positive controls read Trusted)");
    run.assume("polynomial time is judged by deterministic counters (progress callbacks + reported statuses <= c*(V+E)^2, c = 20 x the worst small positive control), wall-clock only as a watchdog (150 s, one retry with 300 s)");
    run.assume("over-deep means: some manifest is only reachable through more than MAX_INGREDIENT_DEPTH references (shortest path); graphs whose longest path alone exceeds the limit are recorded, not judged");
    let limit = depth_limit();
    run.extra("depth_limit_from_source", json!(limit));
    let threads = std::thread::available_parallelism().map(|n| n.get()).unwrap_or(8).min(16);

    let t0 = Instant::now();
    let phase = |name: &str| run.note(format!("phase {name} done at {:.1}s (informational)", t0.elapsed().as_secs_f64()));
    fit_bound(&run);
    phase("controls");

    // ---- Part A ---------------------------------------------------------------------------------------
    let mut a_cases: Vec<BCase> = vec![];
    for d in 0..=5 {
        a_cases.push(BCase::Chain { depth: d });
    }
    for d in run.scale(vec![2, 6, 12, 20], vec![2, 6, 12, 20, 32, 48, 64]) {
        a_cases.push(BCase::Shared { depth: d, second: 1 });
        a_cases.push(BCase::Shared { depth: d, second: 2 });
    }
    for k in run.scale(vec![1, 8, 40], vec![1, 8, 40, 150, 299]) {
        a_cases.push(BCase::Fan { k });
    }
    for (d, v) in [(1usize, 1usize), (2, 1), (2, 2), (4, 1), (4, 3), (5, 5)] {
        for m in 0..3u8 {
            a_cases.push(BCase::Dangling { depth: d, victim: v, method: m });
        }
    }
    for d in run.scale(vec![8usize, 16, 30], vec![8, 10, 12, 14, 16, 18, 20, 22, 24, 26, 28, 30, 40, 64]) {
        a_cases.push(BCase::StaleShared { depth: d, second: 1 + (d % 2) as u8, marker: 0, width: 1 });
        a_cases.push(BCase::StaleShared { depth: d, second: 2 - (d % 2) as u8, marker: 1, width: 1 });
    }
    for (d, w) in run.scale(vec![(12usize, 2usize)], vec![(12, 2), (20, 3), (30, 2), (45, 3)]) {
        a_cases.push(BCase::StaleShared { depth: d, second: 1, marker: 0, width: w });
    }
    a_cases.push(BCase::Update { depth: 0 });
    a_cases.push(BCase::Update { depth: 3 });
    run.drive_enum_par("builder_graphs", a_cases, threads, |c| soften(&run, judge_builder(&run, c)));
    phase("builder_graphs");

    // chain around the limit: one incremental build, sequential by nature
    let deep: Vec<BCase> = if run.quick() {
        vec![limit - 2, limit - 1, limit, limit + 1, limit + 2]
    } else {
        (limit - 10..=limit + 5).collect()
    }
    .into_iter()
    .map(|d| BCase::Chain { depth: d })
    .collect();
    let mut deep_all = deep.clone();
    if !run.quick() {
        deep_all.push(BCase::Dangling { depth: limit - 5, victim: limit - 6, method: 0 });
        deep_all.push(BCase::Dangling { depth: limit - 5, victim: 1, method: 1 });
        deep_all.push(BCase::Update { depth: limit - 5 });
    }
    // (runs beside Part B: the build is one long sequential job)
    std::thread::scope(|scope| {
    scope.spawn(|| {
        run.drive_enum_par("builder_deep_chain", deep_all, 2, |c| soften(&run, judge_builder(&run, c)));
        CHAIN.lock().unwrap().clear();
        phase("builder_deep_chain");
    });

    // ---- Part B ---------------------------------------------------------------------------------------
    let mut small: Vec<Graph> = vec![];
    for n in 1..=3 {
        small.extend(enumerate_graphs(n, n * n, run.seed));
    }
    run.drive_enum_par("crafted_exhaustive_le3", small, threads, |g| soften(&run, judge_graph(&run, g)));
    let four = enumerate_graphs(4, run.scale(4, 16), run.seed);
    run.extra("four_node_graphs", json!({"max_edges": run.scale(4, 16), "count": four.len(), "all_graphs_on_4_nodes": !run.quick()}));
    run.drive_enum_par("crafted_exhaustive_4", four, threads, |g| soften(&run, judge_graph(&run, g)));
    run.set_exhaustive(false);
    phase("crafted_exhaustive");

    let max_nodes = 300usize;
    // the case is the concrete graph (replay files hold it verbatim); shrinking acts on (family, size, seed)
    let strat = (0u8..10, 0u16..2000, any::<u64>()).prop_map(move |(family, size, seed)| {
        let cap = if size % 5 == 0 { max_nodes } else { 60 };
        gen_random(&RandSpec { family, size, seed }, cap)
    });
    run.drive_par("crafted_random", run.scale(600, 20_000), threads, strat, |g| soften(&run, judge_graph(&run, g)));
    phase("crafted_random");

    // fixed large members of every family (always run, so that the 300-manifest end of the domain is never missed)
    let mut fixed: Vec<Graph> = vec![];
    let band: Vec<usize> = if run.quick() { vec![limit - 5, limit - 2, limit - 1, limit, limit + 1, limit + 2, limit + 5] } else { (limit - 5..=limit + 5).collect() };
    for len in band {
        fixed.push(g_chain(len, run.seed ^ len as u64, len % 2 == 0));
    }
    fixed.push(g_chain(299, run.seed, false));
    for (family, size) in [(1u8, 298u16), (2, 148), (2, 97), (3, 298), (3, 297), (4, 298), (5, 298), (5, 297), (6, 0), (6, 1), (6, 45), (7, 0), (7, 1), (7, 4), (8, 6), (8, 8), (8, 10), (8, 14), (8, 17), (8, 22), (8, 21), (9, 140), (9, 91), (9, 21)] {
        fixed.push(gen_random(&RandSpec { family, size, seed: run.seed ^ ((family as u64) << 32) ^ size as u64 }, max_nodes));
    }
    run.drive_enum_par("crafted_fixed_large", fixed, threads, |g| soften(&run, judge_graph(&run, g)));
    phase("crafted_fixed_large");
    });

    {
        let g = CLOSEST.lock().unwrap();
        run.extra("work_closest_to_bound", json!({"work_over_limit": g.0, "case": g.1, "max_work_per_node_or_edge_on_graphs_ge_50": g.2}));
    }
    run.finish();
}
