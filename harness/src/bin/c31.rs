//! C31 — the C API never crashes or double-frees on handle misuse.
//!
//! Model-based: sequences of calls over the exported `c2pa_*` functions (linked as the rlib `c2pa_c`), each
//! handle argument drawn from {live right type, live wrong type, freed, NULL, foreign}. Every sequence is executed
//! in a child process (`/proc/self/exe --child`, glibc malloc debugging on) that keeps a model of the handle
//! registry learned from return values, judges every call and streams a JSON trace; the parent turns a
//! violation line or the death of the child into a failure.
#![allow(deprecated)]
#![allow(clippy::all)]

use std::{
    collections::{BTreeMap, BTreeSet},
    ffi::{CStr, CString},
    io::{Read, Write},
    os::raw::{c_char, c_int, c_void},
    process::{Command, Stdio},
    sync::atomic::{AtomicBool, Ordering},
};

use c2pa_c as ffi;
use proptest::prelude::*;
use serde::{Deserialize, Serialize};
use serde_json::{json, Value};
use vh::{CaseResult, Fail, Run};

// ------------------------------------------------------------------------------------------------
// case
// ------------------------------------------------------------------------------------------------

/// Handle-argument selector: class 0 live right type, 1 live wrong type, 2 freed, 3 NULL, 4 foreign; `i` picks
/// among the candidates of that class (creation order / most recently freed first / offset in the foreign page).
#[derive(Clone, Copy, Debug, Serialize, Deserialize, PartialEq, Eq, Hash)]
struct Sel {
    c: u8,
    i: u8,
}

#[derive(Clone, Debug, Serialize, Deserialize, PartialEq, Eq, Hash)]
struct Call {
    /// index into SPECS (modulo)
    f: u8,
    /// one selector per handle parameter (unused ones ignored)
    h: [Sel; 4],
    /// variant selectors for the non-handle arguments (0 = canonical valid value)
    v: [u8; 3],
}

#[derive(Clone, Debug, Serialize, Deserialize, PartialEq, Eq, Hash)]
struct Case {
    calls: Vec<Call>,
    /// probe of a known finding: known (function, parameter, class) triples are *not* skipped
    #[serde(default)]
    probe: bool,
}

// ------------------------------------------------------------------------------------------------
// function table
// ------------------------------------------------------------------------------------------------

#[derive(Clone, Copy, PartialEq, Eq, Debug, PartialOrd, Ord)]
enum K {
    Settings,
    CtxB,
    Ctx,
    Reader,
    Builder,
    Signer,
    Resolver,
    Stream,
    Str,
    Bytes,
    /// string array (returned by *_supported_mime_types; not in the registry, own free function)
    Arr,
    /// parameter of the free functions: any registry handle is "right type"
    Any,
}

impl K {
    fn name(self) -> &'static str {
        match self {
            K::Settings => "settings",
            K::CtxB => "context_builder",
            K::Ctx => "context",
            K::Reader => "reader",
            K::Builder => "builder",
            K::Signer => "signer",
            K::Resolver => "http_resolver",
            K::Stream => "stream",
            K::Str => "string",
            K::Bytes => "bytes",
            K::Arr => "string_array",
            K::Any => "any",
        }
    }
}

#[derive(Clone, Copy, PartialEq, Eq, Debug)]
enum R {
    Ptr,
    Int,
    Bool,
    Void,
}

#[derive(Clone, Copy, PartialEq, Eq, Debug)]
enum E {
    None,
    /// returns a new handle of this kind
    New(K),
    /// out-pointer receives a byte array when the call succeeds
    OutBytes,
    /// returns a new string array
    NewArr,
    /// handle parameters listed are consumed; returns a new handle
    Consume(&'static [usize], K),
    /// parameter 1 is consumed (moved into parameter 0); returns int
    ConsumeP1,
    /// parameter 0 is freed
    Free,
    /// parameter 0 (string array) is freed
    FreeArr,
}

/// stream / builder roles used when a live handle is picked or created on demand
const R_ANY: u8 = 0;
const R_SRC: u8 = 1; // unsigned JPEG
const R_SIGNED: u8 = 2; // JPEG with a manifest
const R_DEST: u8 = 3; // empty, writable
const R_CTXB: u8 = 4; // builder made from a context that carries a signer

struct Spec {
    name: &'static str,
    hs: &'static [(K, &'static str, u8)],
    ret: R,
    eff: E,
    /// bit i set: NULL is documented as valid for handle parameter i
    null_ok: u8,
}

const fn sp(name: &'static str, hs: &'static [(K, &'static str, u8)], ret: R, eff: E) -> Spec {
    Spec { name, hs, ret, eff, null_ok: 0 }
}
const fn spn(name: &'static str, hs: &'static [(K, &'static str, u8)], ret: R, eff: E, null_ok: u8) -> Spec {
    Spec { name, hs, ret, eff, null_ok }
}

const B: (K, &str, u8) = (K::Builder, "builder_ptr", R_ANY);
const BC: (K, &str, u8) = (K::Builder, "builder_ptr", R_CTXB);

static SPECS: &[Spec] = &[
    // --- simple constructors first (small index = simple call, proptest shrinks towards them)
    sp("c2pa_version", &[], R::Ptr, E::New(K::Str)),
    sp("c2pa_settings_new", &[], R::Ptr, E::New(K::Settings)),
    sp("c2pa_context_new", &[], R::Ptr, E::New(K::Ctx)),
    sp("c2pa_context_builder_new", &[], R::Ptr, E::New(K::CtxB)),
    sp("c2pa_reader_new", &[], R::Ptr, E::New(K::Reader)),
    sp("c2pa_builder_from_json", &[], R::Ptr, E::New(K::Builder)),
    sp("c2pa_create_stream", &[], R::Ptr, E::New(K::Stream)),
    sp("c2pa_signer_from_info", &[], R::Ptr, E::New(K::Signer)),
    spn("c2pa_free", &[(K::Any, "ptr", R_ANY)], R::Int, E::Free, 1),
    sp("c2pa_error", &[], R::Ptr, E::New(K::Str)),
    sp("c2pa_error_set_last", &[], R::Int, E::None),
    sp("c2pa_load_settings", &[], R::Int, E::None),
    sp("c2pa_settings_update_from_string", &[(K::Settings, "settings", R_ANY)], R::Int, E::None),
    sp("c2pa_settings_set_value", &[(K::Settings, "settings", R_ANY)], R::Int, E::None),
    sp(
        "c2pa_context_builder_set_settings",
        &[(K::CtxB, "builder", R_ANY), (K::Settings, "settings", R_ANY)],
        R::Int,
        E::None,
    ),
    sp(
        "c2pa_context_builder_set_signer",
        &[(K::CtxB, "builder", R_ANY), (K::Signer, "signer_ptr", R_ANY)],
        R::Int,
        E::ConsumeP1,
    ),
    sp("c2pa_context_builder_set_progress_callback", &[(K::CtxB, "builder", R_ANY)], R::Int, E::None),
    sp("c2pa_http_resolver_create", &[], R::Ptr, E::New(K::Resolver)),
    sp(
        "c2pa_context_builder_set_http_resolver",
        &[(K::CtxB, "builder", R_ANY), (K::Resolver, "resolver_ptr", R_ANY)],
        R::Int,
        E::ConsumeP1,
    ),
    sp("c2pa_context_builder_build", &[(K::CtxB, "builder", R_ANY)], R::Ptr, E::Consume(&[0], K::Ctx)),
    sp("c2pa_context_cancel", &[(K::Ctx, "ctx", R_ANY)], R::Int, E::None),
    spn("c2pa_release_string", &[(K::Any, "s", R_ANY)], R::Void, E::Free, 1),
    spn("c2pa_string_free", &[(K::Any, "s", R_ANY)], R::Void, E::Free, 1),
    spn("c2pa_free_string_array", &[(K::Arr, "ptr", R_ANY)], R::Void, E::FreeArr, 1),
    sp("c2pa_reader_from_context", &[(K::Ctx, "context", R_ANY)], R::Ptr, E::New(K::Reader)),
    sp("c2pa_reader_from_stream", &[(K::Stream, "stream", R_SIGNED)], R::Ptr, E::New(K::Reader)),
    sp(
        "c2pa_reader_with_stream",
        &[(K::Reader, "reader", R_ANY), (K::Stream, "stream", R_SIGNED)],
        R::Ptr,
        E::Consume(&[0], K::Reader),
    ),
    sp(
        "c2pa_reader_with_manifest_data_and_stream",
        &[(K::Reader, "reader", R_ANY), (K::Stream, "stream", R_SRC)],
        R::Ptr,
        E::Consume(&[0], K::Reader),
    ),
    sp(
        "c2pa_reader_with_fragment",
        &[(K::Reader, "reader", R_ANY), (K::Stream, "stream", R_SIGNED), (K::Stream, "fragment", R_SIGNED)],
        R::Ptr,
        E::Consume(&[0], K::Reader),
    ),
    sp("c2pa_reader_from_file", &[], R::Ptr, E::New(K::Reader)),
    sp(
        "c2pa_reader_from_manifest_data_and_stream",
        &[(K::Stream, "stream", R_SRC)],
        R::Ptr,
        E::New(K::Reader),
    ),
    spn("c2pa_reader_free", &[(K::Any, "reader_ptr", R_ANY)], R::Void, E::Free, 1),
    sp("c2pa_reader_json", &[(K::Reader, "reader_ptr", R_ANY)], R::Ptr, E::New(K::Str)),
    sp("c2pa_reader_detailed_json", &[(K::Reader, "reader_ptr", R_ANY)], R::Ptr, E::New(K::Str)),
    sp("c2pa_reader_crjson", &[(K::Reader, "reader_ptr", R_ANY)], R::Ptr, E::New(K::Str)),
    sp("c2pa_reader_remote_url", &[(K::Reader, "reader_ptr", R_ANY)], R::Ptr, E::New(K::Str)),
    sp("c2pa_reader_is_embedded", &[(K::Reader, "reader_ptr", R_ANY)], R::Bool, E::None),
    sp(
        "c2pa_reader_resource_to_stream",
        &[(K::Reader, "reader_ptr", R_ANY), (K::Stream, "stream", R_DEST)],
        R::Int,
        E::None,
    ),
    sp("c2pa_reader_supported_mime_types", &[], R::Ptr, E::NewArr),
    sp("c2pa_builder_from_context", &[(K::Ctx, "context", R_ANY)], R::Ptr, E::New(K::Builder)),
    sp("c2pa_builder_from_archive", &[(K::Stream, "stream", R_ANY)], R::Ptr, E::New(K::Builder)),
    sp("c2pa_builder_supported_mime_types", &[], R::Ptr, E::NewArr),
    spn("c2pa_builder_free", &[(K::Any, "builder_ptr", R_ANY)], R::Void, E::Free, 1),
    sp("c2pa_builder_with_definition", &[(K::Builder, "builder", R_ANY)], R::Ptr, E::Consume(&[0], K::Builder)),
    sp(
        "c2pa_builder_with_archive",
        &[(K::Builder, "builder", R_ANY), (K::Stream, "stream", R_ANY)],
        R::Ptr,
        E::Consume(&[0], K::Builder),
    ),
    sp("c2pa_builder_set_intent", &[B], R::Int, E::None),
    sp("c2pa_builder_set_no_embed", &[B], R::Void, E::None),
    sp("c2pa_builder_set_remote_url", &[B], R::Int, E::None),
    sp("c2pa_builder_set_base_path", &[B], R::Int, E::None),
    sp("c2pa_builder_add_resource", &[B, (K::Stream, "stream", R_SRC)], R::Int, E::None),
    sp("c2pa_builder_add_ingredient_from_stream", &[B, (K::Stream, "source", R_SIGNED)], R::Int, E::None),
    sp("c2pa_builder_add_action", &[B], R::Int, E::None),
    sp("c2pa_builder_to_archive", &[B, (K::Stream, "stream", R_DEST)], R::Int, E::None),
    sp("c2pa_builder_add_ingredient_from_archive", &[B, (K::Stream, "stream", R_ANY)], R::Int, E::None),
    sp("c2pa_builder_write_ingredient_archive", &[B, (K::Stream, "stream", R_DEST)], R::Int, E::None),
    sp(
        "c2pa_builder_sign",
        &[B, (K::Stream, "source", R_SRC), (K::Stream, "dest", R_DEST), (K::Signer, "signer_ptr", R_ANY)],
        R::Int,
        E::OutBytes,
    ),
    sp(
        "c2pa_builder_sign_context",
        &[BC, (K::Stream, "source", R_SRC), (K::Stream, "dest", R_DEST)],
        R::Int,
        E::OutBytes,
    ),
    spn("c2pa_manifest_bytes_free", &[(K::Any, "manifest_bytes_ptr", R_ANY)], R::Void, E::Free, 1),
    sp("c2pa_builder_data_hashed_placeholder", &[B], R::Int, E::OutBytes),
    spn(
        "c2pa_builder_sign_data_hashed_embeddable",
        &[B, (K::Signer, "signer_ptr", R_ANY), (K::Stream, "asset", R_SRC)],
        R::Int,
        E::OutBytes,
        0b100,
    ),
    sp("c2pa_builder_needs_placeholder", &[B], R::Int, E::None),
    sp("c2pa_builder_hash_type", &[B], R::Int, E::None),
    sp("c2pa_builder_placeholder", &[BC], R::Int, E::OutBytes),
    sp("c2pa_builder_sign_embeddable", &[BC], R::Int, E::OutBytes),
    sp("c2pa_builder_set_data_hash_exclusions", &[BC], R::Int, E::None),
    sp("c2pa_builder_set_fixed_size_merkle", &[B], R::Int, E::None),
    sp("c2pa_builder_hash_mdat_bytes", &[B], R::Int, E::None),
    sp("c2pa_builder_update_hash_from_stream", &[BC, (K::Stream, "stream", R_SRC)], R::Int, E::None),
    sp("c2pa_format_embeddable", &[], R::Int, E::OutBytes),
    sp("c2pa_signer_create", &[], R::Ptr, E::New(K::Signer)),
    sp(
        "c2pa_identity_signer_create",
        &[(K::Signer, "c2pa_signer_ptr", R_ANY), (K::Signer, "identity_signer_ptr", R_ANY)],
        R::Ptr,
        E::Consume(&[0, 1], K::Signer),
    ),
    sp("c2pa_signer_from_settings", &[], R::Ptr, E::New(K::Signer)),
    sp("c2pa_signer_reserve_size", &[(K::Signer, "signer_ptr", R_ANY)], R::Int, E::None),
    spn("c2pa_signer_free", &[(K::Any, "signer_ptr", R_ANY)], R::Void, E::Free, 1),
    sp("c2pa_ed25519_sign", &[], R::Ptr, E::New(K::Bytes)),
    spn("c2pa_signature_free", &[(K::Any, "signature_ptr", R_ANY)], R::Void, E::Free, 1),
    spn("c2pa_release_stream", &[(K::Any, "stream", R_ANY)], R::Void, E::Free, 1),
];

fn spec_index(name: &str) -> usize {
    SPECS.iter().position(|s| s.name == name).unwrap_or_else(|| panic!("no spec {name}"))
}

#[derive(Clone, Copy, PartialEq, Eq, Debug)]
enum Cl {
    Live,
    Wrong,
    Freed,
    Null,
    Foreign,
}

impl Cl {
    fn name(self) -> &'static str {
        match self {
            Cl::Live => "live",
            Cl::Wrong => "wrong_type",
            Cl::Freed => "freed",
            Cl::Null => "null",
            Cl::Foreign => "foreign",
        }
    }
    fn from_u8(c: u8) -> Cl {
        match c % 5 {
            0 => Cl::Live,
            1 => Cl::Wrong,
            2 => Cl::Freed,
            3 => Cl::Null,
            _ => Cl::Foreign,
        }
    }
}

const FIX: &str = "/repo/sdk/tests/fixtures";

// ------------------------------------------------------------------------------------------------
// child: plumbing (trace output, harness streams, callbacks, argument pools)
// ------------------------------------------------------------------------------------------------

static IN_CALL: AtomicBool = AtomicBool::new(false);

/// One JSON line on fd 1, written with a single write(2) so that nothing is lost when the process dies.
fn emit(v: Value) {
    let mut s = v.to_string();
    s.push('\n');
    let b = s.as_bytes();
    let mut off = 0;
    while off < b.len() {
        let n = unsafe { libc::write(1, b[off..].as_ptr() as *const c_void, b.len() - off) };
        if n <= 0 {
            break;
        }
        off += n as usize;
    }
}

/// Harness-owned in-memory stream behind a `C2paStream` (the `context` of the callbacks).
struct Mem {
    data: Vec<u8>,
    pos: u64,
}

const MEM_CAP: u64 = 64 << 20;

fn set_cb_error(msg: &str) {
    let c = CString::new(msg).unwrap();
    unsafe { ffi::c2pa_error_set_last(c.as_ptr()) };
}

unsafe extern "C" fn s_read(ctx: *mut ffi::StreamContext, data: *mut u8, len: isize) -> isize {
    let m = &mut *(ctx as *mut Mem);
    if len < 0 {
        set_cb_error("Io: negative read length");
        return -1;
    }
    let start = (m.pos.min(m.data.len() as u64)) as usize;
    let n = (m.data.len() - start).min(len as usize);
    std::ptr::copy_nonoverlapping(m.data.as_ptr().add(start), data, n);
    m.pos += n as u64;
    n as isize
}

unsafe extern "C" fn s_seek(ctx: *mut ffi::StreamContext, offset: isize, mode: ffi::C2paSeekMode) -> isize {
    let m = &mut *(ctx as *mut Mem);
    let base: i128 = match mode {
        ffi::C2paSeekMode::Start => 0,
        ffi::C2paSeekMode::Current => m.pos as i128,
        ffi::C2paSeekMode::End => m.data.len() as i128,
    };
    let np = base + offset as i128;
    if np < 0 || np > MEM_CAP as i128 {
        set_cb_error("Io: seek out of bounds");
        return -1;
    }
    m.pos = np as u64;
    np as isize
}

unsafe extern "C" fn s_write(ctx: *mut ffi::StreamContext, data: *const u8, len: isize) -> isize {
    let m = &mut *(ctx as *mut Mem);
    if len < 0 || m.pos + len as u64 > MEM_CAP {
        set_cb_error("Io: write too large");
        return -1;
    }
    let start = m.pos as usize;
    let end = start + len as usize;
    if m.data.len() < end {
        m.data.resize(end, 0);
    }
    std::ptr::copy_nonoverlapping(data, m.data.as_mut_ptr().add(start), len as usize);
    m.pos = end as u64;
    len
}

unsafe extern "C" fn s_flush(_ctx: *mut ffi::StreamContext) -> isize {
    0
}

/// Signer callback: `context` points to the PEM private key (NUL-terminated); signs with the library's own helper.
unsafe extern "C" fn sign_cb(context: *const (), data: *const u8, len: usize, signed: *mut u8, signed_len: usize) -> isize {
    let sig = ffi::c2pa_ed25519_sign(data, len, context as *const c_char);
    if sig.is_null() || signed_len < 64 {
        return -1;
    }
    std::ptr::copy_nonoverlapping(sig, signed, 64);
    ffi::c2pa_signature_free(sig);
    64
}

unsafe extern "C" fn progress_cb(_ctx: *const c_void, _phase: ffi::C2paProgressPhase, _step: u32, _total: u32) -> c_int {
    1
}

unsafe extern "C" fn http_cb(_ctx: *mut c_void, _req: *const ffi::C2paHttpRequest, _resp: *mut ffi::C2paHttpResponse) -> c_int {
    set_cb_error("Remote: harness resolver is offline");
    -1
}

/// Optional C string argument (valid NUL-terminated or NULL).
struct CArg(Option<CString>);
impl CArg {
    fn p(&self) -> *const c_char {
        self.0.as_ref().map_or(std::ptr::null(), |c| c.as_ptr())
    }
}

struct Pools {
    m: BTreeMap<&'static str, Vec<Option<String>>>,
    src_jpeg: Vec<u8>,
    signed_jpeg: Vec<u8>,
    key_pem: CString,
}

fn rd(p: &str) -> Vec<u8> {
    std::fs::read(format!("{FIX}/{p}")).unwrap_or_else(|e| panic!("fixture {p}: {e}"))
}
fn rds(p: &str) -> String {
    String::from_utf8(rd(p)).expect("utf8 fixture")
}

impl Pools {
    fn new() -> Pools {
        let mut m: BTreeMap<&'static str, Vec<Option<String>>> = BTreeMap::new();
        let so = |v: &[&str]| -> Vec<Option<String>> { v.iter().map(|s| Some(s.to_string())).collect() };
        let with_null = |mut v: Vec<Option<String>>| {
            v.push(None);
            v
        };
        let test_settings = rds("test_settings.json");
        m.insert("fmt", with_null(so(&["image/jpeg", "jpg", "application/c2pa", "video/mp4", "bogus/type"])));
        m.insert("setfmt", with_null(so(&["json", "toml", "yaml", ""])));
        m.insert(
            "settings",
            with_null(vec![
                Some(r#"{"verify":{"verify_after_sign":false}}"#.to_string()),
                Some(test_settings.clone()),
                Some("[verify]\nverify_after_sign = false\n".to_string()),
                Some("not a settings document".to_string()),
            ]),
        );
        m.insert("test_settings", vec![Some(test_settings)]);
        m.insert("setpath", with_null(so(&["verify.verify_after_sign", "builder.thumbnail.enabled", "nope.nope", ""])));
        m.insert("setvalue", with_null(so(&["false", "\"x\"", "42", "[\"a\"]", "{", "null", "1.5"])));
        m.insert(
            "def",
            with_null(so(&[
                "{}",
                r#"{"title":"t","assertions":[{"label":"org.example.a","data":{"k":1}}]}"#,
                r#"{"title":"#,
            ])),
        );
        m.insert("errstr", with_null(so(&["Other: set by harness", "Io: x", "nocolon"])));
        m.insert("uri", with_null(so(&["@thumb", "self#jumbf=/c2pa/nope", ""])));
        m.insert("url", with_null(so(&["http://127.0.0.1:9/m.c2pa", ""])));
        m.insert("basepath", with_null(so(&["/verif/work/C31/res", "/nonexistent/dir"])));
        m.insert(
            "ingredient",
            with_null(so(&[r#"{"title":"ing"}"#, r#"{"title":"p","relationship":"parentOf"}"#, "x"])),
        );
        m.insert(
            "action",
            with_null(so(&[r#"{"action":"c2pa.edited"}"#, r#"{"action":"com.x.y","parameters":{"a":1}}"#, "nope"])),
        );
        m.insert("ingid", with_null(so(&["ing1", ""])));
        m.insert(
            "datahash",
            with_null(so(&[
                r#"{"exclusions":[{"start":20,"length":100}],"name":"jumbf manifest","alg":"sha256","hash":[],"pad":[]}"#,
                "{}",
            ])),
        );
        m.insert("file", with_null(vec![Some(format!("{FIX}/C.jpg")), Some("/nonexistent/x.jpg".to_string())]));
        m.insert("certs", with_null(vec![Some(rds("certs/ed25519.pub")), Some("garbage".to_string())]));
        m.insert("key", with_null(vec![Some(rds("certs/ed25519.pem")), Some("garbage".to_string())]));
        m.insert("alg", with_null(so(&["Ed25519", "Es256", "BadAlg"])));
        Pools {
            m,
            src_jpeg: rd("IMG_0003.jpg"),
            signed_jpeg: rd("C.jpg"),
            key_pem: CString::new(rd("certs/ed25519.pem")).unwrap(),
        }
    }
}

// ------------------------------------------------------------------------------------------------
// child: model of the registry
// ------------------------------------------------------------------------------------------------

#[derive(Clone, Debug)]
struct Handle {
    addr: usize,
    kind: K,
    seq: u64,
    role: u8,
    /// index into Child::mems for streams
    mem: Option<usize>,
    /// element count for string arrays, byte length for byte arrays
    len: usize,
}

#[derive(Default)]
struct Model {
    /// what the registry (plus the set of outstanding string arrays) currently holds, as learned from return values
    live: BTreeMap<usize, Handle>,
    /// handles passed to a consuming function that then failed: consumed or not is not documented
    unknown: BTreeSet<usize>,
    /// every address that was live once and was then released (most recent last); (addr, was_array, count)
    freed: Vec<(usize, bool, usize)>,
    seq: u64,
}

impl Model {
    fn add(&mut self, addr: usize, kind: K, role: u8, mem: Option<usize>, len: usize) -> bool {
        self.seq += 1;
        self.unknown.remove(&addr);
        let reissued = self.freed.iter().any(|f| f.0 == addr);
        self.live.insert(addr, Handle { addr, kind, seq: self.seq, role, mem, len });
        reissued
    }
    fn release(&mut self, addr: usize) {
        if let Some(h) = self.live.remove(&addr) {
            self.freed.push((addr, h.kind == K::Arr, h.len));
        }
    }
    fn to_unknown(&mut self, addr: usize) {
        if self.live.remove(&addr).is_some() {
            self.unknown.insert(addr);
        }
    }
    /// live handles in creation order
    fn ordered(&self) -> Vec<Handle> {
        let mut v: Vec<Handle> = self.live.values().cloned().collect();
        v.sort_by_key(|h| h.seq);
        v
    }
    fn is_free_now(&self, addr: usize) -> bool {
        !self.live.contains_key(&addr) && !self.unknown.contains(&addr)
    }
}

//@@PART3@@
