//! C31 — the C API never crashes or double-frees on handle misuse.
//!
//! Model-based: sequences of calls over the exported `c2pa_*` functions (linked as the rlib `c2pa_c`), each
//! handle argument drawn from {live right type, live wrong type, freed, NULL, foreign}. Every sequence is executed
//! in a child process (`/proc/self/exe --child`, glibc malloc debugging on) that keeps a model of the handle
//! registry learned from return values, judges every call and streams a JSON trace; the parent turns a
//! violation line or the death of the child into a failure.
#![allow(deprecated)]
#![allow(clippy::all)]

use std::{
    collections::{BTreeMap, BTreeSet},
    ffi::{CStr, CString},
    io::Write,
    os::raw::{c_char, c_int, c_void},
    process::{Command, Stdio},
    sync::atomic::{AtomicBool, Ordering},
};

use c2pa_c as ffi;
use proptest::prelude::*;
use serde::{Deserialize, Serialize};
use serde_json::{json, Value};
use vh::{CaseResult, Fail, Run};

// ------------------------------------------------------------------------------------------------
// case
// ------------------------------------------------------------------------------------------------

/// Handle-argument selector: class 0 live right type, 1 live wrong type, 2 freed, 3 NULL, 4 foreign; `i` picks
/// among the candidates of that class (creation order / most recently freed first / offset in the foreign page).
#[derive(Clone, Copy, Debug, Serialize, Deserialize, PartialEq, Eq, Hash)]
struct Sel {
    c: u8,
    i: u8,
}

#[derive(Clone, Debug, Serialize, Deserialize, PartialEq, Eq, Hash)]
struct Call {
    /// index into SPECS (modulo)
    f: u8,
    /// one selector per handle parameter (unused ones ignored)
    h: [Sel; 4],
    /// variant selectors for the non-handle arguments (0 = canonical valid value)
    v: [u8; 3],
}

#[derive(Clone, Debug, Serialize, Deserialize, PartialEq, Eq, Hash)]
struct Case {
    calls: Vec<Call>,
    /// probe of a known finding: known (function, parameter, class) triples are *not* skipped
    #[serde(default)]
    probe: bool,
}

// ------------------------------------------------------------------------------------------------
// function table
// ------------------------------------------------------------------------------------------------

#[derive(Clone, Copy, PartialEq, Eq, Debug, PartialOrd, Ord)]
enum K {
    Settings,
    CtxB,
    Ctx,
    Reader,
    Builder,
    Signer,
    Resolver,
    Stream,
    Str,
    Bytes,
    /// string array (returned by *_supported_mime_types; not in the registry, own free function)
    Arr,
    /// parameter of the free functions: any registry handle is "right type"
    Any,
}

impl K {
    fn name(self) -> &'static str {
        match self {
            K::Settings => "settings",
            K::CtxB => "context_builder",
            K::Ctx => "context",
            K::Reader => "reader",
            K::Builder => "builder",
            K::Signer => "signer",
            K::Resolver => "http_resolver",
            K::Stream => "stream",
            K::Str => "string",
            K::Bytes => "bytes",
            K::Arr => "string_array",
            K::Any => "any",
        }
    }
}

#[derive(Clone, Copy, PartialEq, Eq, Debug)]
enum R {
    Ptr,
    Int,
    Bool,
    Void,
}

#[derive(Clone, Copy, PartialEq, Eq, Debug)]
enum E {
    None,
    /// returns a new handle of this kind
    New(K),
    /// out-pointer receives a byte array when the call succeeds
    OutBytes,
    /// returns a new string array
    NewArr,
    /// handle parameters listed are consumed; returns a new handle
    Consume(&'static [usize], K),
    /// parameter 1 is consumed (moved into parameter 0); returns int
    ConsumeP1,
    /// parameter 0 is freed
    Free,
    /// parameter 0 (string array) is freed
    FreeArr,
}

/// stream / builder roles used when a live handle is picked or created on demand
const R_ANY: u8 = 0;
const R_SRC: u8 = 1; // unsigned JPEG
const R_SIGNED: u8 = 2; // JPEG with a manifest
const R_DEST: u8 = 3; // empty, writable
const R_CTXB: u8 = 4; // builder made from a context that carries a signer

struct Spec {
    name: &'static str,
    hs: &'static [(K, &'static str, u8)],
    ret: R,
    eff: E,
    /// bit i set: NULL is documented as valid for handle parameter i
    null_ok: u8,
}

const fn sp(name: &'static str, hs: &'static [(K, &'static str, u8)], ret: R, eff: E) -> Spec {
    Spec { name, hs, ret, eff, null_ok: 0 }
}
const fn spn(name: &'static str, hs: &'static [(K, &'static str, u8)], ret: R, eff: E, null_ok: u8) -> Spec {
    Spec { name, hs, ret, eff, null_ok }
}

const B: (K, &str, u8) = (K::Builder, "builder_ptr", R_ANY);
const BC: (K, &str, u8) = (K::Builder, "builder_ptr", R_CTXB);

static SPECS: &[Spec] = &[
    // --- simple constructors first (small index = simple call, proptest shrinks towards them)
    sp("c2pa_version", &[], R::Ptr, E::New(K::Str)),
    sp("c2pa_settings_new", &[], R::Ptr, E::New(K::Settings)),
    sp("c2pa_context_new", &[], R::Ptr, E::New(K::Ctx)),
    sp("c2pa_context_builder_new", &[], R::Ptr, E::New(K::CtxB)),
    sp("c2pa_reader_new", &[], R::Ptr, E::New(K::Reader)),
    sp("c2pa_builder_from_json", &[], R::Ptr, E::New(K::Builder)),
    sp("c2pa_create_stream", &[], R::Ptr, E::New(K::Stream)),
    sp("c2pa_signer_from_info", &[], R::Ptr, E::New(K::Signer)),
    spn("c2pa_free", &[(K::Any, "ptr", R_ANY)], R::Int, E::Free, 1),
    sp("c2pa_error", &[], R::Ptr, E::New(K::Str)),
    sp("c2pa_error_set_last", &[], R::Int, E::None),
    sp("c2pa_load_settings", &[], R::Int, E::None),
    sp("c2pa_settings_update_from_string", &[(K::Settings, "settings", R_ANY)], R::Int, E::None),
    sp("c2pa_settings_set_value", &[(K::Settings, "settings", R_ANY)], R::Int, E::None),
    sp(
        "c2pa_context_builder_set_settings",
        &[(K::CtxB, "builder", R_ANY), (K::Settings, "settings", R_ANY)],
        R::Int,
        E::None,
    ),
    sp(
        "c2pa_context_builder_set_signer",
        &[(K::CtxB, "builder", R_ANY), (K::Signer, "signer_ptr", R_ANY)],
        R::Int,
        E::ConsumeP1,
    ),
    sp("c2pa_context_builder_set_progress_callback", &[(K::CtxB, "builder", R_ANY)], R::Int, E::None),
    sp("c2pa_http_resolver_create", &[], R::Ptr, E::New(K::Resolver)),
    sp(
        "c2pa_context_builder_set_http_resolver",
        &[(K::CtxB, "builder", R_ANY), (K::Resolver, "resolver_ptr", R_ANY)],
        R::Int,
        E::ConsumeP1,
    ),
    sp("c2pa_context_builder_build", &[(K::CtxB, "builder", R_ANY)], R::Ptr, E::Consume(&[0], K::Ctx)),
    sp("c2pa_context_cancel", &[(K::Ctx, "ctx", R_ANY)], R::Int, E::None),
    spn("c2pa_release_string", &[(K::Any, "s", R_ANY)], R::Void, E::Free, 1),
    spn("c2pa_string_free", &[(K::Any, "s", R_ANY)], R::Void, E::Free, 1),
    spn("c2pa_free_string_array", &[(K::Arr, "ptr", R_ANY)], R::Void, E::FreeArr, 1),
    sp("c2pa_reader_from_context", &[(K::Ctx, "context", R_ANY)], R::Ptr, E::New(K::Reader)),
    sp("c2pa_reader_from_stream", &[(K::Stream, "stream", R_SIGNED)], R::Ptr, E::New(K::Reader)),
    sp(
        "c2pa_reader_with_stream",
        &[(K::Reader, "reader", R_ANY), (K::Stream, "stream", R_SIGNED)],
        R::Ptr,
        E::Consume(&[0], K::Reader),
    ),
    sp(
        "c2pa_reader_with_manifest_data_and_stream",
        &[(K::Reader, "reader", R_ANY), (K::Stream, "stream", R_SRC)],
        R::Ptr,
        E::Consume(&[0], K::Reader),
    ),
    sp(
        "c2pa_reader_with_fragment",
        &[(K::Reader, "reader", R_ANY), (K::Stream, "stream", R_SIGNED), (K::Stream, "fragment", R_SIGNED)],
        R::Ptr,
        E::Consume(&[0], K::Reader),
    ),
    sp("c2pa_reader_from_file", &[], R::Ptr, E::New(K::Reader)),
    sp(
        "c2pa_reader_from_manifest_data_and_stream",
        &[(K::Stream, "stream", R_SRC)],
        R::Ptr,
        E::New(K::Reader),
    ),
    spn("c2pa_reader_free", &[(K::Any, "reader_ptr", R_ANY)], R::Void, E::Free, 1),
    sp("c2pa_reader_json", &[(K::Reader, "reader_ptr", R_ANY)], R::Ptr, E::New(K::Str)),
    sp("c2pa_reader_detailed_json", &[(K::Reader, "reader_ptr", R_ANY)], R::Ptr, E::New(K::Str)),
    sp("c2pa_reader_crjson", &[(K::Reader, "reader_ptr", R_ANY)], R::Ptr, E::New(K::Str)),
    sp("c2pa_reader_remote_url", &[(K::Reader, "reader_ptr", R_ANY)], R::Ptr, E::New(K::Str)),
    sp("c2pa_reader_is_embedded", &[(K::Reader, "reader_ptr", R_ANY)], R::Bool, E::None),
    sp(
        "c2pa_reader_resource_to_stream",
        &[(K::Reader, "reader_ptr", R_ANY), (K::Stream, "stream", R_DEST)],
        R::Int,
        E::None,
    ),
    sp("c2pa_reader_supported_mime_types", &[], R::Ptr, E::NewArr),
    sp("c2pa_builder_from_context", &[(K::Ctx, "context", R_ANY)], R::Ptr, E::New(K::Builder)),
    sp("c2pa_builder_from_archive", &[(K::Stream, "stream", R_ANY)], R::Ptr, E::New(K::Builder)),
    sp("c2pa_builder_supported_mime_types", &[], R::Ptr, E::NewArr),
    spn("c2pa_builder_free", &[(K::Any, "builder_ptr", R_ANY)], R::Void, E::Free, 1),
    sp("c2pa_builder_with_definition", &[(K::Builder, "builder", R_ANY)], R::Ptr, E::Consume(&[0], K::Builder)),
    sp(
        "c2pa_builder_with_archive",
        &[(K::Builder, "builder", R_ANY), (K::Stream, "stream", R_ANY)],
        R::Ptr,
        E::Consume(&[0], K::Builder),
    ),
    sp("c2pa_builder_set_intent", &[B], R::Int, E::None),
    sp("c2pa_builder_set_no_embed", &[B], R::Void, E::None),
    sp("c2pa_builder_set_remote_url", &[B], R::Int, E::None),
    sp("c2pa_builder_set_base_path", &[B], R::Int, E::None),
    sp("c2pa_builder_add_resource", &[B, (K::Stream, "stream", R_SRC)], R::Int, E::None),
    sp("c2pa_builder_add_ingredient_from_stream", &[B, (K::Stream, "source", R_SIGNED)], R::Int, E::None),
    sp("c2pa_builder_add_action", &[B], R::Int, E::None),
    sp("c2pa_builder_to_archive", &[B, (K::Stream, "stream", R_DEST)], R::Int, E::None),
    sp("c2pa_builder_add_ingredient_from_archive", &[B, (K::Stream, "stream", R_ANY)], R::Int, E::None),
    sp("c2pa_builder_write_ingredient_archive", &[B, (K::Stream, "stream", R_DEST)], R::Int, E::None),
    sp(
        "c2pa_builder_sign",
        &[B, (K::Stream, "source", R_SRC), (K::Stream, "dest", R_DEST), (K::Signer, "signer_ptr", R_ANY)],
        R::Int,
        E::OutBytes,
    ),
    sp(
        "c2pa_builder_sign_context",
        &[BC, (K::Stream, "source", R_SRC), (K::Stream, "dest", R_DEST)],
        R::Int,
        E::OutBytes,
    ),
    spn("c2pa_manifest_bytes_free", &[(K::Any, "manifest_bytes_ptr", R_ANY)], R::Void, E::Free, 1),
    sp("c2pa_builder_data_hashed_placeholder", &[B], R::Int, E::OutBytes),
    spn(
        "c2pa_builder_sign_data_hashed_embeddable",
        &[B, (K::Signer, "signer_ptr", R_ANY), (K::Stream, "asset", R_SRC)],
        R::Int,
        E::OutBytes,
        0b100,
    ),
    sp("c2pa_builder_needs_placeholder", &[B], R::Int, E::None),
    sp("c2pa_builder_hash_type", &[B], R::Int, E::None),
    sp("c2pa_builder_placeholder", &[BC], R::Int, E::OutBytes),
    sp("c2pa_builder_sign_embeddable", &[BC], R::Int, E::OutBytes),
    sp("c2pa_builder_set_data_hash_exclusions", &[BC], R::Int, E::None),
    sp("c2pa_builder_set_fixed_size_merkle", &[B], R::Int, E::None),
    sp("c2pa_builder_hash_mdat_bytes", &[B], R::Int, E::None),
    sp("c2pa_builder_update_hash_from_stream", &[BC, (K::Stream, "stream", R_SRC)], R::Int, E::None),
    sp("c2pa_format_embeddable", &[], R::Int, E::OutBytes),
    sp("c2pa_signer_create", &[], R::Ptr, E::New(K::Signer)),
    sp(
        "c2pa_identity_signer_create",
        &[(K::Signer, "c2pa_signer_ptr", R_ANY), (K::Signer, "identity_signer_ptr", R_ANY)],
        R::Ptr,
        E::Consume(&[0, 1], K::Signer),
    ),
    sp("c2pa_signer_from_settings", &[], R::Ptr, E::New(K::Signer)),
    sp("c2pa_signer_reserve_size", &[(K::Signer, "signer_ptr", R_ANY)], R::Int, E::None),
    spn("c2pa_signer_free", &[(K::Any, "signer_ptr", R_ANY)], R::Void, E::Free, 1),
    sp("c2pa_ed25519_sign", &[], R::Ptr, E::New(K::Bytes)),
    spn("c2pa_signature_free", &[(K::Any, "signature_ptr", R_ANY)], R::Void, E::Free, 1),
    spn("c2pa_release_stream", &[(K::Any, "stream", R_ANY)], R::Void, E::Free, 1),
];

fn spec_index(name: &str) -> usize {
    SPECS.iter().position(|s| s.name == name).unwrap_or_else(|| panic!("no spec {name}"))
}

#[derive(Clone, Copy, PartialEq, Eq, Debug)]
enum Cl {
    Live,
    Wrong,
    Freed,
    Null,
    Foreign,
}

impl Cl {
    fn name(self) -> &'static str {
        match self {
            Cl::Live => "live",
            Cl::Wrong => "wrong_type",
            Cl::Freed => "freed",
            Cl::Null => "null",
            Cl::Foreign => "foreign",
        }
    }
    fn from_u8(c: u8) -> Cl {
        match c % 5 {
            0 => Cl::Live,
            1 => Cl::Wrong,
            2 => Cl::Freed,
            3 => Cl::Null,
            _ => Cl::Foreign,
        }
    }
}

const FIX: &str = "/repo/sdk/tests/fixtures";

// ------------------------------------------------------------------------------------------------
// child: plumbing (trace output, harness streams, callbacks, argument pools)
// ------------------------------------------------------------------------------------------------

static IN_CALL: AtomicBool = AtomicBool::new(false);

/// One JSON line on fd 1, written with a single write(2) so that nothing is lost when the process dies.
fn emit(v: Value) {
    let mut s = v.to_string();
    s.push('\n');
    let b = s.as_bytes();
    let mut off = 0;
    while off < b.len() {
        let n = unsafe { libc::write(1, b[off..].as_ptr() as *const c_void, b.len() - off) };
        if n <= 0 {
            break;
        }
        off += n as usize;
    }
}

/// Harness-owned in-memory stream behind a `C2paStream` (the `context` of the callbacks).
struct Mem {
    data: Vec<u8>,
    pos: u64,
}

const MEM_CAP: u64 = 64 << 20;

fn set_cb_error(msg: &str) {
    let c = CString::new(msg).unwrap();
    unsafe { ffi::c2pa_error_set_last(c.as_ptr()) };
}

unsafe extern "C" fn s_read(ctx: *mut ffi::StreamContext, data: *mut u8, len: isize) -> isize {
    let m = &mut *(ctx as *mut Mem);
    if len < 0 {
        set_cb_error("Io: negative read length");
        return -1;
    }
    let start = (m.pos.min(m.data.len() as u64)) as usize;
    let n = (m.data.len() - start).min(len as usize);
    std::ptr::copy_nonoverlapping(m.data.as_ptr().add(start), data, n);
    m.pos += n as u64;
    n as isize
}

unsafe extern "C" fn s_seek(ctx: *mut ffi::StreamContext, offset: isize, mode: ffi::C2paSeekMode) -> isize {
    let m = &mut *(ctx as *mut Mem);
    let base: i128 = match mode {
        ffi::C2paSeekMode::Start => 0,
        ffi::C2paSeekMode::Current => m.pos as i128,
        ffi::C2paSeekMode::End => m.data.len() as i128,
    };
    let np = base + offset as i128;
    if np < 0 || np > MEM_CAP as i128 {
        set_cb_error("Io: seek out of bounds");
        return -1;
    }
    m.pos = np as u64;
    np as isize
}

unsafe extern "C" fn s_write(ctx: *mut ffi::StreamContext, data: *const u8, len: isize) -> isize {
    let m = &mut *(ctx as *mut Mem);
    if len < 0 || m.pos + len as u64 > MEM_CAP {
        set_cb_error("Io: write too large");
        return -1;
    }
    let start = m.pos as usize;
    let end = start + len as usize;
    if m.data.len() < end {
        m.data.resize(end, 0);
    }
    std::ptr::copy_nonoverlapping(data, m.data.as_mut_ptr().add(start), len as usize);
    m.pos = end as u64;
    len
}

unsafe extern "C" fn s_flush(_ctx: *mut ffi::StreamContext) -> isize {
    0
}

/// Signer callback: `context` points to the PEM private key (NUL-terminated); signs with the library's own helper.
unsafe extern "C" fn sign_cb(context: *const (), data: *const u8, len: usize, signed: *mut u8, signed_len: usize) -> isize {
    let sig = ffi::c2pa_ed25519_sign(data, len, context as *const c_char);
    if sig.is_null() || signed_len < 64 {
        return -1;
    }
    std::ptr::copy_nonoverlapping(sig, signed, 64);
    ffi::c2pa_signature_free(sig);
    64
}

unsafe extern "C" fn progress_cb(_ctx: *const c_void, _phase: ffi::C2paProgressPhase, _step: u32, _total: u32) -> c_int {
    1
}

unsafe extern "C" fn http_cb(_ctx: *mut c_void, _req: *const ffi::C2paHttpRequest, _resp: *mut ffi::C2paHttpResponse) -> c_int {
    set_cb_error("Remote: harness resolver is offline");
    -1
}

/// Optional C string argument (valid NUL-terminated or NULL).
struct CArg(Option<CString>);
impl CArg {
    fn p(&self) -> *const c_char {
        self.0.as_ref().map_or(std::ptr::null(), |c| c.as_ptr())
    }
}

struct Pools {
    m: BTreeMap<&'static str, Vec<Option<String>>>,
    src_jpeg: Vec<u8>,
    signed_jpeg: Vec<u8>,
    key_pem: CString,
}

fn rd(p: &str) -> Vec<u8> {
    std::fs::read(format!("{FIX}/{p}")).unwrap_or_else(|e| panic!("fixture {p}: {e}"))
}
fn rds(p: &str) -> String {
    String::from_utf8(rd(p)).expect("utf8 fixture")
}

impl Pools {
    fn new() -> Pools {
        let mut m: BTreeMap<&'static str, Vec<Option<String>>> = BTreeMap::new();
        let so = |v: &[&str]| -> Vec<Option<String>> { v.iter().map(|s| Some(s.to_string())).collect() };
        let with_null = |mut v: Vec<Option<String>>| {
            v.push(None);
            v
        };
        let test_settings = rds("test_settings.json");
        m.insert("fmt", with_null(so(&["image/jpeg", "jpg", "application/c2pa", "video/mp4", "bogus/type"])));
        m.insert("setfmt", with_null(so(&["json", "toml", "yaml", ""])));
        m.insert(
            "settings",
            with_null(vec![
                Some(r#"{"verify":{"verify_after_sign":false}}"#.to_string()),
                Some(test_settings.clone()),
                Some("[verify]\nverify_after_sign = false\n".to_string()),
                Some("not a settings document".to_string()),
            ]),
        );
        m.insert("test_settings", vec![Some(test_settings)]);
        m.insert("setpath", with_null(so(&["verify.verify_after_sign", "builder.thumbnail.enabled", "nope.nope", ""])));
        m.insert("setvalue", with_null(so(&["false", "\"x\"", "42", "[\"a\"]", "{", "null", "1.5"])));
        m.insert(
            "def",
            with_null(so(&[
                "{}",
                r#"{"title":"t","assertions":[{"label":"org.example.a","data":{"k":1}}]}"#,
                r#"{"title":"#,
            ])),
        );
        m.insert("errstr", with_null(so(&["Other: set by harness", "Io: x", "nocolon"])));
        m.insert("uri", with_null(so(&["@thumb", "self#jumbf=/c2pa/nope", ""])));
        m.insert("url", with_null(so(&["http://127.0.0.1:9/m.c2pa", ""])));
        m.insert("basepath", with_null(so(&["/verif/work/C31/res", "/nonexistent/dir"])));
        m.insert(
            "ingredient",
            with_null(so(&[r#"{"title":"ing"}"#, r#"{"title":"p","relationship":"parentOf"}"#, "x"])),
        );
        m.insert(
            "action",
            with_null(so(&[r#"{"action":"c2pa.edited"}"#, r#"{"action":"com.x.y","parameters":{"a":1}}"#, "nope"])),
        );
        m.insert("ingid", with_null(so(&["ing1", ""])));
        m.insert(
            "datahash",
            with_null(so(&[
                r#"{"exclusions":[{"start":20,"length":100}],"name":"jumbf manifest","alg":"sha256","hash":[],"pad":[]}"#,
                "{}",
            ])),
        );
        m.insert("file", with_null(vec![Some(format!("{FIX}/C.jpg")), Some("/nonexistent/x.jpg".to_string())]));
        m.insert("certs", with_null(vec![Some(rds("certs/ed25519.pub")), Some("garbage".to_string())]));
        m.insert("key", with_null(vec![Some(rds("certs/ed25519.pem")), Some("garbage".to_string())]));
        m.insert("alg", with_null(so(&["Ed25519", "Es256", "BadAlg"])));
        Pools {
            m,
            src_jpeg: rd("IMG_0003.jpg"),
            signed_jpeg: rd("C.jpg"),
            key_pem: CString::new(rd("certs/ed25519.pem")).unwrap(),
        }
    }
}

// ------------------------------------------------------------------------------------------------
// child: model of the registry
// ------------------------------------------------------------------------------------------------

#[derive(Clone, Debug)]
struct Handle {
    addr: usize,
    kind: K,
    seq: u64,
    role: u8,
    /// index into Child::mems for streams
    mem: Option<usize>,
    /// element count for string arrays, byte length for byte arrays
    len: usize,
}

#[derive(Default)]
struct Model {
    /// what the registry (plus the set of outstanding string arrays) currently holds, as learned from return values
    live: BTreeMap<usize, Handle>,
    /// handles passed to a consuming function that then failed: consumed or not is not documented
    unknown: BTreeSet<usize>,
    /// every address that was live once and was then released (most recent last); (addr, was_array, count)
    freed: Vec<(usize, bool, usize)>,
    seq: u64,
}

impl Model {
    fn add(&mut self, addr: usize, kind: K, role: u8, mem: Option<usize>, len: usize) -> bool {
        self.seq += 1;
        self.unknown.remove(&addr);
        let reissued = self.freed.iter().any(|f| f.0 == addr);
        self.live.insert(addr, Handle { addr, kind, seq: self.seq, role, mem, len });
        reissued
    }
    fn release(&mut self, addr: usize) {
        if let Some(h) = self.live.remove(&addr) {
            self.freed.push((addr, h.kind == K::Arr, h.len));
        }
    }
    fn to_unknown(&mut self, addr: usize) {
        if self.live.remove(&addr).is_some() {
            self.unknown.insert(addr);
        }
    }
    /// live handles in creation order
    fn ordered(&self) -> Vec<Handle> {
        let mut v: Vec<Handle> = self.live.values().cloned().collect();
        v.sort_by_key(|h| h.seq);
        v
    }
    fn is_free_now(&self, addr: usize) -> bool {
        !self.live.contains_key(&addr) && !self.unknown.contains(&addr)
    }
}

// ------------------------------------------------------------------------------------------------
// child: executing one call
// ------------------------------------------------------------------------------------------------

#[derive(Clone, Copy, Debug)]
enum Ret {
    Ptr(usize),
    Int(i64),
    Bool(bool),
    Void,
    Skipped,
}

struct Out {
    ret: Ret,
    /// out-pointer value (byte arrays)
    out: usize,
    /// out count (string arrays)
    count: usize,
}

#[derive(Deserialize)]
struct ChildInput {
    case: Case,
    skip: Vec<String>,
    selftest: u8,
    #[serde(default)]
    timeout_s: u64,
}

struct Child {
    m: Model,
    /// element string -> owning array (registry entries the model must not mistake for free addresses)
    elems: BTreeMap<usize, usize>,
    pools: Pools,
    mems: Vec<*mut Mem>,
    foreign: Vec<u8>,
    skip: BTreeSet<String>,
    probe: bool,
    selftest: u8,
    n: u64,
    thumb_uri: Option<String>,
    last_manifest: Vec<u8>,
    garbage: Vec<u8>,
    counts: BTreeMap<String, u64>,
    constructed: bool,
    nontrivial: bool,
    excluded: u64,
    stopped: bool,
    abandon: bool,
    trouble: Option<String>,
    /// element count passed to c2pa_free_string_array for the current call
    arg_count: usize,
    new_mem: Option<(usize, u8)>,
    phase: &'static str,
}

impl Child {
    fn new(inp: &ChildInput, pools: Pools) -> Child {
        Child {
            m: Model::default(),
            elems: BTreeMap::new(),
            pools,
            mems: vec![],
            foreign: vec![0xA5u8; 8192],
            skip: inp.skip.iter().cloned().collect(),
            probe: inp.case.probe,
            selftest: inp.selftest,
            n: 0,
            thumb_uri: None,
            last_manifest: vec![],
            garbage: (0..64u8).map(|i| i.wrapping_mul(37) ^ 0x5c).collect(),
            counts: BTreeMap::new(),
            constructed: false,
            nontrivial: false,
            excluded: 0,
            stopped: false,
            abandon: false,
            trouble: None,
            arg_count: 0,
            new_mem: None,
            phase: "seq",
        }
    }

    fn count(&mut self, k: &str) {
        *self.counts.entry(k.to_string()).or_insert(0) += 1;
    }

    fn violation(&mut self, sig: String, what: String) -> Result<Ret, ()> {
        emit(json!({"e": "viol", "sig": sig, "what": what}));
        self.stopped = true;
        Err(())
    }

    /// A canonical (all-valid) constructor call failed with a regular error, e.g. because earlier generated calls
    /// changed the thread-local settings: the generated call that needed the handle is abandoned, the sequence goes on.
    fn harness_trouble(&mut self, what: String) -> Result<usize, ()> {
        emit(json!({"e": "abandon", "what": what}));
        self.count("generated_call_abandoned_canonical_constructor_failed");
        self.abandon = true;
        Err(())
    }

    fn carg(&self, pool: &str, v: u8) -> CArg {
        let p = self.pools.m.get(pool).unwrap_or_else(|| panic!("no pool {pool}"));
        let s = p[v as usize % p.len()].clone();
        CArg(s.map(|s| {
            let s = if s == "@thumb" {
                self.thumb_uri.clone().unwrap_or_else(|| "self#jumbf=c2pa.assertions/c2pa.thumbnail.claim.jpeg".to_string())
            } else {
                s
            };
            CString::new(s).expect("pool string without NUL")
        }))
    }

    fn foreign_ptr(&self, i: usize) -> usize {
        let base = (self.foreign.as_ptr() as usize + 15) & !15;
        base + 16 * (1 + i % 200)
    }

    fn is_free_now(&self, addr: usize) -> bool {
        self.m.is_free_now(addr) && !self.elems.contains_key(&addr)
    }

    // ---- on-demand construction through the C API (canonical valid calls, judged like any other) -------------

    fn simple(&mut self, name: &str, v: [u8; 3]) -> Result<usize, ()> {
        self.with_args(name, &[], v)
    }

    fn with_args(&mut self, name: &str, args: &[usize], v: [u8; 3]) -> Result<usize, ()> {
        let mut a = [0usize; 4];
        a[..args.len()].copy_from_slice(args);
        let fi = spec_index(name);
        match self.perform(fi, a, [Cl::Live; 4], None, v, true)? {
            Ret::Ptr(p) if p != 0 => Ok(p),
            Ret::Int(i) if i >= 0 => Ok(0),
            Ret::Void | Ret::Bool(_) => Ok(0),
            r => self.harness_trouble(format!("canonical call {name} failed: {r:?}")),
        }
    }

    fn ensure(&mut self, k: K, role: u8) -> Result<usize, ()> {
        match k {
            K::Settings => self.simple("c2pa_settings_new", [0; 3]),
            K::CtxB => self.simple("c2pa_context_builder_new", [0; 3]),
            K::Ctx => {
                // a context that carries the fixture signer: settings -> context builder -> build
                let s = self.simple("c2pa_settings_new", [0; 3])?;
                self.with_args("c2pa_settings_update_from_string", &[s], [1, 0, 0])?;
                let cb = self.simple("c2pa_context_builder_new", [0; 3])?;
                self.with_args("c2pa_context_builder_set_settings", &[cb, s], [0; 3])?;
                let ctx = self.with_args("c2pa_context_builder_build", &[cb], [0; 3])?;
                self.with_args("c2pa_free", &[s], [0; 3])?;
                Ok(ctx)
            }
            K::Reader => {
                // always a fresh stream over the signed fixture (a live one may have been overwritten since)
                let s = self.ensure(K::Stream, R_SIGNED)?;
                self.with_args("c2pa_reader_from_stream", &[s], [0; 3])
            }
            K::Builder => {
                if role == R_CTXB {
                    let ctx = self.ensure(K::Ctx, R_ANY)?;
                    let b = self.with_args("c2pa_builder_from_context", &[ctx], [0; 3])?;
                    if let Some(h) = self.m.live.get_mut(&b) {
                        h.role = R_CTXB;
                    }
                    Ok(b)
                } else {
                    let b = self.simple("c2pa_builder_from_json", [0; 3])?;
                    self.with_args("c2pa_builder_set_intent", &[b], [0; 3])?;
                    Ok(b)
                }
            }
            K::Signer => self.simple("c2pa_signer_from_info", [0; 3]),
            K::Resolver => self.simple("c2pa_http_resolver_create", [0; 3]),
            K::Stream => {
                let v0 = match role {
                    R_SIGNED => 1,
                    R_DEST => 2,
                    _ => 0,
                };
                self.simple("c2pa_create_stream", [v0, 0, 0])
            }
            K::Str | K::Any => self.simple("c2pa_version", [0; 3]),
            K::Bytes => self.simple("c2pa_ed25519_sign", [0; 3]),
            K::Arr => self.simple("c2pa_reader_supported_mime_types", [0; 3]),
        }
    }

    // ---- argument resolution ------------------------------------------------------------------------------

    fn pick_live(&mut self, k: K, role: u8, i: usize, used: &[usize]) -> Result<usize, ()> {
        let all = self.m.ordered();
        let cands: Vec<&Handle> = all
            .iter()
            .filter(|h| {
                !used.contains(&h.addr)
                    && match k {
                        K::Any => h.kind != K::Arr,
                        _ => h.kind == k,
                    }
            })
            .collect();
        let by_role = role != R_ANY && i < 192;
        let pool: Vec<&Handle> = if by_role { cands.iter().copied().filter(|h| h.role == role).collect() } else { cands };
        if pool.is_empty() {
            return self.ensure(k, role);
        }
        Ok(pool[i % pool.len()].addr)
    }

    fn pick_wrong(&mut self, k: K, i: usize, used: &[usize]) -> Result<usize, ()> {
        let all = self.m.ordered();
        let cands: Vec<usize> = all
            .iter()
            .filter(|h| {
                !used.contains(&h.addr)
                    && match k {
                        K::Any => h.kind == K::Arr,
                        K::Arr => h.kind != K::Arr,
                        _ => h.kind != k,
                    }
            })
            .map(|h| h.addr)
            .collect();
        if cands.is_empty() {
            let alt = match k {
                K::Any => K::Arr,
                K::Arr => K::Str,
                K::Settings => K::CtxB,
                _ => K::Settings,
            };
            return self.ensure(alt, R_ANY);
        }
        Ok(cands[i % cands.len()])
    }

    /// An address that was a live handle once and is not in the registry now (most recently freed first).
    fn pick_freed(&mut self, k: K, i: usize) -> Result<(usize, usize), ()> {
        let want_arr = k == K::Arr;
        let mut c: Vec<(usize, usize)> = vec![];
        for f in self.m.freed.iter().rev() {
            if f.1 == want_arr && self.is_free_now(f.0) && !c.iter().any(|x| x.0 == f.0) {
                c.push((f.0, f.2));
            }
        }
        if c.is_empty() {
            if want_arr {
                let a = self.ensure(K::Arr, R_ANY)?;
                let n = self.m.live.get(&a).map(|h| h.len).unwrap_or(0);
                self.with_args("c2pa_free_string_array", &[a], [0; 3])?;
                return Ok((a, n));
            }
            let a = self.ensure(K::Str, R_ANY)?;
            self.with_args("c2pa_free", &[a], [0; 3])?;
            return Ok((a, 0));
        }
        Ok(c[i % c.len()])
    }

    /// Resolve the selectors of one generated call and perform it. At most one handle argument is invalid
    /// (the first non-live selector wins) so that a failure is attributed to exactly one (parameter, class).
    fn call(&mut self, c: &Call) -> Result<Ret, ()> {
        match self.call_inner(c) {
            Err(()) if self.abandon && !self.stopped => {
                self.abandon = false;
                Ok(Ret::Skipped)
            }
            r => r,
        }
    }

    fn call_inner(&mut self, c: &Call) -> Result<Ret, ()> {
        let fi = c.f as usize % SPECS.len();
        let spec = &SPECS[fi];
        let mut a = [0usize; 4];
        let mut cls = [Cl::Live; 4];
        let mut bad: Option<usize> = None;
        let mut used: Vec<usize> = vec![];
        self.arg_count = 1;
        // classes first: the first selector that is a misuse wins, later ones are demoted to live
        for (pi, _) in spec.hs.iter().enumerate() {
            let want = if bad.is_some() { Cl::Live } else { Cl::from_u8(c.h[pi].c) };
            cls[pi] = want;
            if want != Cl::Live && !(want == Cl::Null && spec.null_ok & (1 << pi) != 0) {
                bad = Some(pi);
            }
        }
        // pass 1: live arguments (may construct handles through the API, which allocates)
        for (pi, &(k, _name, role)) in spec.hs.iter().enumerate() {
            if cls[pi] == Cl::Live {
                a[pi] = self.pick_live(k, role, c.h[pi].i as usize, &used)?;
                used.push(a[pi]);
            }
        }
        // pass 2: the invalid argument last, so that "freed" / "wrong type" is judged against the registry content
        // at the time of the call (an on-demand construction in pass 1 may have been handed a freed address)
        for (pi, &(k, _name, _role)) in spec.hs.iter().enumerate() {
            let i = c.h[pi].i as usize;
            a[pi] = match cls[pi] {
                Cl::Live => continue,
                Cl::Wrong => self.pick_wrong(k, i, &used)?,
                Cl::Freed => {
                    let (addr, n) = self.pick_freed(k, i)?;
                    if k == K::Arr {
                        self.arg_count = n.max(1);
                    }
                    addr
                }
                Cl::Null => 0,
                Cl::Foreign => self.foreign_ptr(i),
            };
            used.push(a[pi]);
        }
        self.perform(fi, a, cls, bad, c.v, false)
    }

    /// `c2pa_error()` + release of the returned string. `None`: the library returned NULL (it does so when the stored
    /// message contains a NUL byte); the Rust-side accessor is then used for the diagnostic text only.
    fn read_error(&mut self) -> Result<Option<String>, ()> {
        let p = unsafe { ffi::c2pa_error() };
        if p.is_null() {
            return Ok(None);
        }
        let s = unsafe { CStr::from_ptr(p) }.to_string_lossy().into_owned();
        let r = unsafe { ffi::c2pa_free(p as *const c_void) };
        if r != 0 {
            self.violation(
                "C31:error-string-free-failed".into(),
                format!("c2pa_free of the string returned by c2pa_error() gave {r}"),
            )?;
        }
        Ok(Some(s))
    }

    fn perform(&mut self, fi: usize, a: [usize; 4], cls: [Cl; 4], bad: Option<usize>, v: [u8; 3], implicit: bool) -> Result<Ret, ()> {
        let spec = &SPECS[fi];
        let np = spec.hs.len();
        let bad_key = bad.map(|pi| format!("{}:{}:{}", spec.name, spec.hs[pi].1, cls[pi].name()));
        if let Some(key) = &bad_key {
            let coarse = key.rsplit_once(':').map(|x| x.0.to_string()).unwrap_or_default();
            if !self.probe && (self.skip.contains(key) || self.skip.contains(&coarse)) {
                self.excluded += 1;
                emit(json!({"e": "skip", "key": key}));
                return Ok(Ret::Skipped);
            }
        }
        // the caller's own streams: rewind before handing them to the library
        for pi in 0..np {
            if cls[pi] == Cl::Live {
                if let Some(mi) = self.m.live.get(&a[pi]).and_then(|h| h.mem) {
                    unsafe { (*self.mems[mi]).pos = 0 };
                }
            }
        }
        if spec.eff == E::FreeArr && cls[0] == Cl::Live {
            self.arg_count = self.m.live.get(&a[0]).map(|h| h.len).unwrap_or(0);
        }
        self.n += 1;
        let n = self.n;
        let tag = format!("vh-sentinel-{n}");
        let sentinel = CString::new(format!("Other: {tag}")).unwrap();
        let r = unsafe { ffi::c2pa_error_set_last(sentinel.as_ptr()) };
        if r != 0 {
            self.violation("C31:error-set-last-failed".into(), format!("c2pa_error_set_last returned {r}"))?;
        }
        let cls_names: Vec<&str> = (0..np).map(|pi| cls[pi].name()).collect();
        emit(json!({"e": "pre", "n": n, "f": spec.name, "cls": cls_names, "bad": bad_key, "implicit": implicit, "phase": self.phase}));
        IN_CALL.store(true, Ordering::SeqCst);
        let out = unsafe { self.exec(spec.name, &a, &v) };
        IN_CALL.store(false, Ordering::SeqCst);
        let shape_ok = matches!(
            (spec.ret, out.ret),
            (R::Ptr, Ret::Ptr(_)) | (R::Int, Ret::Int(_)) | (R::Bool, Ret::Bool(_)) | (R::Void, Ret::Void)
        );
        assert!(shape_ok, "harness table: return shape of {} does not match", spec.name);
        let msg = match self.read_error()? {
            Some(m) => m,
            None => {
                let raw = ffi::CimplError::last_message().unwrap_or_default();
                self.count("error_message_unretrievable");
                emit(json!({"e": "note", "what": format!("c2pa_error() returned NULL after {}; stored message: {:?}", spec.name, raw)}));
                if let Some(pi) = bad {
                    self.violation(
                        format!("C31:error-message-null:{}", bad_key.clone().unwrap_or_default()),
                        format!("{} with a {} pointer: c2pa_error() returned NULL (stored message {:?})", spec.name, cls[pi].name(), raw),
                    )?;
                }
                format!("<unretrievable> {}", raw.replace('\0', "\\0"))
            }
        };
        let changed = !msg.contains(&tag);
        let indicated = match out.ret {
            Ret::Ptr(p) => p == 0,
            Ret::Int(i) => i < 0,
            Ret::Bool(b) => !b,
            Ret::Void | Ret::Skipped => true,
        };
        let short: String = msg.chars().take(90).collect();
        emit(json!({"e": "post", "n": n, "ret": format!("{:?}", out.ret), "changed": changed, "msg": if changed { short.clone() } else { String::new() }}));
        if !implicit {
            self.count(&format!("call:{}", spec.name));
        } else {
            self.count("implicit_calls");
        }

        // ---- judge ------------------------------------------------------------------------------------------
        if let Some(pi) = bad {
            let key = bad_key.clone().unwrap();
            if implicit {
                self.count("final_second_free_checked");
            } else {
                self.count(&format!("misuse:{}", cls[pi].name()));
                self.count(&format!("misuse_param_kind:{}", spec.hs[pi].0.name()));
            }
            if self.constructed && !implicit {
                self.nontrivial = true;
            }
            if spec.eff == E::FreeArr {
                // void (ptr,count) free function outside the registry: it cannot report anything. A crash is
                // observed by the parent; if it returns, the heap may already be damaged, so the sequence ends here.
                self.count("string_array_misuse_survived");
                emit(json!({"e": "terminal", "why": "c2pa_free_string_array with an invalid pointer returned"}));
                self.stopped = true;
                return Err(());
            }
            if !indicated {
                self.violation(
                    format!("C31:no-error-indicator:{key}"),
                    format!(
                        "{}({}) with a {} pointer for `{}` returned {:?} (no error indicator); last error: {short:?}",
                        spec.name,
                        cls_names.join(","),
                        cls[pi].name(),
                        spec.hs[pi].1,
                        out.ret
                    ),
                )?;
            }
            if !changed {
                self.violation(
                    format!("C31:no-error-message:{key}"),
                    format!(
                        "{}({}) with a {} pointer for `{}` returned {:?} but c2pa_error() still holds the message set before the call",
                        spec.name,
                        cls_names.join(","),
                        cls[pi].name(),
                        spec.hs[pi].1,
                        out.ret
                    ),
                )?;
            }
        } else {
            let ok = !indicated || matches!(out.ret, Ret::Void | Ret::Bool(_));
            self.count(if ok && !changed { "valid_ok" } else { "valid_err_or_msg" });
            if changed && (msg.contains("UntrackedPointer") || msg.contains("WrongPointerType")) {
                self.violation(
                    format!("C31:live-handle-rejected:{}", spec.name),
                    format!("{} with only live, right-typed handles ({:x?}) failed with {short:?}", spec.name, &a[..np]),
                )?;
            }
        }

        // ---- effects on the model ---------------------------------------------------------------------------
        let success = match out.ret {
            Ret::Ptr(p) => p != 0,
            Ret::Int(i) => i >= 0,
            Ret::Bool(_) => true,
            Ret::Void | Ret::Skipped => !changed,
        };
        match spec.eff {
            E::None => {}
            E::New(k) => {
                if let Ret::Ptr(p) = out.ret {
                    if p != 0 {
                        let (mem, role) = match self.new_mem.take() {
                            Some((mi, role)) if k == K::Stream => (Some(mi), role),
                            _ => (None, R_ANY),
                        };
                        let role = if spec.name == "c2pa_builder_from_context" { R_CTXB } else { role };
                        if self.m.add(p, k, role, mem, 0) {
                            self.count("address_reissued");
                        }
                        self.constructed = true;
                        if spec.name == "c2pa_reader_json" {
                            self.learn_thumb(p);
                        }
                    }
                }
                self.new_mem = None;
            }
            E::OutBytes => {
                if let Ret::Int(len) = out.ret {
                    if len >= 0 && out.out != 0 {
                        if self.m.add(out.out, K::Bytes, R_ANY, None, len as usize) {
                            self.count("address_reissued");
                        }
                        self.constructed = true;
                        if spec.name.contains("sign") && (len as usize) < (8 << 20) {
                            self.last_manifest = unsafe { std::slice::from_raw_parts(out.out as *const u8, len as usize) }.to_vec();
                        }
                        if spec.name == "c2pa_builder_sign" || spec.name == "c2pa_builder_sign_context" {
                            self.count("sign_ok");
                            if let Some(h) = self.m.live.get_mut(&a[2]) {
                                h.role = R_SIGNED;
                            }
                        }
                    }
                }
            }
            E::NewArr => {
                if let Ret::Ptr(p) = out.ret {
                    if p != 0 {
                        self.m.add(p, K::Arr, R_ANY, None, out.count);
                        for j in 0..out.count {
                            let e = unsafe { *(p as *const usize).add(j) };
                            self.elems.insert(e, p);
                        }
                        self.constructed = true;
                    }
                }
            }
            E::Consume(params, k) => {
                let forget = self.selftest == 1 && spec.name == "c2pa_context_builder_build";
                let mut role = R_ANY;
                for &pi in params {
                    if cls[pi] == Cl::Live {
                        role = self.m.live.get(&a[pi]).map(|h| h.role).unwrap_or(R_ANY);
                        if success && bad.is_none() {
                            if !forget {
                                self.m.release(a[pi]);
                            }
                        } else {
                            self.count("consumed_state_unknown");
                            self.m.to_unknown(a[pi]);
                        }
                    }
                }
                if let Ret::Ptr(p) = out.ret {
                    if p != 0 {
                        if self.m.add(p, k, role, None, 0) {
                            self.count("address_reissued");
                        }
                        self.constructed = true;
                    }
                }
            }
            E::ConsumeP1 => {
                if cls[1] == Cl::Live {
                    if success && bad.is_none() {
                        self.m.release(a[1]);
                    } else {
                        self.count("consumed_state_unknown");
                        self.m.to_unknown(a[1]);
                    }
                }
            }
            E::Free => {
                if cls[0] == Cl::Live {
                    let kind = self.m.live.get(&a[0]).map(|h| h.kind);
                    if !success {
                        self.violation(
                            format!("C31:free-live-failed:{}", spec.name),
                            format!("{} on a live {:?} handle {:#x} reported {:?} / {short:?}", spec.name, kind, a[0], out.ret),
                        )?;
                    }
                    self.m.release(a[0]);
                    self.count("freed_live");
                }
            }
            E::FreeArr => {
                if cls[0] == Cl::Live {
                    let es: Vec<usize> = self.elems.iter().filter(|(_, &arr)| arr == a[0]).map(|(&e, _)| e).collect();
                    for e in es {
                        self.elems.remove(&e);
                        self.m.freed.push((e, false, 0));
                    }
                    self.m.release(a[0]);
                    self.count("freed_live");
                }
            }
        }
        Ok(out.ret)
    }

    fn learn_thumb(&mut self, json_ptr: usize) {
        let s = unsafe { CStr::from_ptr(json_ptr as *const c_char) }.to_string_lossy().into_owned();
        if let Ok(v) = serde_json::from_str::<Value>(&s) {
            if let Some(ms) = v["manifests"].as_object() {
                for (_, m) in ms {
                    if let Some(id) = m["thumbnail"]["identifier"].as_str() {
                        self.thumb_uri = Some(id.to_string());
                        return;
                    }
                }
            }
        }
    }

    /// Free everything the model holds: every live handle exactly once (and a second free must fail).
    fn final_phase(&mut self) -> Result<(), ()> {
        self.phase = "final";
        let free_i = spec_index("c2pa_free");
        let arr_i = spec_index("c2pa_free_string_array");
        for h in self.m.ordered() {
            if !self.m.live.contains_key(&h.addr) {
                continue;
            }
            let mut a = [0usize; 4];
            a[0] = h.addr;
            if h.kind == K::Arr {
                self.perform(arr_i, a, [Cl::Live; 4], None, [0; 3], true)?;
                continue;
            }
            match self.perform(free_i, a, [Cl::Live; 4], None, [0; 3], true)? {
                Ret::Int(0) => {}
                r => {
                    self.violation(
                        format!("C31:final-free-failed:{}", h.kind.name()),
                        format!("c2pa_free of model-live {} handle {:#x} returned {r:?}", h.kind.name(), h.addr),
                    )?;
                }
            }
            self.count("final_freed");
            // second free of the same address (nothing was allocated through the API in between)
            let mut cls = [Cl::Live; 4];
            cls[0] = Cl::Freed;
            self.perform(free_i, a, cls, Some(0), [0; 3], true)?;
        }
        // handles whose ownership after a failed consuming call is not documented: either result, no crash
        let unk: Vec<usize> = self.m.unknown.iter().copied().collect();
        for u in unk {
            self.n += 1;
            emit(json!({"e": "pre", "n": self.n, "f": "c2pa_free", "cls": ["unknown"], "bad": Value::Null, "implicit": true, "phase": "final-unknown"}));
            IN_CALL.store(true, Ordering::SeqCst);
            let r = unsafe { ffi::c2pa_free(u as *const c_void) };
            IN_CALL.store(false, Ordering::SeqCst);
            emit(json!({"e": "post", "n": self.n, "ret": r, "changed": false, "msg": ""}));
            self.count(if r == 0 { "unknown_was_live" } else { "unknown_was_consumed" });
        }
        Ok(())
    }

    /// Caller-owned byte buffer argument: 0 last signed manifest (or junk), 1 junk, 2 NULL/0, 3 pointer with length 0.
    fn data_arg(&self, v: u8) -> (*const u8, usize) {
        match v % 4 {
            0 if !self.last_manifest.is_empty() => (self.last_manifest.as_ptr(), self.last_manifest.len()),
            0 | 1 => (self.garbage.as_ptr(), self.garbage.len()),
            2 => (std::ptr::null(), 0),
            _ => (self.garbage.as_ptr(), 0),
        }
    }

    /// The actual FFI call. Handle arguments arrive as raw addresses; everything else is a valid caller-owned value.
    unsafe fn exec(&mut self, name: &str, a: &[usize; 4], v: &[u8; 3]) -> Out {
        let mut out: *const u8 = std::ptr::null();
        let mut count: usize = 0;
        let null_s: *const c_char = std::ptr::null();
        let ret = match name {
            "c2pa_version" => Ret::Ptr(ffi::c2pa_version() as usize),
            "c2pa_settings_new" => Ret::Ptr(ffi::c2pa_settings_new() as usize),
            "c2pa_context_new" => Ret::Ptr(ffi::c2pa_context_new() as usize),
            "c2pa_context_builder_new" => Ret::Ptr(ffi::c2pa_context_builder_new() as usize),
            "c2pa_reader_new" => Ret::Ptr(ffi::c2pa_reader_new() as usize),
            "c2pa_builder_from_json" => {
                let s = self.carg("def", v[0]);
                Ret::Ptr(ffi::c2pa_builder_from_json(s.p()) as usize)
            }
            "c2pa_create_stream" => {
                let (data, role) = match v[0] % 4 {
                    0 => (self.pools.src_jpeg.clone(), R_SRC),
                    1 => (self.pools.signed_jpeg.clone(), R_SIGNED),
                    2 => (vec![], R_DEST),
                    _ => (self.garbage.repeat(4), R_ANY),
                };
                let mem = Box::into_raw(Box::new(Mem { data, pos: 0 }));
                self.mems.push(mem);
                self.new_mem = Some((self.mems.len() - 1, role));
                Ret::Ptr(ffi::c2pa_create_stream(mem as *mut ffi::StreamContext, s_read, s_seek, s_write, s_flush) as usize)
            }
            "c2pa_signer_from_info" => {
                let alg = self.carg("alg", v[0]);
                let cert = self.carg("certs", v[1]);
                let key = self.carg("key", v[2]);
                let info = ffi::C2paSignerInfo { alg: alg.p(), sign_cert: cert.p(), private_key: key.p(), ta_url: null_s };
                Ret::Ptr(ffi::c2pa_signer_from_info(&info) as usize)
            }
            "c2pa_free" => {
                let r = ffi::c2pa_free(a[0] as *const c_void);
                if self.selftest == 2 && r == 0 && a[0] != 0 && self.m.live.get(&a[0]).map(|h| h.kind) == Some(K::Str) {
                    // self-test: pretend the library released the allocation twice
                    libc::free(a[0] as *mut c_void);
                }
                Ret::Int(r as i64)
            }
            "c2pa_error" => Ret::Ptr(ffi::c2pa_error() as usize),
            "c2pa_error_set_last" => {
                let s = self.carg("errstr", v[0]);
                Ret::Int(ffi::c2pa_error_set_last(s.p()) as i64)
            }
            "c2pa_load_settings" => {
                let s = self.carg("settings", v[0]);
                let f = self.carg("setfmt", v[1]);
                Ret::Int(ffi::c2pa_load_settings(s.p(), f.p()) as i64)
            }
            "c2pa_settings_update_from_string" => {
                let s = self.carg("settings", v[0]);
                let f = self.carg("setfmt", v[1]);
                Ret::Int(ffi::c2pa_settings_update_from_string(a[0] as *mut _, s.p(), f.p()) as i64)
            }
            "c2pa_settings_set_value" => {
                let p = self.carg("setpath", v[0]);
                let val = self.carg("setvalue", v[1]);
                Ret::Int(ffi::c2pa_settings_set_value(a[0] as *mut _, p.p(), val.p()) as i64)
            }
            "c2pa_context_builder_set_settings" => {
                Ret::Int(ffi::c2pa_context_builder_set_settings(a[0] as *mut _, a[1] as *mut _) as i64)
            }
            "c2pa_context_builder_set_signer" => {
                Ret::Int(ffi::c2pa_context_builder_set_signer(a[0] as *mut _, a[1] as *mut _) as i64)
            }
            "c2pa_context_builder_set_progress_callback" => {
                Ret::Int(ffi::c2pa_context_builder_set_progress_callback(a[0] as *mut _, std::ptr::null(), progress_cb) as i64)
            }
            "c2pa_http_resolver_create" => Ret::Ptr(ffi::c2pa_http_resolver_create(std::ptr::null(), http_cb) as usize),
            "c2pa_context_builder_set_http_resolver" => {
                Ret::Int(ffi::c2pa_context_builder_set_http_resolver(a[0] as *mut _, a[1] as *mut _) as i64)
            }
            "c2pa_context_builder_build" => Ret::Ptr(ffi::c2pa_context_builder_build(a[0] as *mut _) as usize),
            "c2pa_context_cancel" => Ret::Int(ffi::c2pa_context_cancel(a[0] as *mut _) as i64),
            "c2pa_release_string" => {
                ffi::c2pa_release_string(a[0] as *mut c_char);
                Ret::Void
            }
            "c2pa_string_free" => {
                ffi::c2pa_string_free(a[0] as *mut c_char);
                Ret::Void
            }
            "c2pa_free_string_array" => {
                ffi::c2pa_free_string_array(a[0] as *const *const c_char, self.arg_count);
                Ret::Void
            }
            "c2pa_reader_from_context" => Ret::Ptr(ffi::c2pa_reader_from_context(a[0] as *mut _) as usize),
            "c2pa_reader_from_stream" => {
                let f = self.carg("fmt", v[0]);
                Ret::Ptr(ffi::c2pa_reader_from_stream(f.p(), a[0] as *mut _) as usize)
            }
            "c2pa_reader_with_stream" => {
                let f = self.carg("fmt", v[0]);
                Ret::Ptr(ffi::c2pa_reader_with_stream(a[0] as *mut _, f.p(), a[1] as *mut _) as usize)
            }
            "c2pa_reader_with_manifest_data_and_stream" => {
                let f = self.carg("fmt", v[0]);
                let (d, l) = self.data_arg(v[1]);
                Ret::Ptr(ffi::c2pa_reader_with_manifest_data_and_stream(a[0] as *mut _, f.p(), a[1] as *mut _, d, l) as usize)
            }
            "c2pa_reader_with_fragment" => {
                let f = self.carg("fmt", v[0]);
                Ret::Ptr(ffi::c2pa_reader_with_fragment(a[0] as *mut _, f.p(), a[1] as *mut _, a[2] as *mut _) as usize)
            }
            "c2pa_reader_from_file" => {
                let p = self.carg("file", v[0]);
                Ret::Ptr(ffi::c2pa_reader_from_file(p.p()) as usize)
            }
            "c2pa_reader_from_manifest_data_and_stream" => {
                let f = self.carg("fmt", v[0]);
                let (d, l) = self.data_arg(v[1]);
                Ret::Ptr(ffi::c2pa_reader_from_manifest_data_and_stream(f.p(), a[0] as *mut _, d, l) as usize)
            }
            "c2pa_reader_free" => {
                ffi::c2pa_reader_free(a[0] as *mut _);
                Ret::Void
            }
            "c2pa_reader_json" => Ret::Ptr(ffi::c2pa_reader_json(a[0] as *mut _) as usize),
            "c2pa_reader_detailed_json" => Ret::Ptr(ffi::c2pa_reader_detailed_json(a[0] as *mut _) as usize),
            "c2pa_reader_crjson" => Ret::Ptr(ffi::c2pa_reader_crjson(a[0] as *mut _) as usize),
            "c2pa_reader_remote_url" => Ret::Ptr(ffi::c2pa_reader_remote_url(a[0] as *mut _) as usize),
            "c2pa_reader_is_embedded" => Ret::Bool(ffi::c2pa_reader_is_embedded(a[0] as *mut _)),
            "c2pa_reader_resource_to_stream" => {
                let u = self.carg("uri", v[0]);
                Ret::Int(ffi::c2pa_reader_resource_to_stream(a[0] as *mut _, u.p(), a[1] as *mut _))
            }
            "c2pa_reader_supported_mime_types" => Ret::Ptr(ffi::c2pa_reader_supported_mime_types(&mut count) as usize),
            "c2pa_builder_from_context" => Ret::Ptr(ffi::c2pa_builder_from_context(a[0] as *mut _) as usize),
            "c2pa_builder_from_archive" => Ret::Ptr(ffi::c2pa_builder_from_archive(a[0] as *mut _) as usize),
            "c2pa_builder_supported_mime_types" => Ret::Ptr(ffi::c2pa_builder_supported_mime_types(&mut count) as usize),
            "c2pa_builder_free" => {
                ffi::c2pa_builder_free(a[0] as *mut _);
                Ret::Void
            }
            "c2pa_builder_with_definition" => {
                let s = self.carg("def", v[0]);
                Ret::Ptr(ffi::c2pa_builder_with_definition(a[0] as *mut _, s.p()) as usize)
            }
            "c2pa_builder_with_archive" => Ret::Ptr(ffi::c2pa_builder_with_archive(a[0] as *mut _, a[1] as *mut _) as usize),
            "c2pa_builder_set_intent" => {
                let intent = match v[0] % 3 {
                    0 => ffi::C2paBuilderIntent::Create,
                    1 => ffi::C2paBuilderIntent::Edit,
                    _ => ffi::C2paBuilderIntent::Update,
                };
                let dst = match v[1] % 3 {
                    0 => ffi::C2paDigitalSourceType::DigitalCapture,
                    1 => ffi::C2paDigitalSourceType::Empty,
                    _ => ffi::C2paDigitalSourceType::TrainedAlgorithmicMedia,
                };
                Ret::Int(ffi::c2pa_builder_set_intent(a[0] as *mut _, intent, dst) as i64)
            }
            "c2pa_builder_set_no_embed" => {
                ffi::c2pa_builder_set_no_embed(a[0] as *mut _);
                Ret::Void
            }
            "c2pa_builder_set_remote_url" => {
                let u = self.carg("url", v[0]);
                Ret::Int(ffi::c2pa_builder_set_remote_url(a[0] as *mut _, u.p()) as i64)
            }
            "c2pa_builder_set_base_path" => {
                let p = self.carg("basepath", v[0]);
                Ret::Int(ffi::c2pa_builder_set_base_path(a[0] as *mut _, p.p()) as i64)
            }
            "c2pa_builder_add_resource" => {
                let u = self.carg("ingid", v[0]);
                Ret::Int(ffi::c2pa_builder_add_resource(a[0] as *mut _, u.p(), a[1] as *mut _) as i64)
            }
            "c2pa_builder_add_ingredient_from_stream" => {
                let j = self.carg("ingredient", v[0]);
                let f = self.carg("fmt", v[1]);
                Ret::Int(ffi::c2pa_builder_add_ingredient_from_stream(a[0] as *mut _, j.p(), f.p(), a[1] as *mut _) as i64)
            }
            "c2pa_builder_add_action" => {
                let j = self.carg("action", v[0]);
                Ret::Int(ffi::c2pa_builder_add_action(a[0] as *mut _, j.p()) as i64)
            }
            "c2pa_builder_to_archive" => Ret::Int(ffi::c2pa_builder_to_archive(a[0] as *mut _, a[1] as *mut _) as i64),
            "c2pa_builder_add_ingredient_from_archive" => {
                Ret::Int(ffi::c2pa_builder_add_ingredient_from_archive(a[0] as *mut _, a[1] as *mut _) as i64)
            }
            "c2pa_builder_write_ingredient_archive" => {
                let id = self.carg("ingid", v[0]);
                Ret::Int(ffi::c2pa_builder_write_ingredient_archive(a[0] as *mut _, id.p(), a[1] as *mut _) as i64)
            }
            "c2pa_builder_sign" => {
                let f = self.carg("fmt", v[0]);
                Ret::Int(ffi::c2pa_builder_sign(a[0] as *mut _, f.p(), a[1] as *mut _, a[2] as *mut _, a[3] as *mut _, &mut out))
            }
            "c2pa_builder_sign_context" => {
                let f = self.carg("fmt", v[0]);
                Ret::Int(ffi::c2pa_builder_sign_context(a[0] as *mut _, f.p(), a[1] as *mut _, a[2] as *mut _, &mut out))
            }
            "c2pa_manifest_bytes_free" => {
                ffi::c2pa_manifest_bytes_free(a[0] as *const u8);
                Ret::Void
            }
            "c2pa_builder_data_hashed_placeholder" => {
                let f = self.carg("fmt", v[0]);
                let reserve = [10_000usize, 0, 100][v[1] as usize % 3];
                Ret::Int(ffi::c2pa_builder_data_hashed_placeholder(a[0] as *mut _, reserve, f.p(), &mut out))
            }
            "c2pa_builder_sign_data_hashed_embeddable" => {
                let dh = self.carg("datahash", v[0]);
                let f = self.carg("fmt", v[1]);
                Ret::Int(ffi::c2pa_builder_sign_data_hashed_embeddable(a[0] as *mut _, a[1] as *mut _, dh.p(), f.p(), a[2] as *mut _, &mut out))
            }
            "c2pa_builder_needs_placeholder" => {
                let f = self.carg("fmt", v[0]);
                Ret::Int(ffi::c2pa_builder_needs_placeholder(a[0] as *mut _, f.p()) as i64)
            }
            "c2pa_builder_hash_type" => {
                let f = self.carg("fmt", v[0]);
                let mut ht = ffi::C2paHashType::DataHash;
                Ret::Int(ffi::c2pa_builder_hash_type(a[0] as *mut _, f.p(), &mut ht) as i64)
            }
            "c2pa_builder_placeholder" => {
                let f = self.carg("fmt", v[0]);
                Ret::Int(ffi::c2pa_builder_placeholder(a[0] as *mut _, f.p(), &mut out))
            }
            "c2pa_builder_sign_embeddable" => {
                let f = self.carg("fmt", v[0]);
                Ret::Int(ffi::c2pa_builder_sign_embeddable(a[0] as *mut _, f.p(), &mut out))
            }
            "c2pa_builder_set_data_hash_exclusions" => {
                let ex: [u64; 4] = [20, 100, 400, 16];
                let (p, n) = match v[0] % 3 {
                    0 => (ex.as_ptr(), 1usize),
                    1 => (std::ptr::null(), 0),
                    _ => (ex.as_ptr(), 2),
                };
                Ret::Int(ffi::c2pa_builder_set_data_hash_exclusions(a[0] as *mut _, p, n) as i64)
            }
            "c2pa_builder_set_fixed_size_merkle" => {
                let kb = [1usize, 0, 1024][v[0] as usize % 3];
                Ret::Int(ffi::c2pa_builder_set_fixed_size_merkle(a[0] as *mut _, kb) as i64)
            }
            "c2pa_builder_hash_mdat_bytes" => {
                let (d, l) = self.data_arg(1 + v[1] % 3);
                Ret::Int(ffi::c2pa_builder_hash_mdat_bytes(a[0] as *mut _, (v[0] % 2) as usize, d, l, v[2] & 1 == 1) as i64)
            }
            "c2pa_builder_update_hash_from_stream" => {
                let f = self.carg("fmt", v[0]);
                Ret::Int(ffi::c2pa_builder_update_hash_from_stream(a[0] as *mut _, f.p(), a[1] as *mut _) as i64)
            }
            "c2pa_format_embeddable" => {
                let f = self.carg("fmt", v[0]);
                let (d, l) = self.data_arg(v[1]);
                Ret::Int(ffi::c2pa_format_embeddable(f.p(), d, l, &mut out))
            }
            "c2pa_signer_create" => {
                let certs = self.carg("certs", v[0]);
                let alg = if v[1] % 3 == 1 { ffi::C2paSigningAlg::Es256 } else { ffi::C2paSigningAlg::Ed25519 };
                Ret::Ptr(ffi::c2pa_signer_create(self.pools.key_pem.as_ptr() as *const c_void, sign_cb, alg, certs.p(), null_s) as usize)
            }
            "c2pa_identity_signer_create" => {
                let r0 = CString::new("c2pa.actions").unwrap();
                let refs: [*const c_char; 2] = [r0.as_ptr(), std::ptr::null()];
                let empty: [*const c_char; 1] = [std::ptr::null()];
                let pick = |x: u8| -> *const *const c_char {
                    match x % 3 {
                        0 => std::ptr::null(),
                        1 => refs.as_ptr(),
                        _ => empty.as_ptr(),
                    }
                };
                Ret::Ptr(ffi::c2pa_identity_signer_create(a[0] as *mut _, a[1] as *mut _, pick(v[0]), pick(v[1])) as usize)
            }
            "c2pa_signer_from_settings" => Ret::Ptr(ffi::c2pa_signer_from_settings() as usize),
            "c2pa_signer_reserve_size" => Ret::Int(ffi::c2pa_signer_reserve_size(a[0] as *mut _)),
            "c2pa_signer_free" => {
                ffi::c2pa_signer_free(a[0] as *const _);
                Ret::Void
            }
            "c2pa_ed25519_sign" => {
                let key = self.carg("key", v[0]);
                let (d, l) = self.data_arg(1 + v[1] % 3);
                Ret::Ptr(ffi::c2pa_ed25519_sign(d, l, key.p()) as usize)
            }
            "c2pa_signature_free" => {
                ffi::c2pa_signature_free(a[0] as *const u8);
                Ret::Void
            }
            "c2pa_release_stream" => {
                ffi::c2pa_release_stream(a[0] as *mut _);
                Ret::Void
            }
            other => panic!("exec: no such function {other}"),
        };
        Out { ret, out: out as usize, count }
    }
}

/// Runs one sequence to completion in the current (forked, single-threaded) process.
fn run_sequence(inp: &ChildInput, pools: Pools) -> ! {
    let mut ch = Child::new(inp, pools);
    for c in &inp.case.calls {
        if ch.call(c).is_err() {
            break;
        }
    }
    if !ch.stopped {
        let _ = ch.final_phase();
    }
    emit(json!({
        "e": "done",
        "counts": ch.counts,
        "nontrivial": ch.nontrivial,
        "excluded": ch.excluded,
        "trouble": ch.trouble,
    }));
    unsafe { libc::_exit(0) }
}

/// `--child`: a single-threaded server that has not touched the library yet. For every input line (one case) it
/// forks; the forked process executes the sequence and streams its trace to the shared stdout; the server waits
/// for it and reports how it ended. Forking (instead of exec per case) keeps a case at a few milliseconds.
fn child_main() -> ! {
    std::panic::set_hook(Box::new(|info| {
        let loc = info.location().map(|l| format!("{}:{}", l.file(), l.line())).unwrap_or_default();
        let msg = info
            .payload()
            .downcast_ref::<&str>()
            .map(|s| s.to_string())
            .or_else(|| info.payload().downcast_ref::<String>().cloned())
            .unwrap_or_else(|| "panic".into());
        emit(json!({"e": "panic", "in_call": IN_CALL.load(Ordering::SeqCst), "msg": format!("{loc}: {msg}")}));
    }));
    let mut pools = Some(Pools::new());
    let stdin = std::io::stdin();
    let mut line = String::new();
    loop {
        line.clear();
        match std::io::BufRead::read_line(&mut stdin.lock(), &mut line) {
            Ok(0) | Err(_) => unsafe { libc::_exit(0) },
            Ok(_) => {}
        }
        let inp: ChildInput = match serde_json::from_str(&line) {
            Ok(i) => i,
            Err(e) => {
                emit(json!({"e": "exit", "bad_input": e.to_string()}));
                continue;
            }
        };
        let pid = unsafe { libc::fork() };
        if pid < 0 {
            emit(json!({"e": "exit", "fork_failed": true}));
            continue;
        }
        if pid == 0 {
            unsafe { libc::dup2(1, 2) };
            run_sequence(&inp, pools.take().unwrap());
        }
        // wall clock only decides when to give up on the forked process (=> inconclusive)
        let start = std::time::Instant::now();
        let mut status: c_int = 0;
        let mut timed_out = false;
        loop {
            let r = unsafe { libc::waitpid(pid, &mut status, libc::WNOHANG) };
            if r == pid {
                break;
            }
            if r < 0 {
                status = -1;
                break;
            }
            if !timed_out && start.elapsed().as_secs() >= inp.timeout_s.max(1) {
                timed_out = true;
                unsafe { libc::kill(pid, libc::SIGKILL) };
            }
            std::thread::sleep(std::time::Duration::from_micros(500));
        }
        let signal = if status >= 0 && libc::WIFSIGNALED(status) { Some(libc::WTERMSIG(status)) } else { None };
        let code = if status >= 0 && libc::WIFEXITED(status) { Some(libc::WEXITSTATUS(status)) } else { None };
        // the forked process may have died in the middle of a line (or after a stderr message without newline)
        unsafe { libc::write(1, b"\n".as_ptr() as *const c_void, 1) };
        emit(json!({"e": "exit", "signal": signal, "code": code, "timeout": timed_out}));
    }
}

// ------------------------------------------------------------------------------------------------
// parent: run one sequence in a child and judge the trace
// ------------------------------------------------------------------------------------------------

struct Outcome {
    fail: Option<Fail>,
    inconclusive: Option<String>,
    counts: BTreeMap<String, u64>,
    nontrivial: bool,
    excluded: u64,
    notes: Vec<String>,
}

/// A running `--child` fork server.
struct Zy {
    proc: std::process::Child,
    stdin: std::process::ChildStdin,
    stdout: std::io::BufReader<std::process::ChildStdout>,
}

static ZYGOTES: std::sync::Mutex<Vec<Zy>> = std::sync::Mutex::new(Vec::new());

fn spawn_zygote() -> Result<Zy, String> {
    let mut cmd = Command::new("/proc/self/exe");
    cmd.arg("--child")
        .env("MALLOC_CHECK_", "3")
        .env("MALLOC_PERTURB_", "165")
        .env("LD_PRELOAD", "libc_malloc_debug.so.0")
        .env("RUST_BACKTRACE", "0")
        .stdin(Stdio::piped())
        .stdout(Stdio::piped())
        .stderr(Stdio::null());
    let mut proc = cmd.spawn().map_err(|e| format!("cannot spawn fork server: {e}"))?;
    let stdin = proc.stdin.take().unwrap();
    let stdout = std::io::BufReader::new(proc.stdout.take().unwrap());
    Ok(Zy { proc, stdin, stdout })
}

fn shutdown_zygotes() {
    let mut g = ZYGOTES.lock().unwrap();
    for mut z in g.drain(..) {
        drop(z.stdin);
        let _ = z.proc.wait();
    }
}

fn run_child(case: &Case, skip: &[String], selftest: u8, timeout_s: u64) -> Outcome {
    let mut o = Outcome { fail: None, inconclusive: None, counts: BTreeMap::new(), nontrivial: false, excluded: 0, notes: vec![] };
    let mut input = json!({"case": case, "skip": skip, "selftest": selftest, "timeout_s": timeout_s}).to_string();
    input.push('\n');
    let z = ZYGOTES.lock().unwrap().pop();
    let mut z = match z {
        Some(z) => z,
        None => match spawn_zygote() {
            Ok(z) => z,
            Err(e) => {
                o.inconclusive = Some(e);
                return o;
            }
        },
    };
    if z.stdin.write_all(input.as_bytes()).and_then(|_| z.stdin.flush()).is_err() {
        let _ = z.proc.kill();
        let _ = z.proc.wait();
        o.inconclusive = Some("fork server went away (write)".into());
        return o;
    }
    let mut lines: Vec<String> = vec![];
    let mut exit: Option<Value> = None;
    loop {
        let mut l = String::new();
        match std::io::BufRead::read_line(&mut z.stdout, &mut l) {
            Ok(0) | Err(_) => break,
            Ok(_) => {
                if l.starts_with("{\"e\":\"exit\"") {
                    exit = serde_json::from_str(&l).ok();
                    break;
                }
                lines.push(l);
            }
        }
    }
    let Some(exit) = exit else {
        let _ = z.proc.kill();
        let _ = z.proc.wait();
        o.inconclusive = Some("fork server went away (read)".into());
        return o;
    };
    ZYGOTES.lock().unwrap().push(z);
    if exit["timeout"].as_bool().unwrap_or(false) {
        o.inconclusive = Some(format!("child exceeded {timeout_s}s"));
        return o;
    }
    if exit.get("bad_input").is_some() || exit.get("fork_failed").is_some() {
        o.inconclusive = Some(format!("fork server: {exit}"));
        return o;
    }
    let sig = exit["signal"].as_i64();
    let code = exit["code"].as_i64();
    // non-JSON lines are the stderr of the forked process (glibc abort messages, Rust abort notes)
    let err: String = lines.iter().filter(|l| !l.starts_with('{')).map(|l| l.trim().to_string()).collect::<Vec<_>>().join(" / ");

    let mut last_pre: Option<Value> = None;
    let mut last_was_post = false;
    let mut done = false;
    let mut harness_panic: Option<String> = None;
    let mut trace: Vec<String> = vec![];
    for line in lines.iter().filter(|l| l.starts_with('{')) {
        let Ok(v) = serde_json::from_str::<Value>(line) else { continue };
        match v["e"].as_str().unwrap_or("") {
            "pre" => {
                trace.push(format!(
                    "{}{}({})",
                    if v["implicit"].as_bool().unwrap_or(false) { "~" } else { "" },
                    v["f"].as_str().unwrap_or("?"),
                    v["cls"].as_array().map(|a| a.iter().filter_map(|x| x.as_str()).collect::<Vec<_>>().join(",")).unwrap_or_default()
                ));
                last_pre = Some(v);
                last_was_post = false;
            }
            "post" => {
                if let Some(t) = trace.last_mut() {
                    t.push_str(&format!("->{}", v["ret"].to_string().replace('"', "")));
                }
                last_was_post = true;
            }
            "viol" => {
                let tail: Vec<String> = trace.iter().rev().take(10).rev().cloned().collect();
                o.fail = Some(Fail::new(
                    v["sig"].as_str().unwrap_or("C31:unknown").to_string(),
                    format!("{} | calls: {}", v["what"].as_str().unwrap_or(""), tail.join(" ; ")),
                ));
            }
            "note" => o.notes.push(v["what"].as_str().unwrap_or("").to_string()),
            "panic" => {
                if !v["in_call"].as_bool().unwrap_or(false) {
                    harness_panic = Some(v["msg"].as_str().unwrap_or("").to_string());
                }
            }
            "done" => {
                done = true;
                if let Some(c) = v["counts"].as_object() {
                    for (k, n) in c {
                        o.counts.insert(k.clone(), n.as_u64().unwrap_or(0));
                    }
                }
                o.nontrivial = v["nontrivial"].as_bool().unwrap_or(false);
                o.excluded = v["excluded"].as_u64().unwrap_or(0);
                if let Some(t) = v["trouble"].as_str() {
                    o.inconclusive = Some(format!("harness trouble in child: {t}"));
                }
            }
            _ => {}
        }
    }
    if o.fail.is_some() || done {
        return o;
    }
    if let Some(p) = harness_panic {
        o.inconclusive = Some(format!("harness panic in child: {p}"));
        return o;
    }
    // the child died
    let how = match (sig, code) {
        (Some(s), _) => format!("killed by signal {s}"),
        (None, Some(c)) => format!("exit code {c}"),
        _ => "unknown status".to_string(),
    };
    let err_tail: String = err.chars().rev().take(200).collect::<Vec<_>>().into_iter().rev().collect();
    let tail: Vec<String> = trace.iter().rev().take(10).rev().cloned().collect();
    match last_pre {
        None => {
            o.inconclusive = Some(format!("child died before the first call ({how}): {err_tail}"));
        }
        Some(p) => {
            let f = p["f"].as_str().unwrap_or("?");
            let phase = p["phase"].as_str().unwrap_or("seq");
            let sig = if last_was_post {
                format!("C31:crash-after:{f}")
            } else if let Some(b) = p["bad"].as_str() {
                // function:parameter (the class of the invalid pointer is part of the description)
                format!("C31:crash:{}", b.rsplit_once(':').map(|x| x.0).unwrap_or(b))
            } else if phase != "seq" {
                format!("C31:crash:{phase}:{f}:valid")
            } else {
                format!("C31:crash:{f}:valid")
            };
            let bad = p["bad"].as_str().unwrap_or("all handles valid");
            o.fail = Some(Fail::new(sig, format!("child {how} in {f} [{bad}] (stderr: {err_tail}) | calls: {}", tail.join(" ; "))));
        }
    }
    o
}

// ------------------------------------------------------------------------------------------------
// parent: campaign
// ------------------------------------------------------------------------------------------------

fn sel_strategy() -> impl Strategy<Value = Sel> {
    let class = prop_oneof![26 => Just(0u8), 4 => Just(1u8), 4 => Just(2u8), 3 => Just(3u8), 3 => Just(4u8)];
    (class, any::<u8>()).prop_map(|(c, i)| Sel { c, i })
}

fn call_strategy() -> impl Strategy<Value = Call> {
    (
        0..SPECS.len() as u8,
        proptest::array::uniform4(sel_strategy()),
        proptest::array::uniform3(prop_oneof![3 => Just(0u8), 2 => any::<u8>()]),
    )
        .prop_map(|(f, h, v)| Call { f, h, v })
}

fn main() {
    if std::env::args().nth(1).as_deref() == Some("--child") {
        child_main();
    }
    vh::quiet_panics();
    let run = Run::from_args("C31", "exploration");
    run.set_rule("cases = sequences of 1..40 calls over the 77 exported c2pa_* functions; every handle parameter gets a selector {live right type, live wrong type, freed, NULL, foreign pointer into a harness buffer} (at most one invalid handle per call so a failure names one parameter and class; missing handles are created on demand through canonical valid API calls); C strings are valid or NULL, buffers / out-pointers / callbacks are valid caller-owned values. Each sequence runs in its own child process (re-exec, MALLOC_CHECK_=3, MALLOC_PERTURB_=165, libc_malloc_debug preloaded) that keeps a model of the registry learned from return values. Non-trivial = the sequence performs at least one generated misuse call after at least one successful construction.");
    run.assume("C strings passed are valid NUL-terminated or NULL; out-pointers, data buffers, callback contexts and enum values are valid caller-owned values (not handles)");
    run.assume("NULL is a documented no-op for the free functions and for the `asset` stream of c2pa_builder_sign_data_hashed_embeddable (not judged as misuse)");
    run.assume("the type-specific free functions are documented aliases of c2pa_free ('works for all pointer types'): any live registry handle is a valid argument for them");
    run.assume("whether a handle passed to a consuming function (*_with_*, set_signer, set_http_resolver, identity_signer_create, context_builder_build) is still owned by the caller after that call FAILED is not documented: such handles are never reused and their final free may succeed or fail");
    run.assume("c2pa_free_string_array (void, not registry-backed) cannot report anything: with an invalid pointer only a crash is judged, and the sequence ends there");
    run.assume("glibc malloc debugging (abort on heap corruption) and a fatal signal are the crash observations; silent corruption that neither aborts nor breaks a later call is not seen");

    let selftest: u8 = std::env::var("VERIF_SELFTEST").ok().and_then(|s| s.parse().ok()).unwrap_or(0);
    if selftest != 0 {
        run.note(format!("VERIF_SELFTEST={selftest}: deliberately wrong variant, failures expected"));
    }

    // known (function, parameter, class) triples: skipped inside the campaign, re-created by the probes
    let mut skip: Vec<String> = vec![];
    for s in SPECS {
        for (_, pname, _) in s.hs {
            let coarse = format!("{}:{}", s.name, pname);
            if run.is_known(&format!("C31:crash:{coarse}")) {
                skip.push(coarse.clone());
            }
            for cl in [Cl::Wrong, Cl::Freed, Cl::Null, Cl::Foreign] {
                let key = format!("{coarse}:{}", cl.name());
                if ["no-error-indicator", "no-error-message"].iter().any(|p| run.is_known(&format!("C31:{p}:{key}"))) {
                    skip.push(key);
                }
            }
        }
    }
    run.extra("known_triples_skipped_in_campaign", json!(skip));

    let timeout_s = 180;
    let judge = |case: &Case| -> CaseResult {
        let o = run_child(case, &skip, selftest, timeout_s);
        for (k, n) in &o.counts {
            run.count_n(k, *n);
        }
        run.count_n("calls_skipped_known", o.excluded);
        if o.excluded > 0 {
            run.excluded_known(o.excluded);
        }
        if o.nontrivial {
            run.nontrivial(case);
        }
        for n in &o.notes {
            // keep one note per distinct library function
            let key = format!("noted:{}", n.split(';').next().unwrap_or(""));
            if run.hist_get(&key) == 0 {
                run.note(n.clone());
            }
            run.count(&key);
        }
        if let Some(w) = o.inconclusive {
            run.inconclusive(w);
            return Ok(());
        }
        match o.fail {
            Some(f) => Err(f),
            None => Ok(()),
        }
    };

    // ---- probes: one minimal sequence per known triple (prints KNOWN-FINDING when it still reproduces) -----
    let mut probes: Vec<Case> = vec![];
    for key in &skip {
        let parts: Vec<&str> = key.split(':').collect();
        let Some(fi) = SPECS.iter().position(|s| s.name == parts[0]) else { continue };
        let Some(pi) = SPECS[fi].hs.iter().position(|h| h.1 == parts[1]) else { continue };
        let all = [Cl::Wrong, Cl::Freed, Cl::Null, Cl::Foreign];
        for (ci, cl) in all.iter().enumerate() {
            if parts.len() == 3 && parts[2] != cl.name() {
                continue;
            }
            if *cl == Cl::Null && SPECS[fi].null_ok & (1 << pi) != 0 {
                continue;
            }
            let mut h = [Sel { c: 0, i: 0 }; 4];
            h[pi] = Sel { c: ci as u8 + 1, i: 0 };
            probes.push(Case { calls: vec![Call { f: fi as u8, h, v: [0; 3] }], probe: true });
        }
    }
    run.drive_enum("probe", probes, |c| judge(c));

    // ---- fixed scenarios: every function once with every class on every handle parameter -------------------
    let mut sweep: Vec<Case> = vec![];
    for (fi, s) in SPECS.iter().enumerate() {
        for pi in 0..s.hs.len() {
            for cl in 1..5u8 {
                let mut h = [Sel { c: 0, i: 0 }; 4];
                h[pi] = Sel { c: cl, i: 0 };
                sweep.push(Case { calls: vec![Call { f: fi as u8, h, v: [0; 3] }], probe: false });
            }
        }
    }
    run.extra("sweep_cases", json!(sweep.len()));
    run.drive_enum_par("sweep", sweep, 8, |c| judge(c));

    // ---- random sequences ---------------------------------------------------------------------------------
    let strat = proptest::collection::vec(call_strategy(), 1..=40).prop_map(|calls| Case { calls, probe: false });
    let threads = run.scale(8, 12);
    run.drive_par("sequences", run.scale(400, 30_000), threads, strat, |c| judge(c));
    shutdown_zygotes();
    run.finish();
}
